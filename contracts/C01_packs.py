"""C01 (/ C19) — the containers' sizing modes and natural sizes: `sizing()` of Pile / Columns tells the truth, the
fixed-size (`()`) geometry `_get_fixed_rows_sizes` / `_get_fixed_column_sizes`, `pack()` and the `()` renderings.

"Telling the truth" (statement of C01: every mode sizing() reports can be packed and rendered) for a container with
opaque children means: when the container reports a mode, its geometry for a size of that mode does not raise and
hands every child a size of a mode THAT CHILD reports (a child of the widget protocol answers any size; a real one
raises or miscounts when it gets a size of a mode it does not support).  The clauses `<mode>-only-if-...` below state
exactly that against the rules by which the geometry functions choose the child sizes."""
import z3

from pyvc import seqs as Q
from pyvc import values as V
from pyvc.api import *
from pyvc.api import PROTOCOLS
from pyvc.values import cur, mk_bool, mk_int
from contracts.proto_widget import *
from contracts.C08_focus import PI, PILE, PINL, item_at, n_items
from contracts.C19_containers import pile_wf
from contracts.C01_decor import MODES, SizingSetModel, _fresh_sizing, _has, _xc_sizing_sets, sizing_call_real
import contracts.C19_columns  # noqa: F401  (registers `sizing & {constant set}` for opaque sizing sets)

from urwid.widget import pile as _pile
from urwid.widget.constants import Sizing

BOX, FLOW, FIXED = Sizing.BOX, Sizing.FLOW, Sizing.FIXED


def child_index(st=None):
    """The arbitrary child index of the per-child clauses: one unconstrained integer per path (universal
    generalisation, as contracts/C09_pile.py:arb_child); it is an input of the task (`g_child`) so that a known
    finding can speak about it."""
    st = st or cur()
    if "g_child" not in st.ghost:
        st.ghost["g_child"] = st.fresh_int("child")  # (a task without the ghost input: still an arbitrary index)
    return st.ghost["g_child"]


def _setup_child(st, self_obj, vals):
    """Ghost inputs: the arbitrary child index and -- for known findings, whose `when` predicates see the inputs only --
    that item's options and the modes its widget reports."""
    j = st.fresh_int("child")
    st.ghost["g_child"] = j
    vals["g_child"] = j
    V._current.append(st)
    try:
        n = n_items(self_obj)
        vals["g_n_items"] = n
        # an arbitrary child that EXISTS (nothing else is ever assumed about it): in range whenever there is a child
        st.assume(implies(n > 0, both(0 <= j, j < n)))
        it = item_at(self_obj, j)
        w, opts = it[0], it[1]
        vals["g_child_kind"] = opts[0]
        vals["g_child_amount"] = opts[1]
        if len(opts) > 2:
            vals["g_child_is_box"] = opts[2]
        for m in MODES:
            vals[f"g_child_{m.value}"] = sizing_has(w, m)
    finally:
        V._current.pop()


# ====================================================================================================== Pile.sizing
#
# The documented rules (docstring of Pile.sizing), per item j = (widget, (kind, amount)), as the flag of the item:
#     weight: BOX if the child is BOX, FLOW if FLOW, FIXED if FIXED and (BOX or FLOW)
#     given:  BOX and FLOW if the child is BOX                              ("height is known" / "can be shrinked")
#     pack:   FLOW if FLOW, FIXED if FIXED
# an item without any flag is unsupported (fallback {BOX, FLOW}); an item with BOX only is a strict box: the Pile is
# BOX only.  Items are examined top to bottom and the first unsupported / strict item decides.
#
# Spec functions over the (immutable) contents, recursive in the number k of items examined, unfolded groundly:
#     ST(k)  0: still running, 1: met an unsupported item, 2: met a strict box item
#     SB(k), SF(k), SX(k): some item examined while running had the BOX / FLOW / FIXED flag

_ST = z3.Function("pilesz$ST", z3.IntSort(), z3.IntSort())
_SB = z3.Function("pilesz$SB", z3.IntSort(), z3.BoolSort())
_SF = z3.Function("pilesz$SF", z3.IntSort(), z3.BoolSort())
_SX = z3.Function("pilesz$SX", z3.IntSort(), z3.BoolSort())


def ST(k):
    return mk_int(_ST(V._z(k)))


def SB(k):
    return mk_bool(_SB(V._z(k)))


def SF(k):
    return mk_bool(_SF(V._z(k)))


def SX(k):
    return mk_bool(_SX(V._z(k)))


def pile_flags(p, j):
    """(box, flow, fixed): the documented flag of item j (formulas)."""
    w, (kind, _amt) = item_at(p, j)
    cb, cf, cx = sizing_has(w, BOX), sizing_has(w, FLOW), sizing_has(w, FIXED)
    wt, gv, pk = kind == "weight", kind == "given", kind == "pack"
    box = either(both(wt, cb), both(gv, cb))
    flow = either(both(wt, cf), both(gv, cb), both(pk, cf))
    fixed = either(both(wt, cx, either(cb, cf)), both(pk, cx))
    return box, flow, fixed


def pile_unsupported(p, j):
    return neg(either(*pile_flags(p, j)))


def pile_strict(p, j):
    b, f, x = pile_flags(p, j)
    return both(b, neg(f), neg(x))


def sz_unfold(p, j):
    """Definitional axioms of ST / SB / SF / SX at index j (0 <= j < n)."""
    st = cur()
    n = n_items(p)
    zj = V._z(j)
    ok = z3.And(zj >= 0, zj < V._z(n))
    st.assume(both(ST(0) == 0, neg(SB(0)), neg(SF(0)), neg(SX(0))))
    b, f, x = pile_flags(p, j)
    run = ST(j) == 0
    uns, strict = pile_unsupported(p, j), pile_strict(p, j)
    step = both(
        ST(j + 1) == ite(run, ite(uns, 1, ite(strict, 2, 0)), ST(j)),
        eq(SB(j + 1), ite(both(run, neg(uns)), either(SB(j), b), SB(j))),
        eq(SF(j + 1), ite(both(run, neg(uns), neg(strict)), either(SF(j), f), SF(j))),
        eq(SX(j + 1), ite(both(run, neg(uns), neg(strict)), either(SX(j), x), SX(j))),
        ST(j) >= 0, ST(j) <= 2,
    )
    st.assume(mk_bool(z3.Implies(ok, V._zb(step))))


def sz_stays(p, k):
    """Lemma `pile-sizing-decided-stays-decided`, instantiated: once an item has decided (ST(k) != 0), nothing
    changes any more: the state after all n items is the state after k."""
    n = n_items(p)
    cur().assume(implies(both(0 <= k, k <= n, ST(k) != 0), both(ST(n) == ST(k), eq(SB(n), SB(k)), eq(SF(n), SF(k)), eq(SX(n), SX(k)))))


@lemma("pile-sizing-decided-stays-decided", property="C01")
class sz_stays_lemma:
    """Induction on m >= k for: ST(k) != 0  =>  (ST, SB, SF, SX)(m) == (ST, SB, SF, SX)(k).  Base m = k; step from
    the defining equations (a decided state copies itself)."""

    params = dict(stk=Int, sbk=Bool, sfk=Bool, sxk=Bool, stm=Int, sbm=Bool, sfm=Bool, sxm=Bool, uns=Bool, strict=Bool, b=Bool, f=Bool, x=Bool)

    def requires(a):
        # induction hypothesis at m: the state at m equals the (decided) state at k
        return both(a.stk != 0, a.stm == a.stk, eq(a.sbm, a.sbk), eq(a.sfm, a.sfk), eq(a.sxm, a.sxk))

    def claim(a):
        run = a.stm == 0
        st1 = ite(run, ite(a.uns, 1, ite(a.strict, 2, 0)), a.stm)
        sb1 = ite(both(run, neg(a.uns)), either(a.sbm, a.b), a.sbm)
        sf1 = ite(both(run, neg(a.uns), neg(a.strict)), either(a.sfm, a.f), a.sfm)
        sx1 = ite(both(run, neg(a.uns), neg(a.strict)), either(a.sxm, a.x), a.sxm)
        yield "base", both(a.stk == a.stk)
        yield "step", both(st1 == a.stk, eq(sb1, a.sbk), eq(sf1, a.sfk), eq(sx1, a.sxk))


# --- what each mode demands of the items (the rules by which get_rows_sizes / _get_fixed_rows_sizes hand out sizes)


def pile_item_ok_box(p, j):
    """Item j of a box Pile is handed a size of a mode it reports: a given / positively weighted item a box size,
    a packed item (maxcol,) or () -- (zero-weighted items get no rows and are not drawn)."""
    w, (kind, amt) = item_at(p, j)
    cb, cf, cx = sizing_has(w, BOX), sizing_has(w, FLOW), sizing_has(w, FIXED)
    return both(implies(kind == "given", cb), implies(both(kind == "weight", amt.val > 0), cb), implies(kind == "pack", either(cf, cx)))


def pile_item_ok_flow(p, j):
    """Item j of a flow Pile: a given item a box size, a weighted item (maxcol,), a packed item (maxcol,) or ()."""
    w, (kind, _amt) = item_at(p, j)
    cb, cf, cx = sizing_has(w, BOX), sizing_has(w, FLOW), sizing_has(w, FIXED)
    return both(implies(kind == "given", cb), implies(kind == "weight", cf), implies(kind == "pack", either(cf, cx)))


def pile_item_ok_fixed(p, j):
    """Item j of a fixed Pile (_get_fixed_rows_sizes): given: a box; pack: () or (width,); positive weight: a
    FIXED child that is also BOX gets a box, one that is also FLOW (or a plain FLOW child) gets (width,)."""
    w, (kind, amt) = item_at(p, j)
    cb, cf, cx = sizing_has(w, BOX), sizing_has(w, FLOW), sizing_has(w, FIXED)
    return both(implies(kind == "given", cb), implies(kind == "pack", either(cf, cx)),
                implies(both(kind == "weight", amt.val > 0), either(cf, both(cx, cb))))


def _psz_loop(v):
    p = v.self
    i = v.i_
    sup = v.supported
    j = child_index()
    sz_unfold(p, i - 1)
    sz_unfold(p, j)
    yield "still-running", ST(i) == 0
    yield "no-strict-box-yet", v.strict_box == False  # noqa: E712
    yield "box-collected", eq(sup.has[BOX], SB(i))
    yield "flow-fixed-not-yet-added", both(neg(sup.has[FLOW]), neg(sup.has[FIXED]))
    yield "flow-seen", eq(v.has_flow, SF(i))
    yield "fixed-seen", eq(v.has_fixed, SX(i))
    yield "every-item-so-far-is-supported-and-not-a-strict-box", implies(both(0 <= j, j < i), both(neg(pile_unsupported(p, j)), neg(pile_strict(p, j))))


@contract(PI + "Pile.sizing", property="C01", inline=PINL, replayable=False, call_real=sizing_call_real, setup=_setup_child, static_checks=[_xc_sizing_sets])
class pile_sizing:
    """The documented rules, exactly (`...-as-documented`), and what the statement asks of them: a mode is reported
    only if every item can be drawn by a Pile of that mode (`...-only-if-every-item-can-be-drawn-...`, stated for an
    arbitrary item `g_child`)."""

    self_shape = PILE
    params = {}
    result = Custom(_fresh_sizing, "set of sizing modes")
    raises = ()

    def requires(s, a):
        return pile_wf(s)

    def ensures(old, s, a, result):
        n = n_items(old)
        j = child_index()
        hb, hf, hx = _has(result, BOX), _has(result, FLOW), _has(result, FIXED)
        if n == 0:
            yield "empty-pile-is-box-flow", both(hb, hf, neg(hx))
            return
        sz_unfold(old, n - 1)
        sz_unfold(old, j)
        idx = cur().ghost.get("exit_locals", {}).get("idx")  # ghost: the item at which the loop was left (`return` / `break`)
        if idx is not None:
            sz_unfold(old, idx)
            sz_stays(old, idx + 1)
        yield "unsupported-item-gives-the-fallback-box-flow", implies(ST(n) == 1, both(hb, hf, neg(hx)))
        yield "strict-box-item-gives-box-only", implies(ST(n) == 2, both(hb, neg(hf), neg(hx)))
        yield "box-as-documented", implies(ST(n) == 0, eq(hb, SB(n)))
        yield "flow-as-documented", implies(ST(n) == 0, eq(hf, SF(n)))
        yield "fixed-as-documented", implies(ST(n) == 0, eq(hx, SX(n)))
        inr = both(0 <= j, j < n)
        yield "fixed-only-if-every-item-can-be-drawn-in-a-fixed-pile", implies(both(hx, inr, neg(pile_unsupported(old, j))), pile_item_ok_fixed(old, j))
        # FAILS-ON-TREE: Pile([Text('a'), Overlay(Text('ab'), SolidFill('.'), 'center', 'pack', 'middle', 'pack')]) reports FLOW
        # (the weighted Overlay is FIXED + BOX, not FLOW); render((5,)) raises WidgetError 'Cannot pack (maxcol,) size'.
        # Every counterexample: `both(a.g_child_kind == 'weight', neg(a.g_child_flow))`
        yield "flow-only-if-every-item-can-be-drawn-in-a-flow-pile", implies(both(hf, inr, ST(n) != 1, neg(pile_unsupported(old, j))), pile_item_ok_flow(old, j))
        # FAILS-ON-TREE: C01-KF11 and wider: Pile([Text('a'), (2, SolidFill('x'))]) reports BOX on account of the given box item;
        # render((5, 4)) hands the weighted flow-only Text a box size: ValueError 'too many values to unpack (expected 1)'; likewise
        # Pile([SolidFill('x'), Text('a')]) (BOX only: the strict box item decides, the weighted Text after it is not looked at).
        # Every counterexample: `both(a.g_child_kind == 'weight', neg(a.g_child_box))`
        yield "box-only-if-every-item-can-be-drawn-in-a-box-pile", implies(both(hb, inr, ST(n) != 1, neg(pile_unsupported(old, j))), pile_item_ok_box(old, j))

    def ensures_callee(old, s, a, result):
        """At call sites: the documented rules only (never a clause that is marked FAILS-ON-TREE)."""
        n = n_items(old)
        hb, hf, hx = _has(result, BOX), _has(result, FLOW), _has(result, FIXED)
        yield "empty-pile-is-box-flow", implies(n == 0, both(hb, hf, neg(hx)))
        yield "unsupported-item-gives-the-fallback-box-flow", implies(both(n > 0, ST(n) == 1), both(hb, hf, neg(hx)))
        yield "strict-box-item-gives-box-only", implies(both(n > 0, ST(n) == 2), both(hb, neg(hf), neg(hx)))
        yield "as-documented", implies(both(n > 0, ST(n) == 0), both(eq(hb, SB(n)), eq(hf, SF(n)), eq(hx, SX(n))))
        yield "state", both(ST(n) >= 0, ST(n) <= 2)

    loops = {0: Loop(invariant=_psz_loop)}


# ==================================================================================================== Columns.sizing
#
# The documented rules, per column j = (widget, (kind, amount, is_box)), as the flag of the column:
#     weight: BOX if the child is BOX, FLOW if FLOW, FIXED if FIXED and (BOX or FLOW)
#     given:  BOX if BOX; FIXED and FLOW if the child is FLOW        ("known width and widget knows its height")
#     pack:   FIXED if FIXED, FLOW if FLOW
# a column without any flag is unsupported (fallback {BOX, FLOW}, decided by the first such column).  Otherwise:
#     BOX   iff every column has the BOX flag
#     strict box: some column has BOX only and is not in box_columns  ->  neither FLOW nor FIXED
#     FIXED iff not strict, some column has the FIXED flag and every column without it is a given box column
#     FLOW  iff not strict and (some column has the FLOW flag or FIXED)
#     nothing at all -> the fallback {BOX, FLOW}
# Spec functions over the number k of columns examined (recursive, unfolded groundly):
#     CU(k): some column < k is unsupported;  CAB(k): all have BOX;  CSB(k): some is a strict box;
#     CHF(k) / CHX(k): some has FLOW / FIXED;  CBF(k): some blocks FIXED

from contracts.C08_focus import CINL, CO, COLUMNS  # noqa: E402
from urwid.widget import columns as _columns  # noqa: E402

_CF = {name: z3.Function(f"colsz${name}", z3.IntSort(), z3.BoolSort()) for name in ("CU", "CAB", "CSB", "CHF", "CHX", "CBF", "CHG")}


def CF(name, k):
    return mk_bool(_CF[name](V._z(k)))


def col_parts(c, j):
    w, (kind, amt, is_box) = item_at(c, j)
    return w, kind, amt, is_box, sizing_has(w, BOX), sizing_has(w, FLOW), sizing_has(w, FIXED)


def col_flags(c, j):
    """(box, flow, fixed): the documented flag of column j (formulas)."""
    w, kind, _amt, _is_box, cb, cf, cx = col_parts(c, j)
    wt, gv, pk = kind == "weight", kind == "given", kind == "pack"
    box = either(both(wt, cb), both(gv, cb))
    flow = either(both(wt, cf), both(gv, cf), both(pk, cf))
    fixed = either(both(wt, cx, either(cb, cf)), both(gv, cf), both(pk, cx))
    return box, flow, fixed


def col_unsupported(c, j):
    return neg(either(*col_flags(c, j)))


def col_gives_height(c, j):
    """Column j gets its height in _get_fixed_column_sizes from the child itself (not from the other columns)."""
    w, kind, amt, is_box, cb, cf, cx = col_parts(c, j)
    return either(both(kind == "given", neg(is_box)), both(kind == "pack", cx, neg(is_box)), both(kind == "weight", either(amt.val <= 0, neg(is_box))))


def csz_unfold(c, j):
    st = cur()
    zj = V._z(j)
    ok = z3.And(zj >= 0, zj < V._z(n_items(c)))
    st.assume(both(neg(CF("CU", 0)), CF("CAB", 0), neg(CF("CSB", 0)), neg(CF("CHF", 0)), neg(CF("CHX", 0)), neg(CF("CBF", 0)), neg(CF("CHG", 0))))
    w, kind, _amt, is_box, cb, cf, cx = col_parts(c, j)
    b, f, x = col_flags(c, j)
    step = both(
        eq(CF("CU", j + 1), either(CF("CU", j), col_unsupported(c, j))),
        eq(CF("CAB", j + 1), both(CF("CAB", j), b)),
        eq(CF("CSB", j + 1), either(CF("CSB", j), both(b, neg(is_box), neg(f), neg(x)))),
        eq(CF("CHF", j + 1), either(CF("CHF", j), f)),
        eq(CF("CHX", j + 1), either(CF("CHX", j), x)),
        eq(CF("CBF", j + 1), either(CF("CBF", j), both(neg(x), neg(both(b, kind == "given"))))),
        eq(CF("CHG", j + 1), either(CF("CHG", j), col_gives_height(c, j))),
    )
    st.assume(mk_bool(z3.Implies(ok, V._zb(step))))


def csz_unsupported_stays(c, k):
    """Lemma `prefix-or-monotone` (below), instantiated for CU: an unsupported column among the first k is among all n."""
    n = n_items(c)
    cur().assume(implies(both(0 <= k, k <= n, CF("CU", k)), CF("CU", n)))


@lemma("prefix-or-monotone", property="C01")
class prefix_or_monotone:
    """P(m) := OR(k) => OR(m) for k <= m, where OR(m + 1) == OR(m) or t.  Base m = k; step from the defining equation."""

    params = dict(ork=Bool, orm=Bool, t=Bool)

    def requires(a):
        return implies(a.ork, a.orm)  # induction hypothesis

    def claim(a):
        yield "base", implies(a.ork, a.ork)
        yield "step", implies(a.ork, either(a.orm, a.t))


FLAG_UNIVERSE = tuple(range(64))  # every value `flag` (an OR of _ContainerElementSizingFlag members) can take


def containers_call_real(ip, st, f, args, kwargs):
    """`set()`: an empty set whose later members are sizing modes (`supported`) or sizing flags (`flags`): one model
    over the union of both universes (C01_decor.SizingSetModel; adding anything else is Unsupported)."""
    if f is set and not args and not kwargs:
        return SizingSetModel({x: False for x in MODES + FLAG_UNIVERSE}, False)
    return sizing_call_real(ip, st, f, args, kwargs)


def _flags_all_box(flags):
    return both(*[implies(h, bool(v & 1)) for v, h in flags.has.items() if isinstance(v, int) and not isinstance(v, Sizing)])


def _only(model, kinds):
    """The set model holds members of the given kind only ('modes' / 'flags')."""
    is_flag = lambda v: isinstance(v, int) and not isinstance(v, Sizing)  # noqa: E731
    return both(*[neg(h) for v, h in model.has.items() if (is_flag(v) and kinds == "modes") or (not is_flag(v) and kinds == "flags")])


def col_sizing_wf(s):
    """Columns listed in box_columns hold box widgets (constructor: "a list of column indexes containing box widgets");
    stated for the arbitrary column."""
    j = child_index()
    w, kind, amt, is_box, cb, cf, cx = col_parts(s, j)
    from contracts.C08_focus import pile_ri

    return both(pile_ri(s), n_items(s) < 2**20, implies(both(0 <= j, j < n_items(s), is_box), cb))


def col_ok_box(c, j):
    """A box Columns hands a box size to exactly the children that report BOX: every child must."""
    return col_parts(c, j)[4]


def col_ok_flow(c, j):
    """get_column_sizes((maxcol,)): a box_columns child gets a box; else a FLOW child (width,), a packed FIXED child ();
    any other child a box as tall as the rest (with a ColumnsWarning)."""
    w, kind, amt, is_box, cb, cf, cx = col_parts(c, j)
    return both(implies(is_box, cb), implies(both(neg(is_box), neg(cf)), ite(kind == "pack", cx, cb)))


def col_ok_fixed(c, j):
    """_get_fixed_column_sizes: given: a box_columns child a box, else a FLOW child (width,); pack: a FIXED child that is
    not in box_columns (); positive weight: a box_columns child a box, else a FLOW child (width,)."""
    w, kind, amt, is_box, cb, cf, cx = col_parts(c, j)
    return both(implies(kind == "given", ite(is_box, cb, cf)), implies(kind == "pack", both(cx, neg(is_box))),
                implies(both(kind == "weight", amt.val > 0), ite(is_box, cb, cf)))


def _csz_loop(v):
    c = v.self
    i = v.i_
    j = child_index()
    csz_unfold(c, i - 1)
    csz_unfold(c, j)
    yield "no-unsupported-column-so-far", neg(CF("CU", i))
    yield "nothing-reported-yet", _only(v.supported, "flags")
    yield "supported-is-still-empty", _only(v.supported, "modes")
    yield "flags-holds-flags", _only(v.flags, "flags")
    yield "every-flag-so-far-has-box", eq(_flags_all_box(v.flags), CF("CAB", i))
    yield "strict-box-seen", eq(v.strict_box, CF("CSB", i))
    yield "flow-seen", eq(v.has_flow, CF("CHF", i))
    yield "fixed-seen", eq(v.has_fixed, CF("CHX", i))
    yield "fixed-blocked", eq(v.block_fixed, CF("CBF", i))
    seen = both(0 <= j, j < i)
    w, kind, _amt, is_box, cb, cf, cx = col_parts(c, j)
    b, f, x = col_flags(c, j)
    yield "every-column-so-far-is-supported", implies(seen, neg(col_unsupported(c, j)))
    # the prefix functions at i and the arbitrary column j < i (what "all" / "some" mean for that column)
    yield "all-box-includes-the-arbitrary-column", implies(both(seen, CF("CAB", i)), b)
    yield "a-strict-box-column-is-remembered", implies(both(seen, b, neg(is_box), neg(f), neg(x)), CF("CSB", i))
    yield "a-blocking-column-is-remembered", implies(both(seen, neg(x), neg(both(b, kind == "given"))), CF("CBF", i))
    yield "a-column-with-a-height-of-its-own-is-remembered", implies(both(seen, col_gives_height(c, j)), CF("CHG", i))


@contract(CO + "Columns.sizing", property="C01", inline=CINL, replayable=False, call_real=containers_call_real, setup=_setup_child)
class columns_sizing:
    """The documented rules, exactly, and what the statement asks of them: a mode is reported only if every column can be
    drawn by a Columns of that mode (stated for an arbitrary column `g_child`), and FIXED only if some column has a
    height of its own."""

    self_shape = COLUMNS
    params = {}
    result = Custom(_fresh_sizing, "set of sizing modes")
    raises = ()
    static_checks = [_xc_sizing_sets, lambda: Q.xcheck_guarded()]

    def requires(s, a):
        return col_sizing_wf(s)

    def ensures(old, s, a, result):
        n = n_items(old)
        j = child_index()
        hb, hf, hx = _has(result, BOX), _has(result, FLOW), _has(result, FIXED)
        if n == 0:
            yield "empty-columns-is-box-flow", both(hb, hf, neg(hx))
            return
        csz_unfold(old, n - 1)
        csz_unfold(old, j)
        idx = cur().ghost.get("exit_locals", {}).get("idx")  # ghost: the column at which the loop was left by `return`
        if idx is not None:
            csz_unfold(old, idx)
            csz_unsupported_stays(old, idx + 1)
        ok = neg(CF("CU", n))
        strict = CF("CSB", n)
        fixed = both(neg(strict), CF("CHX", n), neg(CF("CBF", n)))
        flow = both(neg(strict), either(CF("CHF", n), fixed))
        box = CF("CAB", n)
        nothing = both(neg(box), neg(flow), neg(fixed))
        yield "unsupported-column-gives-the-fallback-box-flow", implies(neg(ok), both(hb, hf, neg(hx)))
        yield "nothing-supported-gives-the-fallback-box-flow", implies(both(ok, nothing), both(hb, hf, neg(hx)))
        yield "box-as-documented", implies(both(ok, neg(nothing)), eq(hb, box))
        yield "flow-as-documented", implies(both(ok, neg(nothing)), eq(hf, flow))
        yield "fixed-as-documented", implies(both(ok, neg(nothing)), eq(hx, fixed))
        inr = both(0 <= j, j < n, ok, neg(nothing))
        yield "box-only-if-every-column-can-be-drawn-in-a-box-columns", implies(both(hb, inr), col_ok_box(old, j))
        yield "flow-only-if-every-column-can-be-drawn-in-a-flow-columns", implies(both(hf, inr), col_ok_flow(old, j))
        # FAILS-ON-TREE: (a) C01-KF10: a weighted column whose child is FIXED and BOX but not FLOW and that is not in box_columns:
        #   Columns([Overlay(Text('ab'), SolidFill('.'), 'center', 'pack', 'middle', 'pack')]) reports FIXED, pack(()) raises ColumnsError;
        # (b) a packed column in box_columns whose child is FIXED (and BOX): Columns([('pack', Overlay(Text('ab'), SolidFill('.'),
        #   'center', 'pack', 'middle', 'pack'))], box_columns=[0]) reports FIXED, pack(()) / render(()) raise TypeError ('<=' between
        #   NoneType and int).  Every counterexample: `either(both(a.g_child_kind == 'pack', a.g_child_is_box),
        #   both(a.g_child_kind == 'weight', neg(a.g_child_is_box), neg(a.g_child_flow)))`
        yield "fixed-only-if-every-column-can-be-drawn-in-a-fixed-columns", implies(both(hx, inr), col_ok_fixed(old, j))
        # FAILS-ON-TREE: every column is in box_columns: Columns([(5, Filler(Text('a'), 'top'))], box_columns=[0]) reports FIXED
        # (GIVEN FLOW -> FIXED), pack(()) / render(()) raise ColumnsError('No height information ...').  `a.g_child_is_box`
        yield "fixed-only-if-some-column-has-a-height-of-its-own", implies(both(hx, ok, neg(nothing)), CF("CHG", n))

    def ensures_callee(old, s, a, result):
        """At call sites: the documented rules only (never a clause that is marked FAILS-ON-TREE)."""
        n = n_items(old)
        hb, hf, hx = _has(result, BOX), _has(result, FLOW), _has(result, FIXED)
        ok = neg(CF("CU", n))
        strict = CF("CSB", n)
        fixed = both(neg(strict), CF("CHX", n), neg(CF("CBF", n)))
        flow = both(neg(strict), either(CF("CHF", n), fixed))
        box = CF("CAB", n)
        nothing = both(neg(box), neg(flow), neg(fixed))
        yield "fallbacks", implies(either(n == 0, neg(ok), nothing), both(hb, hf, neg(hx)))
        yield "as-documented", implies(both(n > 0, ok, neg(nothing)), both(eq(hb, box), eq(hf, flow), eq(hx, fixed)))

    loops = {0: Loop(invariant=_csz_loop)}


# ==================================================================================================== GridFlow.sizing
from contracts.C08_gridflow import GF, GINL, GRIDFLOW, gf_ri, n_cells  # noqa: E402


@contract(GF + "GridFlow.sizing", property="C01", inline=GINL, replayable=False, call_real=sizing_call_real)
class gridflow_sizing:
    """FLOW always; FIXED exactly when there is a cell (the natural width is that of all cells in one row: pack(())
    -- contracts/C08_gridflow.py: gf_pack -- answers only then); never BOX."""

    self_shape = GRIDFLOW
    params = {}
    result = Custom(_fresh_sizing, "set of sizing modes")
    raises = ()
    invariant = staticmethod(gf_ri)

    def ensures(old, s, a, result):
        yield "flow-always", _has(result, FLOW)
        yield "fixed-exactly-with-a-cell", eq(_has(result, FIXED), n_cells(old) > 0)
        yield "never-box", neg(_has(result, BOX))
        yield "frame", n_cells(s) == n_cells(old)


# ==================================================================================================== Frame (inherited)
# Frame defines neither sizing() nor pack(): it inherits Widget.sizing (its `_sizing` is {BOX}) and Widget.pack.
from contracts.C01_leafs import _inherited_pack, _inherited_sizing  # noqa: E402
from contracts.C09_frame import FRAME  # noqa: E402

frame_pack = _inherited_pack("Frame", FRAME, (BOX,), None, lambda s: True)
frame_sizing = _inherited_sizing("Frame", FRAME, (BOX,))
