"""C20 — the shard algebra behind `CompositeCanvas.trim` / `trim_end` (what a Scrollable cuts its window with):
`shards_trim_rows` and `shards_trim_top` of urwid/canvas.py, REAL bodies, over shard lists that are spelled out
(contracts/C02_canvas.py: explicit shards (rows, list of cviews); here without an unknown tail).

Statement clause (C20): "a Scrollable renders exactly rows p to p + height of the wrapped widget's full rendering".
The window is cut by `canv.trim(p)` (shards_trim_top) and `canv.trim_end(...)` (shards_trim_rows); a canvas is a list
of shards, a shard a row group (num_rows, cviews), and a cview (trim_left, trim_top, cols, rows, attr_map, canv) may be
TALLER than its shard: it then hangs down into the following shards (Columns of [Pile of short Texts | tall Text]).
What each function must do to every cview, whatever shard it started in:

  shards_trim_rows(shards, keep)   every cview keeps its source, attribute map, left edge, width and TOP edge; its
                                   height is cut to the rows of it that lie above row `keep` of the canvas
  shards_trim_top(shards, top)     every cview that reaches below row `top` keeps its source, attribute map, left
                                   edge, width and BOTTOM edge; its top edge moves down by exactly the number of its
                                   own rows that lie above row `top` of the canvas (rows of EARLIER shards included)

These contracts are verified under alias keys; the container proofs keep using the assumed observer contracts
a_shards_trim_rows / a_shards_trim_top of C02_canvas.py (rows / cols), which are consequences of the clauses here on
the shard lists covered."""
import z3

from pyvc import seqs as Q
from pyvc import shapes as S
from pyvc import values as V
from pyvc.api import *
from pyvc.seqs import LRef
from pyvc.values import cur

from contracts import C02_canvas as C2
from contracts.C02_canvas import CV, CVIEW, CVIEW_HELD, rows_of, cviews_width

from urwid import canvas as _canvas


def _spelled_out(nmax):
    """A shard list of 0..nmax shards, every one spelled out: (rows >= 0, list object of cviews of any length)."""

    def fresh(st, hint):
        k = st.fork(nmax + 1)
        shards = []
        for i in range(k):
            r = st.fresh_int(f"rows{i}")
            st.assume(r >= 0)
            cv = ListOf(CVIEW_HELD).fresh(st, f"cviews{i}")
            cv.entry_seq = cv.seq
            shards.append((r, cv))
        l = LRef(tuple(shards))
        l.entry_seq = l.seq
        return l

    return S.Custom(fresh, f"up to {nmax} spelled-out shards")


def same_view_but_height(new, old):
    """Same source canvas, attribute map, left edge, width and top edge (the height may differ)."""
    return both(C2.same_source(new, old), new[0] == old[0], new[1] == old[1], new[2] == old[2])


def _shards(x):
    s = x.seq if isinstance(x, LRef) else x
    if not isinstance(s, tuple):
        raise Unsupported(f"a shard list that is not spelled out: {s!r}")
    return s


def operands_untouched(shards):
    """The argument list and its cview lists are not written to (they are shared with the canvas being copied)."""
    yield "argument-shard-list-not-written-to", shards.seq is shards.entry_seq
    yield "argument-cview-lists-not-written-to", all(cv.seq is cv.entry_seq for _r, cv in shards.entry_seq)


# ------------------------------------------------------------------------------------------------ shards_trim_rows


def _rows_kept(cv_rows, done, keep):
    """Rows of a cview starting at canvas row `done` that lie above canvas row `keep`."""
    return imin(cv_rows, keep - done)


def _trim_rows_inner(v):
    """inner loop (`for cv in cviews`): the cviews built so far are those of the shard, cut at the window's bottom."""
    new, old = v.new_cviews, v.cviews
    yield "one-per-cview", Q.seq_len(new) == v.i_
    yield "cut-at-the-bottom-edge-only", forall(0, v.i_, lambda j: both(
        same_view_but_height(Q.seq_get(new, j), Q.seq_get(old, j)),
        Q.seq_get(new, j)[3] == _rows_kept(Q.seq_get(old, j)[3], v.done_rows, v.keep_rows)))


@contract(CV + "shards_trim_rows", property="C20", alias="spelled-out-shards", replayable=False)
class trim_rows_spelled_out:
    params = dict(shards=_spelled_out(3), keep_rows=Int)
    raises = (ValueError,)
    raises_iff = {ValueError: lambda a: a.keep_rows < 0}

    loops = {1: Loop(invariant=_trim_rows_inner, shapes={"new_cviews": ListOf(CVIEW)})}

    def ensures(a, r):
        src = a.shards.entry_seq
        out = _shards(r)
        yield "only-for-a-non-negative-count", a.keep_rows >= 0
        done = 0
        kept = 0
        for k, (rows, cvs) in enumerate(src):
            if not cur().branch(done < a.keep_rows):
                break
            kept = k + 1
            if k < len(out):
                nrows, ncvs = out[k]
                old = cvs.entry_seq
                yield f"shard{k}-height-cut-at-the-window", nrows == imin(rows, a.keep_rows - done)
                yield f"shard{k}-one-cview-per-cview", Q.seq_len(ncvs) == Q.seq_len(old)
                d = done
                yield f"shard{k}-cviews-cut-at-the-bottom-edge-only", forall(0, Q.seq_len(old), lambda j, ncvs=ncvs, old=old, d=d: both(
                    same_view_but_height(Q.seq_get(ncvs, j), Q.seq_get(old, j)),
                    Q.seq_get(ncvs, j)[3] == _rows_kept(Q.seq_get(old, j)[3], d, a.keep_rows)))
                yield f"shard{k}-cview-list-newly-built", isinstance(ncvs, LRef) and all(ncvs is not c for _r, c in src)
            done = done + rows
        yield "keeps-exactly-the-shards-that-start-above-the-cut", len(out) == kept
        yield "rows", rows_of(r) == imin(a.keep_rows, rows_of(src))
        yield "result-list-newly-built", isinstance(r, LRef) and r is not a.shards
        yield from operands_untouched(a.shards)

    def on_raise(a, exc):
        yield "value-error-only-for-a-negative-count", a.keep_rows < 0
        yield from operands_untouched(a.shards)


# ------------------------------------------------------------------------------------------------- shards_trim_top
# Stated bound: TWO shards, each with at most TWO cviews (lengths symbolic within that bound) -- enough for every way a
# cview of the first shard can hang down into the second one beside the second shard's own cviews; the loops of
# shard_body / shard_body_tail (inlined) are unrolled over these lists.  `iter()` / `next()` / `for ... in <iterator>` /
# `lst.extend(<iterator>)`: pyvc/builtins_model.ListIter.

MAXCV = 2


def _two_shards(st, hint):
    shards = []
    for i in range(2):
        r = st.fresh_int(f"rows{i}")
        st.assume(r >= 0)
        cv = ListOf(CVIEW_HELD).fresh(st, f"cviews{i}")
        st.assume(Q.seq_len(cv.seq) <= MAXCV)
        cv.entry_seq = cv.seq
        shards.append((r, cv))
    l = LRef(tuple(shards))
    l.entry_seq = l.seq
    return l


def moved_down(new, old, amount):
    """`new` shows what `old` shows from its row `amount` on: same source, attribute map, left edge and width; the
    top edge `amount` rows further down, the bottom edge where it was."""
    return both(C2.same_source(new, old), new[0] == old[0], new[2] == old[2], new[1] == old[1] + amount, new[3] == old[3] - amount)


def _is_some(new, cands):
    """new is one of the candidates (old cview, guard, amount) moved down by its amount."""
    return either(*[both(g, moved_down(new, old, amount)) for old, g, amount in cands])


@contract(CV + "shards_trim_top", property="C20", alias="two-shards", replayable=False, inline=(CV + "shard_body", CV + "shard_body_tail"))
class trim_top_two_shards:
    params = dict(shards=S.Custom(_two_shards, "two spelled-out shards of at most two cviews"), top=Int)
    raises = (ValueError, _canvas.CanvasError)

    def ensures(a, r):
        (r0, cvs0), (r1, cvs1) = a.shards.entry_seq
        c0, c1 = cvs0.entry_seq, cvs1.entry_seq
        n0, n1 = Q.seq_len(c0), Q.seq_len(c1)
        out = _shards(r)
        top = a.top
        yield "only-for-a-cut-inside-the-canvas", both(top > 0, top < r0 + r1)
        yield "result-list-newly-built", isinstance(r, LRef) and r is not a.shards
        yield from operands_untouched(a.shards)
        nrows, ncvs = out[0]
        yield "first-cview-list-newly-built", isinstance(ncvs, LRef) and ncvs is not cvs0 and ncvs is not cvs1
        m = Q.seq_len(ncvs)
        if cur().branch(top < r0):
            # the cut is inside the first shard: all of its cviews start at canvas row 0
            yield "cut-in-shard0/the-other-shard-follows-unchanged", len(out) == 2 and out[1][0] is r1 and out[1][1] is cvs1
            yield "cut-in-shard0/height", nrows == r0 - top
            yield "cut-in-shard0/one-cview-per-cview", m == n0
            yield "cut-in-shard0/every-cview-loses-its-rows-above-the-cut", (
                both(*[moved_down(Q.seq_get(ncvs, j), Q.seq_get(c0, j), top) for j in range(m)]) if isinstance(m, int)
                else forall(0, n0, lambda j: moved_down(Q.seq_get(ncvs, j), Q.seq_get(c0, j), top)))
        else:
            # the cut is inside the second shard: its own cviews start at canvas row r0, the cviews of the first shard
            # that are taller than it (they hang down beside them) at canvas row 0
            yield "cut-in-shard1/nothing-follows", len(out) == 1
            yield "cut-in-shard1/height", nrows == r1 - (top - r0)
            hanging = [neg(Q.seq_get(c0, j)[3] == r0) for j in range(MAXCV)]
            cands = [(Q.seq_get(c0, j), both(j < n0, hanging[j]), top) for j in range(MAXCV)] + [(Q.seq_get(c1, j), mk_bool_(j < n1), top - r0) for j in range(MAXCV)]
            nh = sum_(ite(both(j < n0, hanging[j]), 1, 0) for j in range(MAXCV))
            yield "cut-in-shard1/one-cview-per-own-or-hanging-cview", m == n1 + nh
            for i in range(2 * MAXCV):
                if isinstance(m, int) and i >= m:
                    break
                yield f"cut-in-shard1/cview{i}-loses-exactly-its-own-rows-above-the-cut", implies(i < m, _is_some(Q.seq_get(ncvs, i), cands))
            # none is shown twice / dropped: the own cviews keep their order, so do the hanging ones
            yield "cut-in-shard1/width-is-that-of-the-own-and-hanging-cviews", cviews_width(ncvs) == sum_(ite(g, old[2], 0) for old, g, _amt in cands)

    def on_raise(a, exc):
        (r0, _cvs0), (r1, _cvs1) = a.shards.entry_seq
        yield "value-error-iff-nothing-to-trim", (exc.cls is ValueError) == bool_(a.top <= 0)
        yield from operands_untouched(a.shards)


# ----------------------------------------------------------------------------------------------- shards_trim_sides
# What Scrollable cuts the right-hand side of a too-wide FIXED content with (CompositeCanvas.pad_trim_left_right with a
# negative amount).  Same stated bound as above: TWO shards of at most TWO cviews each (a cview of the first shard may
# hang down beside the second shard's own cviews).  Statement clause: "exactly rows p to p + height": cutting columns
# must not lose a row -- a shard none of whose own cviews lies in the window (a stack of short canvases right of the
# window beside a tall canvas inside it) hands its rows to the shard before it.


def narrowed(new, old):
    """`new` shows columns of `old` only: same source, attribute map, top edge and height; left and right edge inside."""
    return both(C2.same_source(new, old), new[1] == old[1], new[3] == old[3], new[0] >= old[0], new[0] + new[2] <= old[0] + old[2], new[2] >= 0)


def _tall_beside_short(st, hint):
    """Quick-tier instance: the first shard has exactly two cviews, the second one none of its own (it shows only what hangs down from the first)."""
    l = _two_shards(st, hint)
    (_r0, cvs0), (_r1, cvs1) = l.seq
    st.assume(both(Q.seq_len(cvs0.seq) == 2, Q.seq_len(cvs1.seq) == 0))
    return l


class _trim_sides:  # (clauses shared by the two instances below; the decorator reads the decorated class's own attributes)
    def ensures(a, r):
        (r0, cvs0), (r1, cvs1) = a.shards.entry_seq
        c0, c1 = cvs0.entry_seq, cvs1.entry_seq
        n0, n1 = Q.seq_len(c0), Q.seq_len(c1)
        out = _shards(r)
        yield "only-for-a-window", both(a.left >= 0, a.cols > 0)
        yield "result-list-newly-built", isinstance(r, LRef) and r is not a.shards
        yield from operands_untouched(a.shards)
        yield "at-most-one-shard-per-shard", 1 <= len(out) <= 2
        if not 1 <= len(out) <= 2:
            return
        yield "no-row-is-lost", sum_(nr for nr, _c in out) == r0 + r1
        yield "first-shard-keeps-its-height-or-takes-over-the-second-one's", out[0][0] == (r0 if len(out) == 2 else r0 + r1)
        w0 = cviews_width(c0)
        yield "first-shard-is-as-wide-as-the-window-inside-the-canvas", cviews_width(out[0][1]) == imin(a.cols, w0 - a.left)
        olds = [(Q.seq_get(c0, j), mk_bool_(j < n0)) for j in range(MAXCV)] + [(Q.seq_get(c1, j), mk_bool_(j < n1)) for j in range(MAXCV)]
        for k, (_nr, ncvs) in enumerate(out):
            yield f"shard{k}-cview-list-newly-built", isinstance(ncvs, LRef) and ncvs is not cvs0 and ncvs is not cvs1
            m = Q.seq_len(ncvs)
            yield f"shard{k}-keeps-a-cview-of-its-own", m >= 1
            yield f"shard{k}-not-wider-than-the-window", cviews_width(ncvs) <= a.cols
            for i in range(MAXCV):
                if isinstance(m, int) and i >= m:
                    break
                yield f"shard{k}-cview{i}-is-a-cview-of-the-canvas-narrowed", implies(i < m, either(*[both(g, narrowed(Q.seq_get(ncvs, i), old)) for old, g in olds]))

    def on_raise(a, exc):
        (_r0, cvs0), _s1 = a.shards.entry_seq
        yield "value-error-iff-no-window", (exc.cls is ValueError) == bool_(either(a.left < 0, a.cols <= 0))
        yield "index-error-only-when-the-window-starts-right-of-the-canvas", implies(exc.cls is IndexError, cviews_width(cvs0.entry_seq) <= a.left)
        yield from operands_untouched(a.shards)


@contract(CV + "shards_trim_sides", property="C20", alias="two-cviews-over-none", replayable=False, inline=(CV + "shard_body", CV + "shard_body_tail"))
class trim_sides_tall_beside_short(_trim_sides):
    params = dict(shards=S.Custom(_tall_beside_short, "two spelled-out shards: two cviews over none"), left=Int, cols=Int)
    raises = (ValueError, IndexError, _canvas.CanvasError)
    ensures = _trim_sides.ensures
    on_raise = _trim_sides.on_raise


@contract(CV + "shards_trim_sides", property="C20", alias="two-shards", replayable=False, inline=(CV + "shard_body", CV + "shard_body_tail"))
class trim_sides_two_shards(_trim_sides):  # ~5900 paths, ~6 min on one core: thorough tier (contracts/tuning.py)
    params = dict(shards=S.Custom(_two_shards, "two spelled-out shards of at most two cviews"), left=Int, cols=Int)
    raises = (ValueError, IndexError, _canvas.CanvasError)
    ensures = _trim_sides.ensures
    on_raise = _trim_sides.on_raise


def mk_bool_(x):
    return x if isinstance(x, (bool, V.SBool)) else V.mk_bool(V._zb(x))


def bool_(x):
    """Python truth of a formula that the path condition decides (forks otherwise)."""
    return x if isinstance(x, bool) else cur().branch(x)


def sum_(xs):
    t = 0
    for x in xs:
        t = t + x
    return t


# ---- the engine rule added with these contracts (pyvc/builtins_model.ListIter, Interp.s_For over an iterator object),
# against CPython's own list / tuple iterators on concrete data


def _xc_list_iterator():
    import itertools
    import random

    from pyvc.builtins_model import ListIter, b_iter
    from pyvc.interp import Interp

    class _St:  # no symbolic value occurs: nothing to force, no fork
        @staticmethod
        def force(x):
            return x

    class _Ip:
        _iter_elem = staticmethod(Interp._iter_elem)

    st, ip = _St(), _Ip()
    rnd = random.Random(20)
    ops_all = ("next", "append", "loop1", "loop2", "drain", "iter", "next-default")
    bad = []
    progs = list(itertools.product(ops_all, repeat=3)) + [tuple(rnd.choice(ops_all) for _ in range(7)) for _ in range(400)]
    for n0 in (0, 1, 3):
        for as_tuple in (False, True):
            for prog in progs:
                if as_tuple and "append" in prog:
                    continue
                real = tuple(range(n0)) if as_tuple else list(range(n0))
                model = tuple(range(n0)) if as_tuple else LRef(tuple(range(n0)))
                rit, mit = iter(real), b_iter(ip, st, model)
                out_r, out_m = [], []
                k = 100
                for op in prog:
                    if op == "next":
                        try:
                            out_r.append(next(rit))
                        except StopIteration:
                            out_r.append("stop")
                        try:
                            out_m.append(mit.step(ip, st))
                        except Exception as e:  # noqa: BLE001  (engine.PyRaise carrying StopIteration)
                            out_m.append("stop" if getattr(getattr(e, "exc", None), "cls", None) is StopIteration else repr(e))
                    elif op == "next-default":
                        out_r.append(next(rit, "dflt"))
                        out_m.append(mit.step(ip, st) if mit.more(st) else "dflt")
                    elif op == "append":
                        k += 1
                        real.append(k)
                        model.seq = model.seq + (k,)
                    elif op in ("loop1", "loop2"):  # for x in it: ...; break after 1 / 2 items   (Interp.s_For's rule)
                        lim = 1 if op == "loop1" else 2
                        got = []
                        for x in rit:
                            got.append(x)
                            if len(got) == lim:
                                break
                        out_r.append(got)
                        got = []
                        while mit.more(st):
                            got.append(mit.step(ip, st))
                            if len(got) == lim:
                                break
                        out_m.append(got)
                    elif op == "drain":  # list(it) / lst.extend(it)
                        out_r.append(list(rit))
                        out_m.append(list(mit.py_iter(ip, st)))
                    elif op == "iter":
                        out_r.append(iter(rit) is rit)
                        out_m.append(b_iter(ip, st, mit) is mit)
                if out_r != out_m:
                    bad.append((n0, as_tuple, prog, out_r, out_m))
    return "list-iterator-model-agrees-with-cpython", not bad, f"{len(bad)} mismatches, first: {bad[:1]}"


trim_top_two_shards.static_checks = [_xc_list_iterator]
