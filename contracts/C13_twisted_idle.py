"""C13 — TwistedEventLoop's idle emulation (urwid/event_loop/twisted_loop.py), the adapter's own Python.

The reactor is opaque (any object with callLater / stop / crash / addReader / removeReader; nothing is
claimed about WHEN it fires a delayed call).  What is proved is the adapter's bookkeeping, which is what
the statement's "after any alarm or watch callback has run, the registered idle callbacks run before the
loop next goes quiescent" rests on for this loop:

  ghost `idle_calls` = number of idle passes (delayed calls of handle_exit(self._twisted_idle_callback,
  enable_idle=False)) handed to reactor.callLater and not yet started by the reactor.
  class invariant  I:  0 <= idle_calls <= 1  and  (_twisted_idle_enabled  <=>  idle_calls == 1)

  * _enable_twisted_idle: preserves I and establishes idle_calls == 1 (an idle pass IS scheduled), with
    the documented short delay; schedules nothing when one is pending already.
  * _twisted_idle_callback, entered by the reactor with its own delayed call consumed (idle_calls == 0
    while the flag still says True): calls only currently registered idle callbacks and re-establishes I
    on EVERY normal exit (flag False) -- in particular when no idle callback is registered.
  * handle_exit.<wrapper> (what the reactor actually calls for every alarm, watch and idle pass; its free
    variables self / f / enable_idle are universally quantified): after an alarm or watch callback
    (enable_idle=True) returned or raised, an idle pass is scheduled (idle_calls == 1, I holds); for the
    idle pass itself (enable_idle=False) nothing is scheduled by the wrapper; ExitMainLoop stops the
    reactor, any other exception is stored in _exc (the very object) and crashes the reactor, when the
    loop manages the reactor.
  * alarm / watch_file / remove_watch_file / enter_idle / remove_enter_idle / remove_alarm (the
    operations a user callback may perform: the rely of the two contracts above) leave the flag and
    idle_calls untouched; alarm and watch_file hand the reactor the callback wrapped with
    enable_idle=True.

User callbacks are opaque, may raise anything, and may re-enter the loop's public operations."""
import sys

import z3

from pyvc import seqs as Q
from pyvc import shapes as S
from pyvc import source as SRC
from pyvc import values as V
from pyvc.api import *
from pyvc.api import PROTOCOLS
from pyvc.interp import FnVal
from pyvc.protocol import PMethod, Protocol
from pyvc.seqs import ModelObj
from pyvc.values import cur, mk_bool, mk_int

from contracts.C13_loops import SMap, _guard
from urwid.event_loop.abstract_loop import ExitMainLoop

try:  # twisted is an optional dependency of urwid: without it there is nothing to verify here
    from urwid.event_loop import twisted_loop as _tl
except ImportError:  # pragma: no cover
    _tl = None

TL = "urwid/event_loop/twisted_loop.py:"


def _is_idle_pass(fn):
    """The value handed to callLater is handle_exit's wrapper around the bound _twisted_idle_callback."""
    if not isinstance(fn, FnVal) or fn.closure is None or fn.ref.node.name != "wrapper":
        return None
    f = fn.closure.locals.get("f")
    return isinstance(f, FnVal) and f.ref.node.name == "_twisted_idle_callback" and f.bound is not None


class SReactor(ModelObj):
    """Opaque reactor: every call is logged as an event; callLater of an idle pass bumps the ghost counter
    `ghost_idle_calls` of the loop object."""

    def py_call(self, ip, st, name, args, kwargs):
        o = st.ghost["loop_obj"]
        if name == "callLater":
            delay, fn = args[0], args[1]
            idle = _is_idle_pass(fn)
            if idle is None:
                raise Unsupported("callLater of something that is not a handle_exit wrapper")
            wrapped = fn.closure.locals.get("f")
            en = fn.closure.locals.get("enable_idle")
            st.event("callLater", delay, "idle-pass" if idle else wrapped, en)
            if idle:
                o.fields["ghost_idle_calls"] = o.fields["ghost_idle_calls"] + 1
            return V.SOpaque("DelayedCall", z3.Const(st.fresh_name("dc"), S.opaque_sort("DelayedCall")))
        if name in ("stop", "crash", "addReader", "removeReader"):  # opaque effects, logged
            st.event("reactor." + name, *args)
            return None
        raise Unsupported(f"reactor.{name}")


class SWatchMap(SMap):
    """fd -> descriptor object: a descriptor stored by the method under verification is remembered as the
    Python object it is (`stored`), the map's symbolic value for that key becomes a fresh opaque token."""

    def __init__(self, st, name):
        super().__init__(st, name, S.opaque_sort("TwDescriptor"), "TwDescriptor")
        self.stored = []

    def py_setitem(self, ip, st, k, v):
        self.stored.append((k, v))
        tok = V.SOpaque("TwDescriptor", z3.Const(st.fresh_name("ind"), S.opaque_sort("TwDescriptor")))
        super().py_setitem(ip, st, k, tok)


def _fresh_tw(st, hint):
    o = Q.SObj(_tl.TwistedEventLoop, dict(
        reactor=SReactor(), _watch_files=SWatchMap(st, "watch"), _idle_callbacks=SMap(st, "idle"),
        _idle_handle=st.fresh_int("idle_handle"), _twisted_idle_enabled=st.fresh_bool("enabled"),
        _exc=V.SOpt(z3.Bool(st.fresh_name("exc_none")), V.SOpaque("Exc", z3.Const(st.fresh_name("exc"), S.opaque_sort("Exc")))),
        manage_reactor=st.fresh_bool("manage"), ghost_idle_calls=st.fresh_int("idle_calls")))
    st.ghost["loop_obj"] = o
    return o


def _class_const(ip, st, obj, name):
    """Class-level constants the engine does not read by itself (floats): the real class's value."""
    if name == "_idle_emulation_delay":
        return _tl.TwistedEventLoop._idle_emulation_delay
    return NotImplemented


TW = Custom(_fresh_tw, "TwistedEventLoop")
TW.fields = {}


def inv(s):
    """I: at most one idle pass is pending in the reactor, and the flag says exactly whether one is."""
    n = s.ghost_idle_calls
    return both(n >= 0, n <= 1, eq(s._twisted_idle_enabled, n == 1))


@contract(TL + "TwistedEventLoop._enable_twisted_idle", property="C13", replayable=False)
class enable_twisted_idle:
    self_shape = TW
    inline = ("TwistedEventLoop.handle_exit",)
    modifies = ("_twisted_idle_enabled", "ghost_idle_calls")
    missing_field = staticmethod(_class_const)

    def requires(s, a):
        return inv(s)

    invariant = staticmethod(inv)

    def ensures(old, s, a, result):
        yield "an-idle-pass-is-scheduled", both(s._twisted_idle_enabled == True, s.ghost_idle_calls == 1)  # noqa: E712
        yield "exactly-one-more-iff-none-was-pending", s.ghost_idle_calls == old.ghost_idle_calls + ite(old._twisted_idle_enabled, 0, 1)
        calls = [ev for ev in cur().trace if ev[0] == "callLater"]
        if calls:
            yield "one-call-with-the-documented-delay-running-the-idle-pass", both(len(calls) == 1, calls[0][2] == "idle-pass", calls[0][3] is False, eq(calls[0][1], _tl.TwistedEventLoop._idle_emulation_delay))


def _tw_havoc(st):
    """Rely: a user callback may call alarm / remove_alarm / watch_file / remove_watch_file / enter_idle /
    remove_enter_idle any number of times: the watch and idle maps and the idle handle counter change
    arbitrarily (the counter only grows); `_twisted_idle_enabled` and the ghost count do not -- proved of
    each of the six operations below (flag-and-pending-idle-pass-untouched)."""
    o = st.ghost["loop_obj"]
    st.ghost["last_lookup"] = None
    st.ghost["last_pop"] = None
    old_handle = o.fields["_idle_handle"]
    o.fields["_watch_files"] = SWatchMap(st, "watch")
    o.fields["_idle_callbacks"] = SMap(st, "idle")
    o.fields["_idle_handle"] = st.fresh_int("idle_handle")
    st.assume(o.fields["_idle_handle"] >= old_handle)


def _tw_setup(st, self_obj, vals):
    st.ghost["loop_obj"] = self_obj
    st.ghost["flag_at_entry"] = self_obj.fields["_twisted_idle_enabled"]
    st.ghost["calls_at_entry"] = self_obj.fields["ghost_idle_calls"]


def _bookkeeping_untouched(s):
    g = cur().ghost
    return both(eq(s._twisted_idle_enabled, g["flag_at_entry"]), s.ghost_idle_calls == g["calls_at_entry"])


@contract(TL + "TwistedEventLoop._twisted_idle_callback", property="C13", replayable=False)
class twisted_idle_callback:
    self_shape = TW
    raises = (ExitMainLoop, InterruptedError, Exception)
    modifies = ("_twisted_idle_enabled",)
    setup = staticmethod(_tw_setup)
    callback_guard = staticmethod(_guard)
    callback_havoc = staticmethod(_tw_havoc)
    log_event = "_twisted_idle_callback"

    def requires(s, a):
        # entered by the reactor running the delayed call made by _enable_twisted_idle: that call is no
        # longer pending, the flag still says it is
        return both(s._twisted_idle_enabled == True, s.ghost_idle_calls == 0)  # noqa: E712

    def ensures(old, s, a, result):
        yield "flag-cleared-so-the-next-callback-schedules-a-new-pass", s._twisted_idle_enabled == False  # noqa: E712
        yield "nothing-scheduled-by-the-pass-itself", both(s.ghost_idle_calls == 0, not [ev for ev in cur().trace if ev[0] == "callLater"])
        yield "class-invariant-restored", inv(s)

    def on_raise(old, s, a, exc):
        # an idle callback raised: the wrapper stops / crashes the reactor; nothing was scheduled meanwhile
        yield "nothing-scheduled", s.ghost_idle_calls == 0

    def effects(old, s, a, result):
        _tw_havoc(cur())

    # every callback invoked is a currently registered idle callback (obligation at the call site);
    # user callbacks cannot touch the flag or the pending-pass count
    loops = {0: Loop(invariant=lambda v: _bookkeeping_untouched(v.self))}


# ---- what the reactor actually calls: handle_exit's wrapper (free variables = universally quantified globals)

def _wrapper_real(ip, st, f, args, kwargs):
    if f is sys.exc_info:
        return None  # only printed
    if f is print:
        return None
    return NotImplemented


def _stops(trace):
    return [ev for ev in trace if ev[0] == "reactor.stop"], [ev for ev in trace if ev[0] == "reactor.crash"]


@contract(TL + "TwistedEventLoop.handle_exit.<wrapper>", property="C13", replayable=False)
class wrapper:
    """Two entry cases (forked in setup).  'user': f is an opaque user callback -- the delayed call / reader
    callback of an alarm or a watch when enable_idle=True.  'idle-pass': f is this loop's bound
    _twisted_idle_callback and enable_idle=False, exactly what _enable_twisted_idle hands to callLater
    (proved there: one-call-with-the-documented-delay-running-the-idle-pass), entered by the reactor with
    that delayed call consumed."""
    globals_ = dict(self=TW, f=Opaque("LoopCallback"), enable_idle=Bool)
    callback_havoc = staticmethod(_tw_havoc)
    call_real = staticmethod(_wrapper_real)
    raises = ()  # nothing a callback raises leaves the wrapper (it would be lost inside the reactor)

    def setup(st, self_obj, vals):
        me = vals["g_self"]
        case = ("user", "idle-pass")[st.fork(2)]
        st.ghost["case"] = case
        if case == "idle-pass":
            f = FnVal(SRC.resolve(TL + "TwistedEventLoop._twisted_idle_callback"), None, me, _tl.TwistedEventLoop)
            st.ghost["globals"]["f"] = vals["g_f"] = f
            st.assume(neg(vals["g_enable_idle"]))
        _tw_setup(st, me, vals)
        st.ghost["exc_at_entry"] = me.fields["_exc"]

    def requires(a):
        s = a.g_self
        if cur().ghost["case"] == "idle-pass":
            return both(s._twisted_idle_enabled == True, s.ghost_idle_calls == 0)  # noqa: E712
        return inv(s)

    def ensures(a, result):
        st = cur()
        s = a.g_self
        stops, crashes = _stops(st.trace)
        if st.ghost["case"] != "idle-pass" or ("_twisted_idle_callback", "raised") not in s.trace:
            # (not claimed when an idle callback raised: the flag then stays True with nothing pending --
            # the loop is being stopped; with manage_reactor=False, where urwid does not stop the reactor,
            # that leaves the idle emulation switched off: reported as an observation, outside the statement)
            yield "class-invariant", inv(s)
        if st.ghost["case"] == "idle-pass":
            ran = [ev for ev in s.trace if ev[0] == "_twisted_idle_callback"]
            yield "the-idle-pass-ran-once", len(ran) == 1
            if ("_twisted_idle_callback", "raised") in ran:
                yield "an-exception-of-an-idle-callback-stops-a-managed-reactor", both(s.ghost_idle_calls == 0, implies(s.manage_reactor, len(stops) + len(crashes) == 1), implies(neg(s.manage_reactor), not stops and not crashes))
            else:
                yield "after-the-idle-pass-none-is-pending-and-the-flag-says-so", both(s._twisted_idle_enabled == False, s.ghost_idle_calls == 0, not stops, not crashes)  # noqa: E712
            return
        raised = st.ghost.get("callback_raised")
        yield "the-callback-ran-exactly-once", count_ev(st.trace, "callback") == 1
        yield "after-an-alarm-or-watch-callback-an-idle-pass-is-scheduled", implies(a.g_enable_idle, both(s._twisted_idle_enabled == True, s.ghost_idle_calls == 1))  # noqa: E712
        yield "otherwise-the-wrapper-schedules-nothing", implies(neg(a.g_enable_idle), _bookkeeping_untouched(s))
        if raised is None:
            yield "no-stop-without-an-exception", both(not stops, not crashes, s._exc is st.ghost["exc_at_entry"])
        elif issubclass(raised.cls, ExitMainLoop):
            yield "ExitMainLoop-stops-a-managed-reactor-silently", both(not crashes, s._exc is st.ghost["exc_at_entry"], implies(s.manage_reactor, len(stops) == 1), implies(neg(s.manage_reactor), not stops))
        else:
            yield "any-other-exception-is-kept-for-run-and-crashes-a-managed-reactor", both(not stops, s._exc is raised, implies(s.manage_reactor, len(crashes) == 1), implies(neg(s.manage_reactor), not crashes))


# ---- the six public operations (what a user callback may call: the rely of the contracts above)

class DelayedCallProtocol(Protocol):
    """twisted's DelayedCall: cancel() returns None or raises AlreadyCancelled / AlreadyCalled (trusted:
    twisted.internet.base.DelayedCall.cancel raises exactly when the call was cancelled / has run)."""
    kind = "DelayedCall"
    methods = {"cancel": PMethod(result=None, mutates=True, raises_any=(_tl.AlreadyCancelled, _tl.AlreadyCalled) if _tl else ())}


PROTOCOLS["DelayedCall"] = DelayedCallProtocol()


def _callLater(trace):
    return [ev for ev in trace if ev[0] == "callLater"]


@contract(TL + "TwistedEventLoop.alarm", property="C13", replayable=False)
class tw_alarm:
    self_shape = TW
    params = dict(seconds=Int, callback=Opaque("LoopCallback"))
    inline = ("TwistedEventLoop.handle_exit",)
    setup = staticmethod(_tw_setup)

    def ensures(old, s, a, result):
        calls = _callLater(cur().trace)
        yield "one-delayed-call", len(calls) == 1
        if len(calls) != 1:
            return
        yield "after-that-many-seconds", eq(calls[0][1], a.seconds)
        yield "of-the-callback-wrapped-so-that-an-idle-pass-follows-it", both(calls[0][2] is a.callback, calls[0][3] is True)
        yield "the-handle-is-the-reactor's-delayed-call", isinstance(result, V.SOpaque) and result.kind == "DelayedCall"
        yield "flag-and-pending-idle-pass-untouched", _bookkeeping_untouched(s)


@contract(TL + "TwistedEventLoop.remove_alarm", property="C13", replayable=False)
class tw_remove_alarm:
    self_shape = TW
    params = dict(handle=Opaque("DelayedCall"))
    setup = staticmethod(_tw_setup)

    def ensures(old, s, a, result):
        cancels = [ev for ev in cur().trace if ev[0] == "call" and ev[2] == "cancel"]
        yield "cancels-once", len(cancels) == 1
        if len(cancels) != 1:
            return
        yield "that-very-call", cancels[0][1] is a.handle
        yield "reports-whether-the-cancellation-took-effect", result is (cancels[0][4] != "raised")
        yield "flag-and-pending-idle-pass-untouched", _bookkeeping_untouched(s)


def _fresh_descriptor(st, hint):
    return Q.SObj(_tl._TwistedInputDescriptor, {})


@contract(TL + "_TwistedInputDescriptor.__init__", property="C13", assumed=True,
          notes="constructor of the reader object handed to the reactor: stores fd and callback, then twisted's FileDescriptor.__init__ (external, opaque); trusted to do nothing else to the loop")
class descriptor_init:
    constructs = Custom(_fresh_descriptor, "_TwistedInputDescriptor")
    ctor_params = ("reactor", "fd", "cb")

    def ensures(old, s, a, result):
        s.fields["_fileno"], s.fields["cb"], s.fields["reactor"] = a.fd, a.cb, a.reactor
        return ()


@contract(TL + "TwistedEventLoop.watch_file", property="C13", replayable=False)
class tw_watch_file:
    self_shape = TW
    params = dict(fd=Int, callback=Opaque("LoopCallback"))
    result = Int
    inline = ("TwistedEventLoop.handle_exit",)
    setup = staticmethod(_tw_setup)

    def ensures(old, s, a, result):
        adds = [ev for ev in cur().trace if ev[0] == "reactor.addReader"]
        yield "handle-is-the-descriptor", result == a.fd
        yield "one-reader-added", len(adds) == 1 and isinstance(adds[0][1], Q.SObj)
        if len(adds) != 1 or not isinstance(adds[0][1], Q.SObj):
            return
        yield "for-that-descriptor", eq(adds[0][1].fields["_fileno"], a.fd)
        cb = adds[0][1].fields["cb"]
        yield "whose-callback-is-the-user's-wrapped-so-that-an-idle-pass-follows-it", both(isinstance(cb, FnVal) and cb.ref.node.name == "wrapper", cb.closure.locals["f"] is a.callback, cb.closure.locals["enable_idle"] is True)
        st_ = s._watch_files.stored
        yield "remembered-under-the-descriptor", both(s._watch_files.has(a.fd), len(st_) == 1 and st_[-1][1] is adds[0][1], eq(st_[-1][0], a.fd) if st_ else False)
        yield "flag-and-pending-idle-pass-untouched", _bookkeeping_untouched(s)


@contract(TL + "TwistedEventLoop.remove_watch_file", property="C13", replayable=False)
class tw_remove_watch_file:
    self_shape = TW
    params = dict(handle=Int)
    result = Bool
    setup = staticmethod(_tw_setup)

    def ensures(old, s, a, result):
        rms = [ev for ev in cur().trace if ev[0] == "reactor.removeReader"]
        yield "reports-whether-it-was-watched", eq(result, old._watch_files.has(a.handle))
        yield "no-longer-watched", neg(s._watch_files.has(a.handle))
        if result:
            yield "its-reader-is-taken-from-the-reactor", both(len(rms) == 1, eq(rms[0][1], old._watch_files.val(a.handle)) if rms else False)
        else:
            yield "nothing-taken-from-the-reactor", not rms
        k = V.SInt(z3.Int("anyfd"))
        yield "others-untouched", mk_bool(z3.ForAll([k.e], V._zb(implies(neg(eq(k, a.handle)), eq(s._watch_files.has(k), old._watch_files.has(k))))))
        yield "flag-and-pending-idle-pass-untouched", _bookkeeping_untouched(s)


@contract(TL + "TwistedEventLoop.enter_idle", property="C13", replayable=False)
class tw_enter_idle:
    self_shape = TW
    params = dict(callback=Opaque("LoopCallback"))
    result = Int
    setup = staticmethod(_tw_setup)

    def requires(s, a):
        k = z3.Int("qk")  # handles are issued increasingly: stored ones are not above the counter
        return mk_bool(z3.ForAll([k], z3.Implies(V._zb(s._idle_callbacks.has(V.SInt(k))), k <= V._z(s._idle_handle))))

    def ensures(old, s, a, result):
        yield "fresh-handle", both(neg(old._idle_callbacks.has(result)), result == old._idle_handle + 1, s._idle_handle == result)
        yield "registered", both(s._idle_callbacks.has(result), eq(s._idle_callbacks.val(result), a.callback))
        k = V.SInt(z3.Int("anyh"))
        yield "others-untouched", mk_bool(z3.ForAll([k.e], V._zb(implies(neg(eq(k, result)), both(eq(s._idle_callbacks.has(k), old._idle_callbacks.has(k)), eq(s._idle_callbacks.val(k), old._idle_callbacks.val(k)))))))
        yield "flag-and-pending-idle-pass-untouched", _bookkeeping_untouched(s)
        yield "nothing-asked-of-the-reactor", not [ev for ev in cur().trace if ev[0] == "callLater" or ev[0].startswith("reactor.")]


@contract(TL + "TwistedEventLoop.remove_enter_idle", property="C13", replayable=False)
class tw_remove_enter_idle:
    self_shape = TW
    params = dict(handle=Int)
    result = Bool
    setup = staticmethod(_tw_setup)

    def ensures(old, s, a, result):
        yield "reports-whether-it-was-registered", eq(result, old._idle_callbacks.has(a.handle))
        yield "no-longer-registered", neg(s._idle_callbacks.has(a.handle))
        k = V.SInt(z3.Int("anyh"))
        yield "others-untouched", mk_bool(z3.ForAll([k.e], V._zb(implies(neg(eq(k, a.handle)), eq(s._idle_callbacks.has(k), old._idle_callbacks.has(k))))))
        yield "flag-and-pending-idle-pass-untouched", _bookkeeping_untouched(s)


def _blank_tw(st, hint):
    """The object as __init__ receives it: no attribute yet; no idle pass can be pending in the reactor."""
    o = Q.SObj(_tl.TwistedEventLoop, dict(ghost_idle_calls=0))
    st.ghost["loop_obj"] = o
    return o


def _init_real(ip, st, f, args, kwargs):
    import logging

    if f is logging.getLogger:
        return SLogger()
    return NotImplemented


class SLogger(ModelObj):
    """logging.Logger: getChild gives a logger; nothing else is used by the code under contract."""

    def py_call(self, ip, st, name, args, kwargs):
        if name == "getChild":
            return SLogger()
        raise Unsupported(f"logger.{name}")


@contract(TL + "TwistedEventLoop.__init__", property="C13", replayable=False)
class tw_init:
    """With a reactor given (the default-reactor branch only imports twisted's global reactor)."""
    self_shape = Custom(_blank_tw, "blank TwistedEventLoop")
    params = dict(reactor=Custom(lambda st, hint: SReactor(), "reactor"), manage_reactor=Bool)
    inline = ("TwistedEventLoop.handle_exit", "TwistedEventLoop._enable_twisted_idle", "EventLoop.__init__")
    missing_field = staticmethod(_class_const)
    call_real = staticmethod(_init_real)

    def ensures(old, s, a, result):
        yield "class-invariant-established", inv(s)
        yield "with-a-first-idle-pass-scheduled", both(s._twisted_idle_enabled == True, s.ghost_idle_calls == 1)  # noqa: E712
        yield "nothing-registered-no-exception-kept", both(s._idle_handle == 0, s._exc is None, s.reactor is a.reactor, eq(s.manage_reactor, a.manage_reactor))
