"""C13 — the alarm / watch operations of the asyncio and tornado adapter loops (urwid/event_loop/asyncio_loop.py,
tornado_loop.py), the adapters' own Python, against an opaque scheduler.

Statement clauses served here:
  * "unless it is removed first, in which case it never runs, the removal reports success and removing it again
    reports failure"  (alarm / remove_alarm)
  * "until the watch is removed, after which it never runs"  (watch_file / remove_watch_file)
  * "after any alarm or watch callback has run, the registered idle callbacks run ..." and "an exception raised in
    any callback stops the loop": every callable handed to the scheduler is the user's callback WRAPPED -- by
    `_also_call_idle` (proved of the wrapper in contracts/C13_asyncio_idle.py: an idle pass is pending when the
    callback is entered) and, for tornado, by `handle_exit` (proved of its wrapper in contracts/C13_adapter_run.py:
    ExitMainLoop / any Exception stops the IOLoop, the exception is kept for run()).  For asyncio, exceptions travel
    through the loop's exception handler (`_exception_handler`, contracts/C13_adapter_run.py).

The scheduler (asyncio loop / tornado IOLoop) is OPAQUE -- `SOpsLoop`, trusted, see SCHEDULER_NOTES: nothing is
claimed about WHEN it calls what.  What is proved is what urwid asks of it and what urwid answers:

  asyncio   alarm            one call_later(seconds, wrapper(callback)); the handle is that timer, not cancelled
            remove_alarm     cancels that very timer once; answers True exactly if it was not cancelled before;
                             afterwards it is cancelled (so the next removal answers False)
            watch_file       one add_reader(fd, wrapper(callback)); the handle is fd
            remove_watch_file  one remove_reader(handle); answers what the scheduler answers = whether a reader was
                             registered; afterwards none is; other descriptors untouched
  tornado   alarm            one add_timeout(now + seconds, wrapper(wrapped)); the timer is recorded as pending under the
                             handle returned; `wrapped` = alarm.<wrapped> (under contract below: forgets the pending
                             entry, runs the user's callback once inside handle_exit)
            remove_alarm     one remove_timeout(handle); answers True exactly if the alarm was pending (not run, not
                             removed); afterwards not pending; others untouched
            watch_file       one add_handler(fd, wrapper(handler), READ); a fresh handle (counter + 1) mapped to fd
            remove_watch_file  answers whether the handle was known; if so one remove_handler(its fd) and the handle is
                             forgotten; else nothing is asked of the IOLoop; other handles untouched
  All eight leave the idle emulation's bookkeeping alone (`_idle_asyncio_handle`, the pending idle pass, the idle
  callbacks): the class invariant of contracts/C13_asyncio_idle.py is preserved -- they are the rely of the wrapper
  contracts there.

The coroutine side of no loop is touched here; enter_idle / remove_enter_idle / _entering_idle / the wrappers / run /
_exception_handler are in C13_asyncio_idle.py and C13_adapter_run.py."""
import z3

from pyvc import seqs as Q
from pyvc import shapes as S
from pyvc import values as V
from pyvc.api import *
from pyvc.api import PROTOCOLS
from pyvc.engine import PyRaise, SExc
from pyvc.interp import FnVal
from pyvc.protocol import OpaqueCall
from pyvc.seqs import ModelObj
from pyvc.values import SReal, cur, mk_bool, mk_int

from contracts import C13_adapter_run as _AR
from contracts import C13_asyncio_idle as _AI
from contracts.C13_loops import LoopCallbackProtocol  # noqa: F401  (registers the LoopCallback protocol)
from urwid.event_loop import asyncio_loop as _al
from urwid.event_loop.abstract_loop import ExitMainLoop

AL = "urwid/event_loop/asyncio_loop.py:"
TOL = "urwid/event_loop/tornado_loop.py:"
TH = S.opaque_sort("TimerHandle")

SCHEDULER_NOTES = (
    "asyncio loop / tornado IOLoop (external, opaque; SOpsLoop + the TimerHandle protocol): call_later / add_timeout return a NEW "
    "timer handle (an object distinct from every live one, not cancelled); TimerHandle.cancelled() answers whether cancel() was "
    "called on it, cancel() / IOLoop.remove_timeout(h) withdraw it -- a withdrawn timer is never run; add_reader(fd, cb) / "
    "add_handler(fd, cb, events) register cb for fd, remove_reader(fd) answers whether a reader was registered and unregisters "
    "it, remove_handler(fd) unregisters it -- the callback of an unregistered descriptor is never run; IOLoop.time() is a number. "
    "Nothing is assumed about when or in which order registered callables are run.")


# ---------------------------------------------------------------------------------------------- ghost state of the scheduler

def _cancelled(st):
    """Ghost predicate on timer handles: cancel() was called on it / it was removed with remove_timeout."""
    f = st.ghost.get("th_cancelled")
    if f is None:
        f0 = z3.Function("TimerHandle.cancelled@entry", TH, z3.BoolSort())
        f = st.ghost["th_cancelled"] = lambda h: mk_bool(f0(h.e))
    return f


def _withdraw(st, h):
    old = _cancelled(st)
    st.ghost["th_cancelled"] = lambda x: either(old(x), eq(x, h))
    # the pending idle pass (ghost count of contracts/C13_asyncio_idle.py) is withdrawn only with ITS handle
    o = st.ghost.get("loop_obj")
    if o is not None and "ghost_idle_calls" in o.fields:
        ih = o.fields.get("_idle_asyncio_handle")
        is_idle = False if ih is None else eq(ih, h)
        n = o.fields["ghost_idle_calls"]
        o.fields["ghost_idle_calls"] = ite(both(is_idle, n > 0), n - 1, n)


class TimerHandleOpsProtocol(_AR.TimerHandleProtocol):
    """asyncio.TimerHandle as remove_alarm uses it (cancelled(), cancel()); see SCHEDULER_NOTES."""

    def getattr(self, ip, st, obj, name):
        if name in ("cancel", "cancelled"):
            return OpaqueCall(obj, name, self)
        raise Unsupported(f"attribute {name} of a timer handle")

    def call(self, ip, st, recv, name, args, kwargs):
        if args or kwargs:
            raise PyRaise(SExc(TypeError, (f"{name}: takes no arguments",)))
        if name == "cancelled":
            st.event("handle.cancelled", recv)
            return _cancelled(st)(recv)
        st.event("handle.cancel", recv)
        _withdraw(st, recv)
        return None


PROTOCOLS["TimerHandle"] = TimerHandleOpsProtocol()


class SFMap(ModelObj):
    """A dict with symbolic keys of one kind (ints or opaque individuals) and values of one kind: has(k), val(k)."""

    def __init__(self, st, name, key_kind=None, val_kind=None):
        nm = st.fresh_name(name)
        ks = z3.IntSort() if key_kind is None else S.opaque_sort(key_kind)
        vs = z3.IntSort() if val_kind is None else S.opaque_sort(val_kind)
        fh = z3.Function(f"{nm}$has", ks, z3.BoolSort())
        fv = z3.Function(f"{nm}$val", ks, vs)
        self.key_kind, self.val_kind = key_kind, val_kind
        self.has = lambda k: mk_bool(fh(self.zk(k)))
        self.val = lambda k: mk_int(fv(self.zk(k))) if val_kind is None else V.SOpaque(val_kind, fv(self.zk(k)))
        self.size = st.fresh_int(name + "_size")
        st.assume(self.size >= 0)

    def zk(self, k):
        if self.key_kind is None:
            return V._z(k)
        k = cur().force(k) if isinstance(k, V.SOpt) else k
        if not (isinstance(k, V.SOpaque) and k.kind == self.key_kind):
            raise Unsupported(f"key {k!r} of a map keyed by {self.key_kind}")
        return k.e

    def anykey(self, name="anykey"):
        if self.key_kind is None:
            return V.SInt(z3.Int(name))
        return V.SOpaque(self.key_kind, z3.Const(name, S.opaque_sort(self.key_kind)))

    def py_truth(self, st):
        return self.size > 0

    def py_contains(self, ip, st, k):
        return self.has(k)

    def py_setitem(self, ip, st, k, v):
        oh, ov = self.has, self.val
        self.size = self.size + ite(oh(k), 0, 1)
        self.has = lambda x: either(oh(x), eq(x, k))
        self.val = lambda x: ite(eq(x, k), v, ov(x))

    def _remove(self, k):
        oh = self.has
        self.size = self.size - 1
        self.has = lambda x: both(oh(x), neg(eq(x, k)))

    def py_delitem(self, ip, st, k):
        st.partial(self.has(k), KeyError, "key")
        self._remove(k)

    def py_getitem(self, ip, st, k):
        st.partial(self.has(k), KeyError, "key")
        return self.val(k)

    def py_call(self, ip, st, name, args, kwargs):
        if name == "pop" and len(args) == 2 and not kwargs:  # dict.pop(k, default): the default -- and no change -- if k is absent
            k = st.force(args[0])
            if st.branch(V._zb(self.has(k))):
                v = self.val(k)
                self._remove(k)
                return v
            return args[1]
        raise Unsupported(f"dict.{name}")


def same_map(new, old, but=None):
    """new and old agree on every key (but `but`)."""
    k = old.anykey()
    body = both(eq(new.has(k), old.has(k)), implies(old.has(k), eq(new.val(k), old.val(k))))
    if but is not None:
        body = implies(neg(eq(k, but)), body)
    return mk_bool(z3.ForAll([k.e], V._zb(body)))


class SOpsLoop(_AI.SAioLoop):
    """The asyncio loop / tornado IOLoop as alarm / remove_alarm / watch_file / remove_watch_file use it (trusted, see
    SCHEDULER_NOTES): every request is logged; `reg(fd)` = a reader / handler is registered for fd."""

    def __init__(self, st):
        nm = st.fresh_name("sched")
        fr = z3.Function(f"{nm}$reader", z3.IntSort(), z3.BoolSort())
        self.reg = lambda fd: mk_bool(fr(V._z(fd)))
        self.callbacks = []  # (fd, callable) as registered by the method under verification

    def snapshot(self):
        c = object.__new__(type(self))
        c.reg, c.callbacks = self.reg, list(self.callbacks)
        return c

    def _timer(self, st, kind, when, fn):
        h = V.SOpaque("TimerHandle", z3.Const(st.fresh_name("th"), TH))
        st.assume(neg(_cancelled(st)(h)))  # a new timer
        st.event("timer", kind, when, fn, h)
        return h

    def py_call(self, ip, st, name, args, kwargs):
        if kwargs:
            raise Unsupported(f"scheduler.{name} with keyword arguments")
        if name == "call_later" and len(args) == 2:
            h = super().py_call(ip, st, name, args, kwargs)  # (counts a pending idle pass, contracts/C13_asyncio_idle.py)
            st.assume(neg(_cancelled(st)(h)))
            if not [ev for ev in st.trace if ev[0] == "call_later"][-1][2] == "idle-pass":
                st.event("timer", "call_later", args[0], args[1], h)
            return h
        if name == "time" and not args:
            t = SReal(z3.Real(st.fresh_name("ioloop_now")))
            st.event("time", t)
            return t
        if name == "add_timeout" and len(args) == 2:
            return self._timer(st, "add_timeout", args[0], args[1])
        if name == "remove_timeout" and len(args) == 1:
            h = st.force(args[0])
            st.event("remove_timeout", h)
            _withdraw(st, h)
            return None
        if name in ("add_reader", "add_handler") and len(args) == (2 if name == "add_reader" else 3):
            fd = args[0]
            oreg = self.reg
            if name == "add_handler" and not st.branch(V._zb(neg(oreg(fd)))):
                # tornado: BaseAsyncIOLoop.add_handler raises ValueError("fd %s added twice")
                raise PyRaise(SExc(ValueError, ("fd added twice",), site="IOLoop.add_handler"))
            self.reg = lambda x: either(oreg(x), eq(x, fd))
            self.callbacks.append((fd, args[1]))
            st.event(name, *args)
            return None
        if name == "stop" and not args:
            st.event("stop")
            return None
        if name in ("remove_reader", "remove_handler") and len(args) == 1:
            fd = args[0]
            oreg = self.reg
            was = oreg(fd)
            self.reg = lambda x: both(oreg(x), neg(eq(x, fd)))
            st.event(name, fd)
            return was if name == "remove_reader" else None
        raise Unsupported(f"scheduler.{name}{tuple(args)!r}")


def _fresh_ops(cls, tornado=False):
    def mk(st, hint):
        o = _AI._fresh_aio(st, hint, cls)
        o.fields["_loop"] = SOpsLoop(st)
        if tornado:
            o.fields["_pending_alarms"] = SFMap(st, "pending", key_kind="TimerHandle")
            o.fields["_watch_handles"] = SFMap(st, "watches")
            o.fields["_max_watch_handle"] = st.fresh_int("max_watch_handle")
            o.fields["_exc"] = _AR.kept_exception(st, "old")
        return o

    return mk


def _setup(st, self_obj, vals):
    _AI._aio_setup(st, self_obj, vals)
    st.ghost["cancelled_at_entry"] = _cancelled(st)


def _sched_events(trace):
    return [ev for ev in trace if ev[0] in ("timer", "time", "remove_timeout", "add_reader", "add_handler", "remove_reader", "remove_handler", "call_later", "handle.cancel", "handle.cancelled")]


def idle_bookkeeping_untouched(old, s):
    """`_idle_asyncio_handle`, the pending idle pass and the idle callbacks are as they were."""
    return both(s._idle_asyncio_handle is old._idle_asyncio_handle, s.ghost_idle_calls == old.ghost_idle_calls,
                s._idle_callbacks.has is old._idle_callbacks.has, s._idle_callbacks.val is old._idle_callbacks.val, s._idle_handle == old._idle_handle)


def _closure_var(fn, name):
    fr = fn.closure
    while fr is not None:
        if name in fr.locals:
            return fr.locals[name]
        fr = fr.parent
    return None


def is_idle_wrapper_of(fn, s, inner):
    """fn is `_also_call_idle.<wrapper>` of loop s around `inner` (a value, or a predicate on the wrapped callable)."""
    if not (isinstance(fn, FnVal) and fn.closure is not None and fn.ref.qualname.endswith("_also_call_idle.<wrapper>")):
        return False
    cb = _closure_var(fn, "callback")
    return _closure_var(fn, "self") is s and (inner(cb) if callable(inner) and not isinstance(inner, V.Sym) else cb is inner)


def is_closure(fn, qual_suffix, **free):
    """fn is the nested function `qual_suffix` whose free variables have these very values."""
    return (isinstance(fn, FnVal) and fn.closure is not None and fn.ref.qualname.endswith(qual_suffix)
            and all(_closure_var(fn, k) is v for k, v in free.items()))


# ------------------------------------------------------------------------------------------------------------- asyncio

AIO = Custom(_fresh_ops(_al.AsyncioEventLoop), "AsyncioEventLoop")
AIO.fields = {}


@contract(AL + "AsyncioEventLoop.alarm", property="C13", replayable=False)
class aio_alarm:
    self_shape = AIO
    params = dict(seconds=Int, callback=Opaque("LoopCallback"))
    inline = ("AsyncioEventLoop._also_call_idle",)
    setup = staticmethod(_setup)
    invariant = staticmethod(_AI.inv)
    notes = SCHEDULER_NOTES

    def ensures(old, s, a, result):
        st = cur()
        timers = [ev for ev in st.trace if ev[0] == "timer"]
        yield "one-timer-asked-of-the-scheduler-and-nothing-else", len(timers) == 1 and len(_sched_events(st.trace)) == 2
        if len(timers) != 1:
            return
        _t, kind, when, fn, h = timers[0]
        yield "due-that-many-seconds-from-now", both(kind == "call_later", eq(when, a.seconds))
        yield "running-the-callback-wrapped-so-that-the-idle-callbacks-follow-it", is_idle_wrapper_of(fn, s, a.callback)
        yield "the-handle-is-that-timer-not-cancelled", both(result is h, neg(_cancelled(st)(result)))
        yield "idle-bookkeeping-untouched", idle_bookkeeping_untouched(old, s)


@contract(AL + "AsyncioEventLoop.remove_alarm", property="C13", replayable=False)
class aio_remove_alarm:
    self_shape = AIO
    params = dict(handle=Opaque("TimerHandle"))
    setup = staticmethod(_setup)
    invariant = staticmethod(_AI.inv)
    notes = SCHEDULER_NOTES

    def requires(s, a):
        # an alarm handle: the timer of the pending idle pass is private to the loop and never handed out
        return neg(eq(s._idle_asyncio_handle, a.handle))

    def ensures(old, s, a, result):
        st = cur()
        before = st.ghost["cancelled_at_entry"]
        cancels = [ev for ev in st.trace if ev[0] in ("handle.cancel", "remove_timeout")]
        yield "that-very-timer-is-cancelled-once-so-it-never-runs", both(len(cancels) == 1, cancels[0][1] is a.handle if cancels else False, _cancelled(st)(a.handle))
        yield "reports-success-exactly-if-it-was-not-removed-before", eq(result, neg(before(a.handle)))
        yield "so-removing-it-again-reports-failure", _cancelled(st)(a.handle)
        other = V.SOpaque("TimerHandle", z3.Const("anyhandle", TH))
        yield "no-other-timer-is-cancelled", mk_bool(z3.ForAll([other.e], V._zb(implies(neg(eq(other, a.handle)), eq(_cancelled(st)(other), before(other))))))
        yield "idle-bookkeeping-untouched", idle_bookkeeping_untouched(old, s)


@contract(AL + "AsyncioEventLoop.watch_file", property="C13", replayable=False)
class aio_watch_file:
    self_shape = AIO
    params = dict(fd=Int, callback=Opaque("LoopCallback"))
    inline = ("AsyncioEventLoop._also_call_idle",)
    setup = staticmethod(_setup)
    invariant = staticmethod(_AI.inv)
    notes = SCHEDULER_NOTES

    def ensures(old, s, a, result):
        st = cur()
        adds = [ev for ev in st.trace if ev[0] == "add_reader"]
        yield "one-reader-asked-of-the-scheduler-and-nothing-else", len(adds) == 1 and len(_sched_events(st.trace)) == 1
        if len(adds) != 1:
            return
        yield "for-that-descriptor", eq(adds[0][1], a.fd)
        yield "running-the-callback-wrapped-so-that-the-idle-callbacks-follow-it", is_idle_wrapper_of(adds[0][2], s, a.callback)
        yield "the-handle-is-the-descriptor", result == a.fd
        yield "registered-with-the-scheduler", s._loop.reg(a.fd)
        k = V.SInt(z3.Int("anyfd"))
        yield "others-untouched", mk_bool(z3.ForAll([k.e], V._zb(implies(neg(eq(k, a.fd)), eq(s._loop.reg(k), old._loop.reg(k))))))
        yield "idle-bookkeeping-untouched", idle_bookkeeping_untouched(old, s)


@contract(AL + "AsyncioEventLoop.remove_watch_file", property="C13", replayable=False)
class aio_remove_watch_file:
    self_shape = AIO
    params = dict(handle=Int)
    result = Bool
    setup = staticmethod(_setup)
    invariant = staticmethod(_AI.inv)
    notes = SCHEDULER_NOTES

    def ensures(old, s, a, result):
        st = cur()
        rms = [ev for ev in st.trace if ev[0] == "remove_reader"]
        yield "one-removal-asked-of-the-scheduler-and-nothing-else", len(rms) == 1 and len(_sched_events(st.trace)) == 1
        yield "reports-whether-it-was-watched", eq(result, old._loop.reg(a.handle))
        yield "no-longer-registered-with-the-scheduler-so-its-callback-never-runs", neg(s._loop.reg(a.handle))
        k = V.SInt(z3.Int("anyfd"))
        yield "others-untouched", mk_bool(z3.ForAll([k.e], V._zb(implies(neg(eq(k, a.handle)), eq(s._loop.reg(k), old._loop.reg(k))))))
        yield "idle-bookkeeping-untouched", idle_bookkeeping_untouched(old, s)


# ------------------------------------------------------------------------------------------------------------- tornado

try:
    from urwid.event_loop import tornado_loop as _tol
except ImportError:  # pragma: no cover  (tornado is optional)
    _tol = None

if _tol is not None:
    from tornado import ioloop as _ioloop

    TOR = Custom(_fresh_ops(_tol.TornadoEventLoop, tornado=True), "TornadoEventLoop")
    TOR.fields = {}
    _TOR_INLINE = ("TornadoEventLoop._also_call_idle", "TornadoEventLoop.handle_exit")
    # the closures run by the IOLoop call handle_exit's wrapper: its body is executed here (its own contract, in
    # contracts/C13_adapter_run.py, speaks about the events of that body, which a call site does not replay)
    _RUN_WRAPPER = {TOL + "TornadoEventLoop.handle_exit.<wrapper>": None}

    def _stops_like_handle_exit(a):
        """The duty of handle_exit (contracts/C13_adapter_run.py `_tor_wrapper_claims`) seen from the closure that uses it."""
        st = cur()
        s = a.g_self
        raised = st.ghost.get("callback_raised")
        stops, removes = _AR._ev("sched.stop") + [ev for ev in st.trace if ev[0] == "stop"], [ev for ev in st.trace if ev[0] == "remove_timeout"]
        yield "the-callback-ran-exactly-once", count_ev(st.trace, "callback") == 1
        if raised is None:
            yield "a-callback-that-returns-stops-nothing", both(not stops, not removes, s._exc is st.ghost["exc_at_entry"], s._idle_asyncio_handle is st.ghost["handle_at_entry"])
            return
        yield "an-exception-of-the-callback-stops-the-loop", len(stops) == 1
        yield "a-pending-idle-pass-is-withdrawn-and-forgotten", both(
            neg(_AR._has(s._idle_asyncio_handle)), s.ghost_idle_calls == 0,
            implies(_AR._has(st.ghost["handle_at_entry"]), len(removes) == 1), implies(neg(_AR._has(st.ghost["handle_at_entry"])), not removes))
        if issubclass(raised.cls, ExitMainLoop):
            yield "ExitMainLoop-is-not-kept", s._exc is st.ghost["exc_at_entry"]
        else:
            yield "any-other-exception-is-kept-for-run-the-very-object", s._exc is raised

    def watch_handles_below_counter(s):
        """Class invariant of the watch bookkeeping: handles are issued increasingly, so stored ones are not above the counter."""
        k = z3.Int("qwh")
        return mk_bool(z3.ForAll([k], z3.Implies(V._zb(s._watch_handles.has(V.SInt(k))), k <= V._z(s._max_watch_handle))))

    def tor_inv(s):
        return both(_AI.inv(s), watch_handles_below_counter(s))

    def tor_rest_untouched(old, s, *but):
        out = [idle_bookkeeping_untouched(old, s), s._exc is old._exc]
        if "_pending_alarms" not in but:
            out.append(both(s._pending_alarms.has is old._pending_alarms.has, s._pending_alarms.val is old._pending_alarms.val))
        if "_watch_handles" not in but:
            out.append(both(s._watch_handles.has is old._watch_handles.has, s._watch_handles.val is old._watch_handles.val, s._max_watch_handle == old._max_watch_handle))
        if "_loop" not in but:
            out.append(s._loop.reg is old._loop.reg)
        return both(*out)

    @contract(TOL + "TornadoEventLoop.alarm", property="C13", replayable=False)
    class tor_alarm:
        self_shape = TOR
        params = dict(seconds=Int, callback=Opaque("LoopCallback"))
        inline = _TOR_INLINE
        setup = staticmethod(_setup)
        invariant = staticmethod(tor_inv)
        notes = SCHEDULER_NOTES

        def ensures(old, s, a, result):
            st = cur()
            timers = [ev for ev in st.trace if ev[0] == "timer"]
            times = [ev for ev in st.trace if ev[0] == "time"]
            yield "one-timer-asked-of-the-ioloop-and-nothing-else", len(timers) == 1 and len(times) == 1 and len(_sched_events(st.trace)) == 2
            if len(timers) != 1 or len(times) != 1:
                return
            _t, kind, when, fn, h = timers[0]
            yield "due-that-many-seconds-from-now", both(kind == "add_timeout", eq(when, times[0][1] + a.seconds))
            yield "running-the-callback-inside-handle-exit-wrapped-so-that-the-idle-callbacks-follow-it", is_idle_wrapper_of(
                fn, s, lambda w: is_closure(w, "TornadoEventLoop.alarm.<wrapped>", self=s, callback=a.callback, handle=h))
            yield "the-handle-is-that-timer-not-removed", both(result is h, neg(_cancelled(st)(result)))
            yield "recorded-as-pending", both(s._pending_alarms.has(result), same_map(s._pending_alarms, old._pending_alarms, but=result))
            yield "nothing-else-touched", tor_rest_untouched(old, s, "_pending_alarms")

    @contract(TOL + "TornadoEventLoop.alarm.<wrapped>", property=("C13", "C12"), replayable=False)
    class tor_alarm_wrapped:
        """What the IOLoop runs when the alarm is due (inside `_also_call_idle.<wrapper>`, contracts/C13_asyncio_idle.py):
        free variables self / callback / handle universally quantified."""
        globals_ = dict(self=TOR, callback=Opaque("LoopCallback"), handle=Opaque("TimerHandle"))
        inline = _TOR_INLINE
        callback_havoc = staticmethod(_AR._tor_havoc)
        contract_overrides = _RUN_WRAPPER
        raises = ()  # nothing an alarm callback raises (ExitMainLoop, Exception) leaves it: handle_exit keeps it for run()
        notes = SCHEDULER_NOTES

        def setup(st, self_obj, vals):
            _setup(st, vals["g_self"], vals)
            _AR._setup(st, vals["g_self"], vals)

        def requires(a):
            return tor_inv(a.g_self)

        def ensures(a, result):
            s = a.g_self
            yield "the-alarm-is-no-longer-pending-so-a-later-removal-reports-failure", neg(s._pending_alarms.has(a.g_handle))
            yield from _stops_like_handle_exit(a)
            yield "class-invariant", tor_inv(s)

    @contract(TOL + "TornadoEventLoop.remove_alarm", property="C13", replayable=False)
    class tor_remove_alarm:
        self_shape = TOR
        params = dict(handle=Opaque("TimerHandle"))
        setup = staticmethod(_setup)
        invariant = staticmethod(tor_inv)
        notes = SCHEDULER_NOTES

        def requires(s, a):
            # an alarm handle: the timer of the pending idle pass is private to the loop and never handed out
            return neg(eq(s._idle_asyncio_handle, a.handle))

        def ensures(old, s, a, result):
            st = cur()
            rms = [ev for ev in st.trace if ev[0] == "remove_timeout"]
            yield "that-very-timer-is-withdrawn-once-so-it-never-runs", both(len(rms) == 1 and len(_sched_events(st.trace)) == 1, rms[0][1] is a.handle if rms else False, _cancelled(st)(a.handle))
            yield "reports-success-exactly-if-the-alarm-was-pending", eq(result, old._pending_alarms.has(a.handle))
            yield "no-longer-pending-so-removing-it-again-reports-failure", neg(s._pending_alarms.has(a.handle))
            yield "other-alarms-untouched", same_map(s._pending_alarms, old._pending_alarms, but=a.handle)
            yield "nothing-else-touched", tor_rest_untouched(old, s, "_pending_alarms")

    @contract(TOL + "TornadoEventLoop.watch_file", property="C13", replayable=False)
    class tor_watch_file:
        self_shape = TOR
        params = dict(fd=Int, callback=Opaque("LoopCallback"))
        result = Int
        inline = _TOR_INLINE
        raises = (ValueError,)
        setup = staticmethod(_setup)
        invariant = staticmethod(tor_inv)
        notes = SCHEDULER_NOTES

        def ensures(old, s, a, result):
            st = cur()
            adds = [ev for ev in st.trace if ev[0] == "add_handler"]
            yield "one-handler-asked-of-the-ioloop-and-nothing-else", len(adds) == 1 and len(_sched_events(st.trace)) == 1
            if len(adds) != 1:
                return
            yield "for-that-descriptor-becoming-readable", both(eq(adds[0][1], a.fd), adds[0][3] == _ioloop.IOLoop.READ)
            yield "running-the-callback-inside-handle-exit-wrapped-so-that-the-idle-callbacks-follow-it", is_idle_wrapper_of(
                adds[0][2], s, lambda w: is_closure(w, "TornadoEventLoop.watch_file.<handler>", self=s, callback=a.callback))
            yield "a-fresh-handle", both(result == old._max_watch_handle + 1, neg(old._watch_handles.has(result)), s._max_watch_handle == result)
            yield "that-stands-for-the-descriptor", both(s._watch_handles.has(result), eq(s._watch_handles.val(result), a.fd), s._loop.reg(a.fd))
            yield "other-handles-untouched", same_map(s._watch_handles, old._watch_handles, but=result)
            k = V.SInt(z3.Int("anyfd"))
            yield "other-descriptors-untouched", mk_bool(z3.ForAll([k.e], V._zb(implies(neg(eq(k, a.fd)), eq(s._loop.reg(k), old._loop.reg(k))))))
            yield "nothing-else-touched", tor_rest_untouched(old, s, "_watch_handles", "_loop")

        def on_raise(old, s, a, exc):
            # (tornado refuses a second handler for a descriptor: the IOLoop's own error passes through)
            yield "only-a-descriptor-the-ioloop-already-handles-is-refused", old._loop.reg(a.fd)
            yield "nothing-changed", tor_rest_untouched(old, s)

    @contract(TOL + "TornadoEventLoop.watch_file.<handler>", property=("C13", "C12"), replayable=False)
    class tor_watch_handler:
        """What the IOLoop runs when the descriptor is readable (inside `_also_call_idle.<wrapper>`)."""
        globals_ = dict(self=TOR, callback=Opaque("LoopCallback"))
        params = dict(_fd=Int, _events=Int)
        inline = _TOR_INLINE
        callback_havoc = staticmethod(_AR._tor_havoc)
        contract_overrides = _RUN_WRAPPER
        raises = ()
        notes = SCHEDULER_NOTES

        def setup(st, self_obj, vals):
            _setup(st, vals["g_self"], vals)
            _AR._setup(st, vals["g_self"], vals)

        def requires(a):
            return tor_inv(a.g_self)

        def ensures(a, result):
            yield from _stops_like_handle_exit(a)
            yield "class-invariant", tor_inv(a.g_self)

    @contract(TOL + "TornadoEventLoop.remove_watch_file", property="C13", replayable=False)
    class tor_remove_watch_file:
        self_shape = TOR
        params = dict(handle=Int)
        result = Bool
        setup = staticmethod(_setup)
        invariant = staticmethod(tor_inv)
        notes = SCHEDULER_NOTES

        def ensures(old, s, a, result):
            st = cur()
            rms = [ev for ev in st.trace if ev[0] == "remove_handler"]
            yield "reports-whether-the-handle-was-known", eq(result, old._watch_handles.has(a.handle))
            yield "no-longer-known-so-removing-it-again-reports-failure", neg(s._watch_handles.has(a.handle))
            if result:
                fd = old._watch_handles.val(a.handle)
                yield "its-descriptor-is-taken-from-the-ioloop-so-the-callback-never-runs", both(
                    len(rms) == 1 and len(_sched_events(st.trace)) == 1, eq(rms[0][1], fd) if rms else False, neg(s._loop.reg(fd)))
                k = V.SInt(z3.Int("anyfd"))
                yield "other-descriptors-untouched", mk_bool(z3.ForAll([k.e], V._zb(implies(neg(eq(k, fd)), eq(s._loop.reg(k), old._loop.reg(k))))))
            else:
                yield "nothing-asked-of-the-ioloop", both(not _sched_events(st.trace), s._loop.reg is old._loop.reg)
            yield "other-handles-untouched", both(same_map(s._watch_handles, old._watch_handles, but=a.handle), s._max_watch_handle == old._max_watch_handle)
            yield "nothing-else-touched", tor_rest_untouched(old, s, "_watch_handles", "_loop")
