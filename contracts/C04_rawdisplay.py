"""C04 / C17 — the deductive part of the raw display (DESIGN.md section 6, C04 and C17): the cursor-addressing escape
formats, the insert-mode trick for the bottom-right cell (`Screen._last_row`), the attribute -> SGR conversion
(`Screen._attrspec_to_escape`), and the bookkeeping that makes the next draw a full repaint (`Screen.clear`).
`Screen.draw_screen` itself is decided by the bounded check only (DESIGN section 6, C04)."""
import z3

from pyvc import seqs as Q
from pyvc import values as V
from pyvc.api import *
from pyvc.api import REGISTRY
from pyvc.values import SFmt, SInt, cur, mk_bool, mk_int

ES = "urwid/display/escape.py:"
RD = "urwid/display/_raw_display_base.py:"
ESC = "\x1b"


# =================================================================================================================
# escape.py: cursor addressing.  ECMA-48: CUP = CSI Pl ; Pc H (1-based line, then column), CUF = CSI Pn C,
# CUU = CSI Pn A, CUD = CSI Pn B; parameters are decimal numerals.  `SFmt` (pyvc/values.py) is the model of an
# f-string of symbolic ints: the tuple of its literal pieces and the ints rendered by format(n, "d").


def fmt_parts(r):
    """The pieces of a str result: (literal, int, literal, ...) — a plain str is its own single piece."""
    if isinstance(r, SFmt):
        return r.parts
    if isinstance(r, str):
        return (r,) if r else ()
    return None


def is_csi(result, params, final):
    """result is exactly ESC [ p1 ; p2 ; ... final with the decimal numerals of `params` (dual use)."""
    if not V._current and isinstance(result, str):
        return result == ESC + "[" + ";".join(str(p) for p in params) + final
    parts = fmt_parts(result)
    if parts is None or len(parts) != 2 * len(params) + 1:
        return False
    lits = (ESC + "[",) + (";",) * (len(params) - 1) + (final,)
    ok = True
    for k, lit in enumerate(lits):
        if not (isinstance(parts[2 * k], str) and parts[2 * k] == lit):
            return False
    for k, p in enumerate(params):
        ok = both(ok, parts[2 * k + 1] == p)
    return ok


# (contracts/C12_mainloop.py registers an assumed call-site stub for this function — "some cursor-addressing sequence,
# no mode change" — for its output-stream model; this contract is the one verified against the body, registered as
# an alias so that both coexist: `alias` contracts are verified like any other but not used at call sites.)
@contract(ES + "set_cursor_position", property="C04", alias="format")
class set_cursor_position:
    params = dict(x=Int, y=Int)
    raises = ()

    def requires(a):
        return both(0 <= a.x, 0 <= a.y)

    def ensures(a, result):
        yield "CUP-with-one-based-row-then-column", is_csi(result, (a.y + 1, a.x + 1), "H")


def _move(final):
    class _M:
        params = dict(x=Int)
        raises = ()

        def ensures(a, result):
            if a.x < 1:
                yield "no-movement-is-the-empty-string", result == ""  # (a parameter 0 would mean 1 to the terminal)
            else:
                yield "one-control-sequence-with-the-distance", is_csi(result, (a.x,), final)

    return _M


move_cursor_right = contract(ES + "move_cursor_right", property="C04")(_move("C"))
move_cursor_up = contract(ES + "move_cursor_up", property="C04")(_move("A"))
move_cursor_down = contract(ES + "move_cursor_down", property="C04")(_move("B"))
