"""C04 / C17 — the deductive part of the raw display (DESIGN.md section 6, C04 and C17): the cursor-addressing escape
formats, the insert-mode trick for the bottom-right cell (`Screen._last_row`), the attribute -> SGR conversion
(`Screen._attrspec_to_escape`), and the bookkeeping that makes the next draw a full repaint (`Screen.clear`).
`Screen.draw_screen` itself is decided by the bounded check only (DESIGN section 6, C04)."""
import z3

from pyvc import seqs as Q
from pyvc import values as V
from pyvc.api import *
from pyvc.api import REGISTRY
from pyvc.values import SFmt, SInt, cur, mk_bool, mk_int

ES = "urwid/display/escape.py:"
RD = "urwid/display/_raw_display_base.py:"
ESC = "\x1b"


# =================================================================================================================
# escape.py: cursor addressing.  ECMA-48: CUP = CSI Pl ; Pc H (1-based line, then column), CUF = CSI Pn C,
# CUU = CSI Pn A, CUD = CSI Pn B; parameters are decimal numerals.  `SFmt` (pyvc/values.py) is the model of an
# f-string of symbolic ints: the tuple of its literal pieces and the ints rendered by format(n, "d").


def fmt_parts(r):
    """The pieces of a str result: (literal, int, literal, ...) — a plain str is its own single piece."""
    if isinstance(r, SFmt):
        return r.parts
    if isinstance(r, str):
        return (r,) if r else ()
    return None


def is_csi(result, params, final):
    """result is exactly ESC [ p1 ; p2 ; ... final with the decimal numerals of `params` (dual use)."""
    if not V._current and isinstance(result, str):
        return result == ESC + "[" + ";".join(str(p) for p in params) + final
    parts = fmt_parts(result)
    if parts is None or len(parts) != 2 * len(params) + 1:
        return False
    lits = (ESC + "[",) + (";",) * (len(params) - 1) + (final,)
    ok = True
    for k, lit in enumerate(lits):
        if not (isinstance(parts[2 * k], str) and parts[2 * k] == lit):
            return False
    for k, p in enumerate(params):
        ok = both(ok, parts[2 * k + 1] == p)
    return ok


# (contracts/C12_mainloop.py registers an assumed call-site stub for this function — "some cursor-addressing sequence,
# no mode change" — for its output-stream model; this contract is the one verified against the body, registered as
# an alias so that both coexist: `alias` contracts are verified like any other but not used at call sites.)
@contract(ES + "set_cursor_position", property="C04", alias="format")
class set_cursor_position:
    params = dict(x=Union(Int, Const(1.5)), y=Union(Int, Const(1.5)))  # 1.5: a representative of "not an int"
    raises = (TypeError,)

    def requires(a):
        return both(0 <= a.x, 0 <= a.y)

    def ensures(a, result):
        yield "only-ints-are-formatted", not isinstance(a.x, float) and not isinstance(a.y, float)
        if not isinstance(a.x, float) and not isinstance(a.y, float):
            yield "CUP-with-one-based-row-then-column", is_csi(result, (a.y + 1, a.x + 1), "H")

    def on_raise(a, exc):
        yield "TypeError-only-for-a-coordinate-that-is-not-an-int", isinstance(a.x, float) or isinstance(a.y, float)


def _move(final):
    class _M:
        params = dict(x=Int)
        raises = ()

        def ensures(a, result):
            if a.x < 1:
                yield "no-movement-is-the-empty-string", result == ""  # (a parameter 0 would mean 1 to the terminal)
            else:
                yield "one-control-sequence-with-the-distance", is_csi(result, (a.x,), final)

    return _M


move_cursor_right = contract(ES + "move_cursor_right", property="C04")(_move("C"))
move_cursor_up = contract(ES + "move_cursor_up", property="C04")(_move("A"))
move_cursor_down = contract(ES + "move_cursor_down", property="C04")(_move("B"))


# =================================================================================================================
# Screen._attrspec_to_escape (C17: "resolves ... to an SGR sequence that, decoded by a terminal, gives the same
# foreground, background and style flags as the palette specifies"; C04: the attribute half of "shows in every cell
# the text and display attributes").
#
# The result is an f-string over the AttrSpec's number fields and `"1;" * a.bold`-style optional pieces.  It is kept
# as an `SFmt` (pieces: literals, symbolic ints rendered in decimal, and `Opt` pieces = a literal present iff a
# Bool holds), cut into SGR parameters at the semicolons, and DECODED by `sgr_decode` below — a symbolic re-statement
# of spec/sgr.py:sgr_apply (ECMA-48 8.3.117 / xterm ctlseqs "Character Attributes"), cross-checked against that
# reference on concrete sequences by the static check `symbolic-decoder-agrees-with-spec-sgr`.  The decoder starts
# from an ARBITRARY rendition (fresh symbols), so the clauses also say that what was selected before does not matter
# (the leading 0 resets).

from contracts.C18_colours import GETTERS, SPEC, attrspec_rgb, bg_number, fg_number, flag, wf, word  # noqa: E402
from spec import sgr as REF  # noqa: E402

DC = "urwid/display/common.py:"


class OptPiece:
    """`"1;" * flag`: the literal `text` when `cond` holds, nothing otherwise (a piece of an SFmt)."""

    def __init__(self, cond, text):
        self.cond, self.text = cond, text

    def __repr__(self):
        return f"Opt({self.text!r} if {self.cond!r})"


def sgr_binop(ip, st, op, a, b):
    import ast as _ast

    if isinstance(op, _ast.Mult) and isinstance(a, str) and isinstance(b, V.SBool):
        return SFmt((OptPiece(b, a),))
    return NotImplemented


def sgr_fstring(ip, st, pieces):
    """f-strings whose fields are ints (`{n:d}`) or already-built strs (`{fg}`): concatenation of the pieces."""
    out = []
    for p in pieces:
        if isinstance(p, str):
            out.append(p)
            continue
        x, spec, conv = p
        x = st.force(x)
        if conv != -1:
            return NotImplemented
        if isinstance(x, SFmt) and spec == "":
            out.extend(x.parts)
        elif isinstance(x, str) and spec == "":
            out.append(x)
        elif isinstance(x, SInt) and spec in ("", "d"):
            out.append(x)
        elif isinstance(x, int) and not isinstance(x, bool) and spec in ("", "d"):
            out.append(format(x, "d"))
        else:
            return NotImplemented
    return SFmt(out) if any(not isinstance(p, str) for p in out) else "".join(out)


def sgr_call_real(ip, st, f, args, kwargs):
    """`str(n)` of a symbolic int is its decimal numeral (as `{n:d}`); `";".join(parts)` of such pieces."""
    if f is str and len(args) == 1 and not kwargs:
        x = st.force(args[0])
        if isinstance(x, SInt):
            return SFmt((x,))
        if x is None or (isinstance(x, int) and not isinstance(x, bool)):
            return str(x)
    owner = getattr(f, "__self__", None)
    if getattr(f, "__name__", "") == "join" and isinstance(owner, str) and len(args) == 1 and not kwargs:
        items = args[0].seq if isinstance(args[0], Q.LRef) else args[0]
        if isinstance(items, tuple) and all(isinstance(x, (str, SFmt)) for x in items):
            out = []
            for k, x in enumerate(items):
                if k:
                    out.append(owner)
                out.extend(x.parts if isinstance(x, SFmt) else (x,))
            return SFmt(out) if any(not isinstance(p, str) for p in out) else "".join(out)
    return NotImplemented


def sgr_params(result):
    """ESC [ p ; p ; ... m  ->  the list of its parameters: int (literal numeral), SInt (rendered int), or
    ("opt", cond, int) for an optional `N;` piece.  None when the text does not have that form."""
    parts = list(fmt_parts(result) or ())
    if not parts or not isinstance(parts[0], str) or not parts[0].startswith(ESC + "[") or not isinstance(parts[-1], str) or not parts[-1].endswith("m"):
        return None
    parts[0] = parts[0][2:]
    parts[-1] = parts[-1][:-1]
    params, tok = [], None  # tok: None (at a parameter boundary) | str of digits | SInt
    for p in parts:
        if isinstance(p, str):
            for ch in p:
                if ch == ";":
                    if tok is None:
                        return None  # an empty parameter is never produced
                    params.append(int(tok) if isinstance(tok, str) else tok)
                    tok = None
                elif ch.isdigit() and ch.isascii() and (tok is None or isinstance(tok, str)):
                    tok = (tok or "") + ch
                else:
                    return None
        elif isinstance(p, OptPiece):
            if tok is not None or not (p.text.endswith(";") and p.text[:-1].isdigit() and p.text.isascii()):
                return None
            params.append(("opt", p.cond, int(p.text[:-1])))
        elif isinstance(p, (SInt, int)):
            if tok is not None:
                return None
            tok = p
        else:
            return None
    if tok is None:
        return None
    params.append(int(tok) if isinstance(tok, str) else tok)
    return params


KIND_DEFAULT, KIND_INDEX, KIND_RGB = 0, 1, 2
FLAG_NAMES = REF.FLAGS
_SET_CODES = {f: tuple(k for k, v in REF._SET.items() if v == f) for f in FLAG_NAMES}
_CLEAR_CODES = {f: tuple(k for k, v in REF._CLEAR.items() if f in v) for f in FLAG_NAMES}
_PLAIN = tuple(REF._SET) + tuple(REF._CLEAR) + (0, 39, 49) + tuple(range(30, 38)) + tuple(range(40, 48)) + tuple(range(90, 98)) + tuple(range(100, 108))


def _is_in(p, codes):
    return either(False, *[p == c for c in codes])


def _between(p, lo, hi):
    return both(lo <= p, p <= hi)


def _apply_plain(state, p):
    """One parameter that is not 38 / 48 (xterm's table, as spec/sgr.py:sgr_apply): (new state, in the repertoire)."""
    fg, bg, flags = state
    reset = p == 0
    nfg = ite(_between(p, 30, 37), (KIND_INDEX, p - 30, 0, 0, 0), ite(_between(p, 90, 97), (KIND_INDEX, p - 90 + 8, 0, 0, 0),
              ite(either(p == 39, reset), (KIND_DEFAULT, 0, 0, 0, 0), fg)))
    nbg = ite(_between(p, 40, 47), (KIND_INDEX, p - 40, 0, 0, 0), ite(_between(p, 100, 107), (KIND_INDEX, p - 100 + 8, 0, 0, 0),
              ite(either(p == 49, reset), (KIND_DEFAULT, 0, 0, 0, 0), bg)))
    nflags = {f: ite(_is_in(p, _SET_CODES[f]), True, ite(either(reset, _is_in(p, _CLEAR_CODES[f])), False, flags[f])) for f in FLAG_NAMES}
    known = either(_is_in(p, tuple(REF._SET) + tuple(REF._CLEAR) + (0, 39, 49)), _between(p, 30, 37), _between(p, 40, 47), _between(p, 90, 97), _between(p, 100, 107))
    return (nfg, nbg, nflags), known


def _select(c, new, old):
    (f1, b1, fl1), (f0, b0, fl0) = new, old
    return (ite(c, f1, f0), ite(c, b1, b0), {f: ite(c, fl1[f], fl0[f]) for f in FLAG_NAMES})


def sgr_decode(params, state):
    """Fold the parameters of ONE SGR sequence into the rendition `state` = (fg, bg, flags); fg / bg are
    (kind, index, r, g, b), flags a dict name -> Bool.  Returns (state, ok): `ok` says every parameter is in the
    repertoire and well placed (the reference raises SgrError otherwise).  Dual use (concrete ints natively)."""
    ok = True
    i, n = 0, len(params)
    while i < n:
        p = params[i]
        if isinstance(p, tuple):
            _t, cond, code = p
            if code in (38, 48):
                return state, False
            new, known = _apply_plain(state, code)
            ok = both(ok, known)
            state = _select(cond, new, state)
            i += 1
            continue
        if isinstance(p, int) and p in (38, 48):
            # extended colour: 38;5;n / 38;2;r;g;b — the selector must be a literal, the operands may be symbolic
            if i + 1 >= n or not isinstance(params[i + 1], int) or isinstance(params[i + 1], bool):
                return state, False
            sel = params[i + 1]
            if sel == 5 and i + 2 < n and not isinstance(params[i + 2], tuple):
                v = params[i + 2]
                col, step = (KIND_INDEX, v, 0, 0, 0), 3
                ok = both(ok, 0 <= v, v <= 255)
            elif sel == 2 and i + 4 < n and not any(isinstance(x, tuple) for x in params[i + 2:i + 5]):
                r, g, b = params[i + 2:i + 5]
                col, step = (KIND_RGB, 0, r, g, b), 5
                ok = both(ok, *[both(0 <= x, x <= 255) for x in (r, g, b)])
            else:
                return state, False
            fg, bg, flags = state
            state = (col, bg, flags) if p == 38 else (fg, col, flags)
            i += step
            continue
        # a plain parameter, literal or symbolic; a symbolic one must not turn out to be 38 / 48 (it would swallow
        # the parameters after it)
        ok = both(ok, p != 38, p != 48)
        state, known = _apply_plain(state, p)
        ok = both(ok, known)
        i += 1
    return state, ok


def _ref_state(s):
    """spec/sgr.py SgrState -> the tuple form used here."""
    def col(c):
        return (KIND_DEFAULT, 0, 0, 0, 0) if c == REF.DEFAULT else (KIND_INDEX, c[1], 0, 0, 0) if c[0] == "index" else (KIND_RGB, 0, *c[1:])
    return (col(s.fg), col(s.bg), {f: f in s.flags for f in FLAG_NAMES})


def _xcheck_decoder():
    """The decoder above against the reference spec/sgr.py:sgr_apply on concrete parameter strings: every single
    parameter 0..110, the extended forms, random sequences, from random starting renditions; malformed ones must be
    rejected by both."""
    import random

    rnd = random.Random(417)
    cases = [str(k) for k in range(0, 111)] + ["38;5;7", "48;5;255", "38;2;1;2;3", "48;2;255;0;9", "38;5;256", "38;2;1;2", "38", "48;3;1", "38;5", "0;38;5;229;4;48;5;164",
                                                "0;1;31;5;102", "0;39;49", "0;90;1;3;4;5;7;9;100"]
    pool = [0, 1, 2, 3, 4, 5, 6, 7, 8, 9, 21, 22, 23, 24, 25, 27, 28, 29, 30, 37, 38, 39, 40, 47, 48, 49, 90, 97, 100, 107, 5, 2, 255, 256, 10, 50]
    for _ in range(1500):
        cases.append(";".join(str(rnd.choice(pool)) for _ in range(rnd.randint(1, 7))))
    bad = []
    for c in cases:
        start = REF.SgrState(rnd.choice([REF.DEFAULT, ("index", 3), ("rgb", 1, 2, 3)]), rnd.choice([REF.DEFAULT, ("index", 200)]), rnd.sample(FLAG_NAMES, rnd.randint(0, 3)))
        try:
            want = _ref_state(REF.sgr_apply(start, c))
        except REF.SgrError:
            want = None
        got, ok = sgr_decode([int(t) for t in c.split(";")], _ref_state(start))
        if (want is None) != (not ok) or (want is not None and got != want):
            bad.append((c, start, got, ok, want))
    # optional pieces: present / absent must equal the reference on the text with / without them
    for present in (False, True):
        got, ok = sgr_decode([0, 39, ("opt", present, 1), ("opt", not present, 4), 49], _ref_state(REF.SgrState()))
        want = _ref_state(REF.sgr_apply(REF.SgrState(), "0;39;" + ("1;" if present else "4;") + "49"))
        if not ok or got != want:
            bad.append(("opt", present, got, want))
    return "symbolic-decoder-agrees-with-spec-sgr", not bad, f"{len(cases)} parameter strings; mismatches: {bad[:3]}"


def _fresh_rendition(st):
    def col(h):
        return tuple(st.fresh_int(f"{h}{k}") for k in ("kind", "idx", "r", "g", "b"))
    return (col("fg0_"), col("bg0_"), {f: st.fresh_bool(f"was_{f}") for f in FLAG_NAMES})


def colour_as_specified(col, basic, high, true, number, brightened):
    """The decoded colour `col` is the one the AttrSpec side (kind flags, number) specifies; a basic bright colour
    (8..15) on a terminal that needs bold / blink for brightness (`brightened`) is selected as its dim partner."""
    kind, idx, r, g, b = col
    return both(
        implies(true, both(kind == KIND_RGB, r * 65536 + g * 256 + b == number)),
        implies(high, both(kind == KIND_INDEX, idx == number)),
        implies(basic, both(kind == KIND_INDEX, idx == ite(both(brightened, number > 7), number - 8, number))),
        implies(neg(either(basic, high, true)), kind == KIND_DEFAULT))


import urwid.display._raw_display_base as _rdb  # noqa: E402

# `term` is compared with "fbterm" only: two representatives.
A2E_SCREEN = Obj(_rdb.Screen, dict(term=Atom("fbterm", "xterm"), fg_bright_is_bold=Bool, bg_bright_is_blink=Bool))
import copy as _copy  # noqa: E402

_rgb_callee = _copy.copy(attrspec_rgb)  # the C18 contract, with the shape of its result for use at this call site
_rgb_callee.result = Tup(*[Opt(Int)] * 6)


# (contracts/C12_mainloop.py keeps an assumed call-site stub for this method — "an SGR sequence, no mode change"; the
# contract verified against the body is this one, registered as an alias so that both coexist.)
@contract(RD + "Screen._attrspec_to_escape", property=("C04", "C17"), alias="sgr", replayable=False)
class attrspec_to_escape:
    self_shape = A2E_SCREEN
    params = dict(a=SPEC)
    raises = ()
    inline = GETTERS
    binop = staticmethod(sgr_binop)
    fstring = staticmethod(sgr_fstring)
    call_real = staticmethod(sgr_call_real)
    contract_overrides = {DC + "AttrSpec.get_rgb_values": _rgb_callee}
    static_checks = [_xcheck_decoder]

    def requires(s, a):
        return wf(word(a.a))  # AttrSpec's representation invariant (established by AttrSpec.__init__, C18)

    def ensures(old, s, a, result):
        v = word(a.a)
        fgk = (flag(v, "_FG_BASIC_COLOR"), flag(v, "_FG_HIGH_COLOR"), flag(v, "_FG_TRUE_COLOR"))
        bgk = (flag(v, "_BG_BASIC_COLOR"), flag(v, "_BG_HIGH_COLOR"), flag(v, "_BG_TRUE_COLOR"))
        yield "screen-settings-untouched", both(s.fg_bright_is_bold == old.fg_bright_is_bold, s.bg_bright_is_blink == old.bg_bright_is_blink, s.term == old.term)
        yield "attrspec-untouched", word(a.a) == word(a.old.a)
        if old.term == "fbterm":
            # fbterm's private colour selection ESC [ 1 ; n }  (foreground) and ESC [ 2 ; n } (background)
            parts = fmt_parts(result)
            ok = parts is not None and len(parts) == 5 and (parts[0], parts[2], parts[4]) == (ESC + "[1;", "}" + ESC + "[2;", "}")
            yield "fbterm-private-foreground-then-background", both(ok, parts[1] == fg_number(v), parts[3] == bg_number(v)) if ok else False
            return
        params = sgr_params(result)
        yield "one-SGR-control-sequence", params is not None
        if params is None:
            return
        (fg, bg, flags), ok = sgr_decode(params, _fresh_rendition(cur()))
        yield "every-parameter-is-in-the-SGR-repertoire", ok
        fg_bold = both(fgk[0], fg_number(v) > 7, old.fg_bright_is_bold)
        bg_blink = both(bgk[0], bg_number(v) > 7, old.bg_bright_is_blink)
        yield "foreground-as-specified", colour_as_specified(fg, *fgk, fg_number(v), old.fg_bright_is_bold)
        yield "background-as-specified", colour_as_specified(bg, *bgk, bg_number(v), old.bg_bright_is_blink)
        yield "bold-iff-specified-or-needed-for-a-bright-foreground", eq(flags["bold"], either(flag(v, "_BOLD"), fg_bold))
        yield "blink-iff-specified-or-needed-for-a-bright-background", eq(flags["blink"], either(flag(v, "_BLINK"), bg_blink))
        for name, const in (("italics", "_ITALICS"), ("underline", "_UNDERLINE"), ("standout", "_STANDOUT"), ("strikethrough", "_STRIKETHROUGH")):
            yield f"{name}-iff-specified", eq(flags[name], flag(v, const))
        yield "nothing-else-switched-on", both(neg(flags["faint"]), neg(flags["invisible"]))


# =================================================================================================================
# Screen._last_row — the insert-mode trick for the bottom-right cell (C04: "the insert-mode trick used for the
# bottom-right cell leave[s] the terminal in the same state as a full repaint of that canvas, and never scroll[s]").
#
# draw_screen writes the returned row, then `back` backspaces, then — in insert mode — the returned segment `ins`.
# The last cell Z of the original row is therefore written one cell early, where the cell Y before it belongs, and
# inserting Y (after stepping back over Z) pushes Z into the bottom-right cell, which is never written directly.
# For this to paint the original row:   new_row[:-1] ++ [ins] ++ new_row[-1:]  must BE the original row, cut at other
# places (same text in the same order, every piece with the attribute and character set of the segment it was cut
# from); the last piece must be exactly one cell (Z) and `back` its width; `ins` must be exactly one cell (Y).
#
# Texts are abstract (pyvc/text.py, DESIGN 3.2 (a)): a sequence of characters with a column width in {0,1,2} each and
# the width prefix sum W — `Text("str")`; and bytes in a single-byte encoding (one column per byte) — `Text("bytes")`
# with the encoding global fixed to "narrow".  calc_width / calc_text_pos are used through their C11 contracts.
# The row is any list of >= 1 segments: the last two segments carry such texts, the segments before them are never
# looked at by the function and are opaque individuals here (an access to their text would be `Unsupported`).
# NOT covered here (bounded check only): bytes in UTF-8 / double-byte encodings (the C11 contracts describe columns of
# utf-8 bytes only along decode steps — no monotonicity of columns is available without induction).

from contracts.C11_width import ENC, W, tlen, width_at  # noqa: E402
from pyvc.text import text_eq  # noqa: E402

SU = "urwid/str_util.py:"
ATTR = Opaque("Attr")
CSET = Opt(Atom("0", "U"))


def _fresh_row(st, hint):
    """A row of 1, 2 or 3 segments (the function reads row[-1] and row[-2] only and copies what is in front of them
    with list operations: 3 stands for "something in front"); see the note on symbolic lengths at the contract."""
    kind = ("str", "bytes")[st.fork(2)]
    n = 1 + st.fork(3)
    last = (ATTR.fresh(st, "z_attr"), CSET.fresh(st, "z_cs"), Text(kind).fresh(st, "last_text"))
    prev = (ATTR.fresh(st, "p_attr"), CSET.fresh(st, "p_cs"), Text(kind).fresh(st, "prev_text"))
    head = (ATTR.fresh(st, "h_attr"), CSET.fresh(st, "h_cs"), Opaque("SegmentText").fresh(st, "head_text"))
    return Q.LRef(((head, prev, last)[3 - n:]))


def TW(t, k):
    """Columns of the first k elements of a segment text (relative to its start)."""
    return (W(t, k) - W(t, 0)) if t.kind == "str" else k


def cw(t, k):
    """Columns of element k."""
    return width_at(t, k) if t.kind == "str" else 1


def one_cell(t):
    """t is one screen cell: a first character of non-zero width followed by zero-width characters only."""
    n = tlen(t)
    return both(n >= 1, cw(t, 0) >= 1, cw(t, 0) == TW(t, n))


def seg_eq(x, y):
    return both(x[0] == y[0], opt_eq(x[1], y[1]), text_eq(x[2], y[2]) if hasattr(x[2], "kind") and hasattr(y[2], "kind") else x[2] == y[2])


def _row_items(r):
    s = r.seq if isinstance(r, Q.LRef) else r
    return s


@contract(RD + "Screen._last_row", property="C04", globals_=ENC, replayable=False)
class last_row:
    self_shape = Obj(_rdb.Screen, {})
    params = dict(row=Custom(_fresh_row, "row of segments"))
    raises = ()

    def requires(s, a):
        row = a.row.seq
        n = Q.seq_len(row)
        last = Q.seq_get(row, n - 1)[2]
        ln = tlen(last)
        cols = TW(last, ln)
        enc = implies(last.kind == "bytes", a.g__byte_encoding == "narrow")
        # the last segment is at least one column wide, and the cell before the last cell exists where the function
        # looks for it: in the last segment unless that is a single cell (then, if there is another segment, in it)
        pre = both(enc, cols >= 1)
        # (a segment does not begin with a zero-width character: what precedes the last cell inside the last segment
        # is then at least one column wide.  Slightly more than the function needs — it needs SOME character of
        # non-zero width before the last cell — but free of quantifiers.)
        pre = both(pre, cw(last, 0) >= 1)
        if not isinstance(n, int) or n >= 2:
            prev = Q.seq_get(row, n - 2)[2]
            pre = both(pre, implies(cw(last, 0) == cols, TW(prev, tlen(prev)) >= 1))
        return pre

    def ensures(old, s, a, result):
        new_row, back, ins = result
        row = a.old.row.seq
        n = Q.seq_len(row)
        last = Q.seq_get(row, n - 1)
        zt = last[2]
        cols = TW(zt, tlen(zt))
        out = new_row.seq
        m = Q.seq_len(out)
        yield "the-row-handed-in-is-not-modified", both(Q.seq_len(a.row.seq) == n, a.row.seq is row)
        single = cw(zt, 0) == cols  # the last segment is one cell
        if isinstance(n, int) and n == 1 and bool(single):
            # "a row that is one double-width character": there is no Y to slide it with
            yield "a-row-that-is-one-cell-is-returned-as-it-is", both(new_row is a.row, back == 0, ins is None)
            return
        yield "a-segment-to-insert", ins is not None
        if ins is None:
            return
        yield "at-least-the-last-cell-is-drawn-first", m >= 1
        if isinstance(m, int) and m < 1:
            return
        z = Q.seq_get(out, m - 1)
        yield "last-piece-drawn-is-exactly-one-cell", one_cell(z[2])
        yield "back-is-the-width-of-the-cell-moved", both(back == TW(z[2], tlen(z[2])), back == cw(z[2], 0), 1 <= back, back <= 2)
        yield "inserted-piece-is-exactly-one-cell", one_cell(ins[2])
        yield "moved-cell-keeps-attribute-and-charset-of-the-last-segment", both(z[0] == last[0], opt_eq(z[1], last[1]))
        if bool(single):
            # Z is the whole last segment, Y is cut from the end of the segment before it
            prev = Q.seq_get(row, n - 2)
            pt = prev[2]
            yield "moved-cell-is-the-last-segment", text_eq(z[2], zt)
            yield "inserted-piece-has-attribute-and-charset-of-its-segment", both(ins[0] == prev[0], opt_eq(ins[1], prev[1]))
            cut = tlen(pt) - tlen(ins[2])  # where the previous segment is cut
            yield "inserted-piece-is-the-end-of-the-previous-segment", both(0 <= cut, text_eq(ins[2], pt.slice(cut, tlen(pt))))
            yield "rest-of-the-previous-segment-stays-in-place", ite(cut == 0, m == n - 1,
                                                                      both(m == n, seg_eq(Q.seq_get(out, imax(m - 2, 0)), (prev[0], prev[1], pt.slice(0, cut)))))
            keep = n - 2
        else:
            # Z and Y are both cut from the last segment
            p = tlen(zt) - tlen(z[2])
            cut = p - tlen(ins[2])
            yield "moved-cell-is-the-end-of-the-last-segment", both(0 <= p, text_eq(z[2], zt.slice(p, tlen(zt))))
            yield "inserted-piece-has-attribute-and-charset-of-its-segment", both(ins[0] == last[0], opt_eq(ins[1], last[1]))
            yield "inserted-piece-is-what-precedes-the-moved-cell", both(0 <= cut, text_eq(ins[2], zt.slice(cut, p)))
            yield "rest-of-the-last-segment-stays-in-place", ite(cut == 0, m == n,
                                                                  both(m == n + 1, seg_eq(Q.seq_get(out, imax(m - 2, 0)), (last[0], last[1], zt.slice(0, cut)))))
            keep = n - 1
        # the segments before the one(s) cut are the same, in the same places
        if isinstance(keep, int):
            yield "segments-before-are-kept", both(*[seg_eq(Q.seq_get(out, k), Q.seq_get(row, k)) for k in range(keep)]) if keep else True
        else:
            yield "segments-before-are-kept", forall(0, keep, lambda k: seg_eq(Q.seq_get(out, k), Q.seq_get(row, k)))


# =================================================================================================================
# Screen.clear — "forced clears": the record of what is believed to be on the terminal is dropped, so the next
# draw_screen cannot take its unchanged-canvas shortcut (`if self.screen_buf and canvas is self._screen_buf_canvas`)
# nor skip any row (`osb = []` when there is no screen_buf): it repaints everything.  Nothing else changes.
# (alias: contracts/C12_mainloop.py inlines write / flush / clear into _start / _stop; a primary contract here would
# replace that inlining.)

CLEAR_SCREEN = Obj(_rdb.Screen, dict(screen_buf=Opt(Opaque("ScreenBuf")), _screen_buf_canvas=Opt(Opaque("Canvas")), _rows_used=Opt(Int), _cy=Int,
                                     _setup_G1_done=Bool, _resized=Bool, maxrow=Opt(Int)))


@contract(RD + "Screen.clear", property="C04", alias="repaint", replayable=False)
class screen_clear:
    self_shape = CLEAR_SCREEN
    params = {}
    raises = ()
    modifies = ("screen_buf",)

    def ensures(old, s, a, result):
        yield "nothing-is-believed-to-be-on-the-terminal", is_none(s.screen_buf)
        yield "returns-nothing", result is None
        yield "partial-display-bookkeeping-untouched", both(opt_eq(s._rows_used, old._rows_used), s._cy == old._cy, opt_eq(s.maxrow, old.maxrow),
                                                            s._setup_G1_done == old._setup_G1_done, s._resized == old._resized,
                                                            opt_eq(s._screen_buf_canvas, old._screen_buf_canvas))


# =================================================================================================================
# Screen._on_update_palette_entry (C17: "resolves each attribute name through the palette entry for the active colour
# depth"): of the five AttrSpecs registered for a name — in the order BaseScreen.register_palette_entry emits them:
# 16-colour, mono, 88, 256, 2**24 — the one for `self.colors` is recorded and converted; nothing else is touched.

PAL_SCREEN = Obj(_rdb.Screen, dict(colors=Atom(1, 16, 88, 256, 2**24), _pal_attrspec=Custom(lambda st, h: Q.DRef({}), "dict"), _pal_escape=Custom(lambda st, h: Q.DRef({}), "dict"),
                                   term=Atom("fbterm", "xterm"), fg_bright_is_bold=Bool, bg_bright_is_blink=Bool))
ENTRY_ORDER = (16, 1, 88, 256, 2**24)  # spec: urwid/display/common.py BaseScreen.register_palette_entry's signal arguments


@contract(RD + "Screen._attrspec_to_escape", property=(), alias="token", assumed=True,
          notes="call-site stand-in used by _on_update_palette_entry's contract only: the result is a token naming the argument, so that the caller's postcondition can say WHICH spec was converted; the conversion itself is verified by the #sgr contract")
class a2e_token:
    self_shape = PAL_SCREEN
    params = dict(a=SPEC)
    pure_spec = staticmethod(lambda old, a: ("escape-of", a.a))


@contract(RD + "Screen._on_update_palette_entry", property=("C17", "C04"), replayable=False)
class on_update_palette_entry:
    self_shape = PAL_SCREEN
    params = dict(name=Union(Const("body"), Const(None)), attrspecs=Tup(SPEC, SPEC, SPEC, SPEC, SPEC))
    raises = ()
    modifies = ("_pal_attrspec", "_pal_escape")
    contract_overrides = {RD + "Screen._attrspec_to_escape": a2e_token}

    def ensures(old, s, a, result):
        for k, depth in enumerate(ENTRY_ORDER):
            if bool(old.colors == depth):
                chosen = a.attrspecs[k]
                yield f"entry-for-the-active-depth-recorded/{depth}", s._pal_attrspec.d.get(a.name) is chosen
                yield f"and-its-escape-sequence-stored/{depth}", s._pal_escape.d.get(a.name) == ("escape-of", chosen)
        yield "only-this-name-touched", both(set(s._pal_attrspec.d) == {a.name}, set(s._pal_escape.d) == {a.name})
        yield "depth-unchanged", s.colors == old.colors
