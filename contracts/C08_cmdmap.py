"""C08 — the command map (`urwid/command_map.py`): which keys are navigation keys is decided, for every container, by
`self._command_map[key]`; all widgets share ONE map object (`urwid.command_map`) unless a widget is given a private
one the documented way -- `w._command_map = w._command_map.copy()`, then edits on the copy.

Statement (C08): "an unhandled key comes back unchanged, arrow keys move focus ...".  The container contracts
(contracts/C08_focus.py ...) are stated relative to the map their own `_command_map[key]` answers from; what makes them
mean anything for a whole screen is that a map only changes through its own `__setitem__` / `__delitem__` /
`clear_command` / `restore_defaults`: edits of one CommandMap object never show through another one.  Hence

    copy()              a NEW CommandMap whose `_command` dict is a NEW dict object holding the entries of the original
                        (so later edits of either map do not change the other); the original is untouched
    __init__            the documented default bindings, in a dict of the instance's own (not the class-level table)
    restore_defaults    likewise
    __getitem__         the bound command, None for an unbound key; nothing changes
    __setitem__         binds exactly that key; every other key keeps its binding
    __delitem__         unbinds exactly that key (KeyError if unbound); every other key keeps its binding
    clear_command       unbinds exactly the keys bound to that command; every other key keeps its binding

Model: `_command` is a dict with SYMBOLIC keys (pyvc/fmap.py): key names and commands are opaque individuals that
contain the str constants (`lit=(str,)`; a Command member is the str it equals, DESIGN 3.2).  "Every other key" is
proved for an arbitrary key constant K (universal generalisation).  Object identity of the dicts is identity of the
model objects (SFMap / DRef have reference semantics).  The class-level table `_command_defaults` is the real one,
read from the real class (constant keys)."""
import z3

from pyvc import seqs as Q
from pyvc import shapes as S
from pyvc import values as V
from pyvc.api import *
from pyvc.api import PROTOCOLS
from pyvc.fmap import MapOf, SFMap, as_mapval, xcheck_fmap
from pyvc.protocol import Protocol
from pyvc.seqs import DRef
from pyvc.values import cur, mk_bool

import importlib

_cm = importlib.import_module("urwid.command_map")  # (the attribute `urwid.command_map` is the shared map OBJECT, not the module)

CM = "urwid/command_map.py:"

for _k in ("KeyName",):
    if _k not in PROTOCOLS:
        PROTOCOLS[_k] = type(_k + "P", (Protocol,), {"kind": _k, "methods": {}})()

KEYN = Opaque("KeyName", lit=(str,))
CMDV = Opaque("KeyName", lit=(str,))  # commands are strings too (`Command(str, Enum)`); one kind, so that swapped arguments are a wrong value, not a sort error
CDICT = MapOf(KEYN, CMDV)
CMAP = Obj(_cm.CommandMap, dict(_command=CDICT))
DEFAULTS = dict(_cm.CommandMap._command_defaults)  # the real table (key name -> Command member)


def mapval(m):
    return as_mapval(m, KEYN, CMDV)


def arb_key(name="K"):
    """An arbitrary key name: one unconstrained constant per (path, name)."""
    d = cur().ghost.setdefault("arbitrary_keyname", {})
    if name not in d:
        d[name] = KEYN.fresh(cur(), name)
    return d[name]


def same_binding(m1, m0, k):
    """Key k is bound in m1 exactly as in m0 (bound to the same command, or unbound in both)."""
    a, b = mapval(m1), mapval(m0)
    return both(mk_bool(V._zb(a.has(k)) == V._zb(b.has(k))), implies(b.has(k), eq(a.val(k), b.val(k))))


def is_dict_model(x):
    return isinstance(x, (SFMap, DRef))


def default_binding(m, k):
    """Key k is bound in m exactly as in the documented defaults."""
    mv = mapval(m)
    in_defaults = either(*[eq(k, name) for name in DEFAULTS])
    return both(mk_bool(V._zb(mv.has(k)) == V._zb(in_defaults)), *[implies(eq(k, name), eq(mv.val(k), cmd)) for name, cmd in DEFAULTS.items()])


def _class_table(ip, st, obj, name):
    """`self._command_defaults`: the class-level table -- ONE dict object shared by all instances (per path)."""
    if name == "_command_defaults":
        g = st.ghost
        if "command_defaults_obj" not in g:
            g["command_defaults_obj"] = DRef(DEFAULTS)
        return g["command_defaults_obj"]
    return NotImplemented


def _class_table_untouched():
    t = cur().ghost.get("command_defaults_obj")
    return t is None or (list(t.d.items()) == list(DEFAULTS.items()))


def _xcheck():
    ok, detail = xcheck_fmap()
    return "finite-map-model-agrees-with-cpython-dict", ok, detail


def _xcheck_objdict():
    from pyvc.seqs import xcheck_objdict

    ok, detail = xcheck_objdict()
    return "instance-dict-model-agrees-with-cpython", ok, detail


@contract(CM + "CommandMap.__init__", property="C08", replayable=False)
class cm_init:
    self_shape = Obj(_cm.CommandMap, {})
    constructs = CMAP
    ctor_params = ()
    raises = ()
    missing_field = staticmethod(_class_table)

    def ensures(old, s, a, result):
        K = arb_key()
        d = s.fields.get("_command")
        yield "has-a-dict-of-its-own", is_dict_model(d) and d is not cur().ghost.get("command_defaults_obj")
        if is_dict_model(d):
            yield "the-documented-default-bindings", default_binding(d, K)
        yield "class-level-table-untouched", _class_table_untouched()


@contract(CM + "CommandMap.restore_defaults", property="C08", replayable=False)
class cm_restore:
    self_shape = CMAP
    modifies = ("_command",)
    raises = ()
    missing_field = staticmethod(_class_table)

    def ensures(old, s, a, result):
        K = arb_key()
        d = s.fields.get("_command")
        yield "keeps-a-dict-of-its-own", is_dict_model(d) and d is not cur().ghost.get("command_defaults_obj")
        if is_dict_model(d):
            yield "the-documented-default-bindings", default_binding(d, K)
        yield "class-level-table-untouched", _class_table_untouched()


def _remember(st, self_obj, vals):
    d = self_obj.fields["_command"]
    st.ghost["command_dict_at_entry"] = (d, d.v)


def _entry_dict_untouched():
    g = cur().ghost.get("command_dict_at_entry")
    return g is None or g[0].v is g[1]


@contract(CM + "CommandMap.__getitem__", property="C08", replayable=False)
class cm_getitem:
    self_shape = CMAP
    params = dict(key=KEYN)
    result = Opt(CMDV)
    raises = ()
    modifies = ()
    static_checks = [_xcheck]

    def ensures(old, s, a, result):
        mv = mapval(old._command)
        if is_none(result):
            yield "none-only-for-an-unbound-key", neg(mv.has(a.key))
        else:
            yield "the-bound-command", both(mv.has(a.key), eq(val(result), mv.val(a.key)))
        yield "map-untouched", s._command.v is old._command.v

    def pure_spec(old, a):
        from pyvc.fmap import _ite_any

        mv = mapval(old._command)
        return _ite_any(mv.has(a.key), mv.val(a.key), None)


@contract(CM + "CommandMap.__setitem__", property="C08", replayable=False)
class cm_setitem:
    self_shape = CMAP
    params = dict(key=KEYN, command=CMDV)
    raises = ()

    def ensures(old, s, a, result):
        K = arb_key()
        mv = mapval(s._command)
        yield "binds-the-key-to-the-command", both(mv.has(a.key), eq(mv.val(a.key), a.command))
        yield "every-other-key-keeps-its-binding", implies(neg(eq(K, a.key)), same_binding(s._command, old._command, K))

    def effects(old, s, a, result):
        s._command.v = old._command.v.set(a.key, a.command)


@contract(CM + "CommandMap.__delitem__", property="C08", replayable=False)
class cm_delitem:
    self_shape = CMAP
    params = dict(key=KEYN)
    raises = (KeyError,)
    raises_iff = {KeyError: lambda s, a: neg(mapval(s._command).has(a.key))}

    def ensures(old, s, a, result):
        K = arb_key()
        yield "was-bound", mapval(old._command).has(a.key)
        yield "unbinds-the-key", neg(mapval(s._command).has(a.key))
        yield "every-other-key-keeps-its-binding", implies(neg(eq(K, a.key)), same_binding(s._command, old._command, K))

    def on_raise(old, s, a, exc):
        yield "only-for-an-unbound-key", neg(mapval(old._command).has(a.key))
        yield "map-untouched", s._command.v is old._command.v

    def effects(old, s, a, result):
        s._command.v = old._command.v.delete(a.key)


@contract(CM + "CommandMap.copy", property="C08", replayable=False)
class cm_copy:
    self_shape = CMAP
    result = CMAP
    raises = ()
    modifies = ()
    setup = staticmethod(_remember)
    static_checks = [_xcheck_objdict]

    def ensures(old, s, a, result):
        K = arb_key()
        yield "a-new-command-map", isinstance(result, Q.SObj) and result is not s and result.cls is _cm.CommandMap
        if isinstance(result, Q.SObj):
            d = result.fields.get("_command")
            # later edits of the copy do not change the original and vice versa: two dict objects
            yield "with-a-dict-of-its-own", is_dict_model(d) and d is not s._command and d is not cur().ghost.get("command_defaults_obj")
            if is_dict_model(d):
                yield "holding-the-bindings-of-the-original", same_binding(d, old._command, K)
            yield "nothing-else-carried-over", set(result.fields) == {"_command"}
        yield "original-untouched", both(_entry_dict_untouched(), s._command.v is old._command.v)



def _cleared(m1, m0, command, k):
    """k is bound in m1 iff it was bound in m0 to something else than `command`; then to the same command."""
    a, b = mapval(m1), mapval(m0)
    keep = both(b.has(k), neg(eq(b.val(k), command)))
    return both(mk_bool(V._zb(a.has(k)) == V._zb(keep)), implies(keep, eq(a.val(k), b.val(k))))


@contract(CM + "CommandMap.clear_command", property="C08", replayable=False)
class cm_clear_command:
    self_shape = CMAP
    params = dict(command=CMDV)
    raises = ()

    def ensures(old, s, a, result):
        K = arb_key()
        yield "unbinds-exactly-the-keys-bound-to-that-command", _cleared(s._command, old._command, a.command, K)


def _clear_inv(v):
    """Entry j of the map held at entry is still there unless it is one of the selected entries (bound to `command`)
    that the loop has passed; nothing else got in; the stored commands are unchanged."""
    b = mapval(v.old.self._command)
    c = mapval(v.self._command)
    dk = v.dk.seq if hasattr(v.dk, "seq") else v.dk
    fo = getattr(dk, "filter_of", None)  # (base sequence, index map, its inverse, predicate) of a filter comprehension
    if fo is None:
        yield "the-keys-to-delete-are-selected-by-a-filter", False
        return
    _base, zi, zp, _pred = fo
    K = arb_key()
    n0 = b.n

    def entry(j):
        kj = b.key(j)
        gone = both(eq(b.val(kj), v.command), zp(j) < v.i_)
        return both(mk_bool(V._zb(c.has(kj)) == V._zb(neg(gone))), implies(c.has(kj), eq(c.val(kj), b.val(kj))))

    yield "entries-of-the-old-map", forall(0, n0, entry)
    yield "nothing-else-bound", implies(neg(b.has(K)), neg(c.has(K)))


cm_clear_command.loops = {0: Loop(invariant=_clear_inv)}
