"""C13 — AsyncioEventLoop's and TornadoEventLoop's idle emulation (urwid/event_loop/asyncio_loop.py,
tornado_loop.py: same scheme, tornado wraps the idle pass in its handle_exit), the adapters' own Python.

The asyncio loop is opaque (call_later returns a timer handle; nothing is claimed about when it fires).
  ghost `idle_calls` = number of call_later(0, self._entering_idle) handles made and neither started nor
  cancelled.   class invariant  I:  0 <= idle_calls <= 1  and  (_idle_asyncio_handle is not None  <=>
  idle_calls == 1)
  * _also_call_idle.<wrapper> (what asyncio calls for every alarm and watch; free variables self /
    callback universally quantified): an idle pass is pending (idle_calls == 1) when the user's callback
    is entered and I holds whether it returns or raises; exceptions of the callback pass through.
  * _entering_idle, entered by asyncio with its handle consumed (idle_calls == 0, the attribute still set):
    calls only currently registered idle callbacks; on EVERY exit -- return, or an idle callback raising --
    the attribute is None again (I restored), so the next alarm / watch callback schedules a new pass.
User callbacks are opaque, may raise anything, and may re-enter the loop's public operations (which do
not touch `_idle_asyncio_handle`: enter_idle / remove_enter_idle proved below)."""
import z3

from pyvc import seqs as Q
from pyvc import shapes as S
from pyvc import values as V
from pyvc.api import *
from pyvc.interp import FnVal
from pyvc.seqs import ModelObj
from pyvc.values import cur, mk_bool

from contracts.C13_loops import SMap, _guard
from urwid.event_loop import asyncio_loop as _al
from urwid.event_loop.abstract_loop import ExitMainLoop

AL = "urwid/event_loop/asyncio_loop.py:"
TH = S.opaque_sort("TimerHandle")


class SAioLoop(ModelObj):
    def py_call(self, ip, st, name, args, kwargs):
        o = st.ghost["loop_obj"]
        if name == "call_later":
            delay, fn = args[0], args[1]
            inner = fn
            if isinstance(fn, FnVal) and fn.closure is not None and fn.ref.node.name == "wrapper":  # tornado: handle_exit(f)
                inner = fn.closure.locals.get("f")
            idle = isinstance(inner, FnVal) and inner.bound is o and inner.ref.node.name == "_entering_idle"
            st.event("call_later", delay, "idle-pass" if idle else fn)
            if idle:
                o.fields["ghost_idle_calls"] = o.fields["ghost_idle_calls"] + 1
            return V.SOpaque("TimerHandle", z3.Const(st.fresh_name("th"), TH))
        raise Unsupported(f"asyncio loop .{name}")


def _fresh_of(cls):
    return lambda st, hint: _fresh_aio(st, hint, cls)


def _fresh_aio(st, hint, cls=None):
    o = Q.SObj(cls or _al.AsyncioEventLoop, dict(
        _loop=SAioLoop(), _idle_callbacks=SMap(st, "idle"), _idle_handle=st.fresh_int("idle_handle"),
        _idle_asyncio_handle=V.SOpt(z3.Bool(st.fresh_name("no_handle")), V.SOpaque("TimerHandle", z3.Const(st.fresh_name("th0"), TH))),
        ghost_idle_calls=st.fresh_int("idle_calls")))
    st.ghost["loop_obj"] = o
    return o


AIO = Custom(_fresh_aio, "AsyncioEventLoop")
AIO.fields = {}


def _has_handle(s):
    h = s._idle_asyncio_handle
    if h is None:
        return False
    if isinstance(h, V.SOpt):
        return neg(mk_bool(h.isnone))
    return True


def inv(s):
    n = s.ghost_idle_calls
    return both(n >= 0, n <= 1, eq(_has_handle(s), n == 1))


def _aio_havoc(st):
    """Rely: enter_idle / remove_enter_idle / alarm / watch_file ... from a user callback change the idle map
    and the handle counter only (the counter grows); `_idle_asyncio_handle` and the ghost count stay."""
    o = st.ghost["loop_obj"]
    st.ghost["last_lookup"] = None
    st.ghost["last_pop"] = None
    old_handle = o.fields["_idle_handle"]
    o.fields["_idle_callbacks"] = SMap(st, "idle")
    o.fields["_idle_handle"] = st.fresh_int("idle_handle")
    st.assume(o.fields["_idle_handle"] >= old_handle)


def _aio_setup(st, self_obj, vals):
    st.ghost["loop_obj"] = self_obj
    st.ghost["calls_at_entry"] = self_obj.fields["ghost_idle_calls"]


def _define(prefix, shape, inline_=()):
    """The same four contracts for AsyncioEventLoop and TornadoEventLoop (same idle emulation; tornado wraps the
    idle pass in its handle_exit)."""

    @contract(prefix + "_entering_idle", property="C13", replayable=False)
    class aio_entering_idle:
        self_shape = shape
        raises = (ExitMainLoop, InterruptedError, Exception)
        setup = staticmethod(_aio_setup)
        callback_guard = staticmethod(_guard)
        callback_havoc = staticmethod(_aio_havoc)

        def requires(s, a):
            # entered by asyncio running the timer handle kept in _idle_asyncio_handle: no longer pending
            return both(_has_handle(s), s.ghost_idle_calls == 0)

        def ensures(old, s, a, result):
            yield "handle-forgotten-so-the-next-callback-schedules-a-new-pass", neg(_has_handle(s))
            yield "class-invariant-restored", inv(s)

        def on_raise(old, s, a, exc):
            yield "handle-forgotten-even-when-an-idle-callback-raises", neg(_has_handle(s))
            yield "class-invariant-restored", inv(s)

        loops = {0: Loop(invariant=lambda v: both(_has_handle(v.self), v.self.ghost_idle_calls == 0))}


    def _wrapper_claims(a):
        st = cur()
        s = a.g_self
        calls = [ev for ev in st.trace if ev[0] == "call_later"]
        cbs = [i for i, ev in enumerate(st.trace) if ev[0] == "callback"]
        yield "the-callback-ran-exactly-once", len(cbs) == 1
        yield "an-idle-pass-is-pending-after-the-alarm-or-watch-callback", both(_has_handle(s), s.ghost_idle_calls == 1)
        yield "scheduled-at-most-once-with-delay-0-and-only-if-none-was-pending", both(len(calls) <= 1, s.ghost_idle_calls == st.ghost["calls_at_entry"] + len(calls), all(ev[1] == 0 and ev[2] == "idle-pass" for ev in calls))
        yield "class-invariant", inv(s)



    @contract(prefix + "_also_call_idle.<wrapper>", property="C13", replayable=False)
    class aio_wrapper:
        globals_ = dict(self=shape, callback=Opaque("LoopCallback"))
        callback_havoc = staticmethod(_aio_havoc)
        raises = (ExitMainLoop, InterruptedError, Exception)
        inline = inline_

        def setup(st, self_obj, vals):
            _aio_setup(st, vals["g_self"], vals)

        def requires(a):
            return inv(a.g_self)

        def ensures(a, result):
            yield from _wrapper_claims(a)

        def on_raise(a, exc):
            yield from _wrapper_claims(a)


    def _handle_untouched(old, s):
        return both(eq(_has_handle(s), _has_handle(old)), s.ghost_idle_calls == old.ghost_idle_calls)


    @contract(prefix + "enter_idle", property="C13", replayable=False)
    class aio_enter_idle:
        self_shape = shape
        params = dict(callback=Opaque("LoopCallback"))
        result = Int
        setup = staticmethod(_aio_setup)

        def requires(s, a):
            k = z3.Int("qk")  # handles are issued increasingly: stored ones are not above the counter
            return mk_bool(z3.ForAll([k], z3.Implies(V._zb(s._idle_callbacks.has(V.SInt(k))), k <= V._z(s._idle_handle))))

        def ensures(old, s, a, result):
            yield "fresh-handle", both(neg(old._idle_callbacks.has(result)), result == old._idle_handle + 1, s._idle_handle == result)
            yield "registered", both(s._idle_callbacks.has(result), eq(s._idle_callbacks.val(result), a.callback))
            k = V.SInt(z3.Int("anyh"))
            yield "others-untouched", mk_bool(z3.ForAll([k.e], V._zb(implies(neg(eq(k, result)), both(eq(s._idle_callbacks.has(k), old._idle_callbacks.has(k)), eq(s._idle_callbacks.val(k), old._idle_callbacks.val(k)))))))
            yield "pending-idle-pass-untouched", both(_handle_untouched(old, s), not [ev for ev in cur().trace if ev[0] == "call_later"])


    @contract(prefix + "remove_enter_idle", property="C13", replayable=False)
    class aio_remove_enter_idle:
        self_shape = shape
        params = dict(handle=Int)
        result = Bool
        setup = staticmethod(_aio_setup)

        def ensures(old, s, a, result):
            yield "reports-whether-it-was-registered", eq(result, old._idle_callbacks.has(a.handle))
            yield "no-longer-registered", neg(s._idle_callbacks.has(a.handle))
            k = V.SInt(z3.Int("anyh"))
            yield "others-untouched", mk_bool(z3.ForAll([k.e], V._zb(implies(neg(eq(k, a.handle)), eq(s._idle_callbacks.has(k), old._idle_callbacks.has(k))))))
            yield "pending-idle-pass-untouched", _handle_untouched(old, s)


_define(AL + "AsyncioEventLoop.", AIO)

try:
    from urwid.event_loop import tornado_loop as _tol
except ImportError:  # pragma: no cover  (tornado is optional)
    _tol = None
if _tol is not None:
    TOR = Custom(_fresh_of(_tol.TornadoEventLoop), "TornadoEventLoop")
    TOR.fields = {}
    _define("urwid/event_loop/tornado_loop.py:TornadoEventLoop.", TOR, ("TornadoEventLoop.handle_exit",))
