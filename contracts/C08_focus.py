"""C08 — container focus: contracts on Pile / Columns focus handling and key routing (children abstract)."""
import z3

from pyvc import seqs as Q
from pyvc import shapes as S
from pyvc import values as V
from pyvc.api import *
from pyvc.api import PROTOCOLS
from pyvc.values import cur, mk_bool, ite
from pyvc.seqs import View
from contracts.proto_widget import *
from contracts.C16_focuslist import ML as MLK, RI as LIST_RI, focus_set as MFL_FOCUS_SET, focus_get as MFL_FOCUS_GET

from urwid.widget import pile as _pile
from urwid.widget import monitored_list as _mlmod

PI = "urwid/widget/pile.py:"
ITEM = Tup(Opaque("Widget"), Tup(Atom("pack", "given", "weight"), Opt(Int)))
CONTENTS = Obj(_mlmod.MonitoredFocusList, dict(items=ListOf(ITEM), _focus=Int), base_list="items")
PILE = Obj(_pile.Pile, dict(_contents=CONTENTS, _selectable=Bool, pref_col=Opt(Int)))
PINL = (PI + "Pile.contents",)


def n_items(p):
    return Q.seq_len(p._contents.items) if isinstance(p, V.Sym) else len(p._contents.items)


def item_at(p, i):
    return Q.seq_get(p._contents.items, i)


def pile_ri(s):
    return LIST_RI(s._contents)


def _missing(ip, st, obj, name):
    if name == "_command_map":
        return COMMAND_MAP
    return NotImplemented


@contract(PI + "Pile.focus_position", property="C08", inline=PINL, replayable=False)
class pile_fp_get:
    self_shape = PILE
    result = Int
    raises = (IndexError,)
    invariant = staticmethod(pile_ri)

    def ensures(old, s, a, result):
        yield "non-empty", n_items(old) > 0
        yield "a-valid-position", both(0 <= result, result < n_items(old), result == old._contents._focus)

    def on_raise(old, s, a, exc):
        yield "only-when-empty", n_items(old) == 0

    raises_iff = {IndexError: lambda s, a: n_items(s) == 0}
    pure_spec = None


@contract(PI + "Pile.focus_position.setter", property="C08", inline=PINL, replayable=False)
class pile_fp_set:
    self_shape = PILE
    params = dict(position=Int)
    raises = (IndexError,)
    invariant = staticmethod(pile_ri)
    raises_iff = {IndexError: lambda s, a: either(a.position < 0, a.position >= n_items(s))}

    def ensures(old, s, a, result):
        yield "was-a-valid-position", both(0 <= a.position, a.position < n_items(old))
        yield "focus-is-that-child", s._contents._focus == a.position
        yield "contents-untouched", n_items(s) == n_items(old)

    def on_raise(old, s, a, exc):
        yield "only-for-an-invalid-position", either(a.position < 0, a.position >= n_items(old))
        yield "nothing-written", both(s._contents._focus == old._contents._focus, n_items(s) == n_items(old))

    def effects(old, s, a, result):
        s._contents.fields["_focus"] = a.position


@contract(PI + "Pile.focus", property="C08", inline=PINL, replayable=False)
class pile_focus:
    self_shape = PILE
    result = Opt(Opaque("Widget"))
    invariant = staticmethod(pile_ri)

    def ensures(old, s, a, result):
        if n_items(old) == 0:
            yield "no-focus-when-empty", is_none(result)
        else:
            yield "focus-is-the-child-at-the-focus-position", both(neg(is_none(result)), eq(val(result), item_at(old, old._contents._focus)[0]) if not is_none(result) else False)

    def pure_spec(old, a):
        if n_items(old) == 0:
            return None
        return item_at(old, old._contents._focus)[0]


@contract(PI + "Pile._contents_modified", property="C08", inline=PINL, replayable=False)
class pile_contents_modified:
    self_shape = PILE
    invariant = staticmethod(pile_ri)

    def ensures(old, s, a, result):
        W = PROTOCOLS["Widget"]
        st = cur()
        n = n_items(old)
        sel = lambda j: W.call_quiet(st, item_at(old, j)[0], "selectable", {})  # noqa: E731
        if s._selectable:
            jw = st.fresh_int("w")
            # selectable => some child is (stated as: not all children are unselectable)
            yield "selectable-only-if-a-child-is", neg(forall(0, n, lambda j: neg(sel(j))))
        else:
            yield "unselectable-only-if-no-child-is", forall(0, n, lambda j: neg(sel(j)))
        yield "invalidated", count_ev(s.trace, "_invalidate") == 1


PROTOCOLS["SizeArg"] = type("SA", (Protocol,), {"kind": "SizeArg", "methods": {}})()

# sizes: the Pile itself is a box or a flow widget here (the fixed `()` case runs through _get_fixed_rows_sizes and is
# left to the bounded part); a child is handed (), (c,) or (c, r) -- a value of unknown arity, case-split where used
PSIZE = Union(Tup(Int, Int), Tup(Int))
CSIZE = Union(Tup(), Tup(Int), Tup(Int, Int))
GRS_RESULT = Tup(ListOf(Int, tuple_=True), ListOf(Nat, tuple_=True), ListOf(CSIZE, tuple_=True))  # heights >= 0: clause no-negative-height
# `Pile.get_rows_sizes` is under a verified contract in contracts/C09_pile.py (the shared geometry of C09/C01)


UPDOWN = ("cursor up", "cursor down")


@contract(PI + "Pile.keypress", property="C08", replayable=False,
          inline=PINL + (PI + "Pile._update_pref_col_from_focus", "urwid/widget/widget.py:Widget.selectable"))
class pile_keypress:
    self_shape = PILE
    params = dict(size=PSIZE, key=Opaque("Key"))
    result = Opt(Opaque("Key"))
    invariant = staticmethod(pile_ri)
    missing_field = staticmethod(_missing)
    raises = ()
    qf_branching = True

    def requires(s, a):
        # a well-formed Pile at a valid box or flow size (the precondition of the shared geometry, contracts/C09_pile.py)
        from contracts.C09_pile import pile_geo_requires

        return pile_geo_requires(s, a.size)

    def ensures(old, s, a, result):
        st = cur()
        n = n_items(old)
        kp = [e for e in st.trace if e[0] == "call" and e[2] == "keypress"]
        if n == 0:
            yield "empty-container-returns-the-key", both(len(kp) == 0, opt_eq(result, a.key))
            return
        f0 = old._contents._focus
        focus_child = item_at(old, f0)[0]
        if old._selectable:
            yield "offered-to-the-focus-child-only", both(len(kp) == 1, eq(kp[0][1], focus_child) if kp else False, eq(kp[0][3]["key"], a.key) if kp else False)
            if kp:
                from contracts.C09_pile import Geo

                # C09: the size handed over with the key is the size the child is rendered at (shared geometry)
                yield "offered-with-the-rendered-size", V.struct_eq(Geo(old, a.size, True).sa(f0), kp[0][3]["size"])
            key2 = kp[0][4] if kp else None
        else:
            yield "not-offered-to-unselectable-children", len(kp) == 0
            key2 = a.key
        cmd = command_of(key2) if not is_none(key2) else None
        nav = (cmd is not None) and bool(either(cmd == "cursor up", cmd == "cursor down"))
        if not nav:  # statement: a non-navigation key that was not consumed comes back unchanged (whether or not it was offered)
            yield "child-result-returned-unchanged", opt_eq(result, key2)
            yield "focus-unchanged", s._contents._focus == f0
            return
        # navigation: focus moves to the nearest selectable child in that direction, or stays
        W = PROTOCOLS["Widget"]
        sel = lambda j: W.call_quiet(st, item_at(old, j)[0], "selectable", {})  # noqa: E731
        up = bool(cmd == "cursor up") if cmd is not None else False
        f1 = s._contents._focus
        if is_none(result):
            yield "moved-to-a-selectable-child-in-that-direction", both(sel(f1), f1 < f0 if up else f1 > f0)
            yield "the-nearest-one", forall(imin(f0, f1) + 1, imax(f0, f1), lambda j: neg(sel(j)))
        else:
            yield "no-selectable-child-that-way-key-comes-back", both(opt_eq(result, key2), f1 == f0,
                                                                       forall(0, f0, lambda j: neg(sel(j))) if up else forall(f0 + 1, n, lambda j: neg(sel(j))))

    loops = {
        0: Loop(invariant=lambda v: pile_nav_inv(v), modifies=("self.pref_col",)),
        1: Loop(invariant=lambda v: True),
    }


def pile_nav_inv(v):
    """Positions passed so far (between the old focus and the current candidate) are all unselectable;
    the focus has not moved yet."""
    st = cur()
    W = PROTOCOLS["Widget"]
    items = v.self._contents.items
    sel = lambda p: W.call_quiet(st, Q.seq_get(items, p)[0], "selectable", {})  # noqa: E731
    up = v.candidates.step < 0
    passed = forall(v.i - v.i_, v.i, lambda p: neg(sel(p))) if up else forall(v.i + 1, v.i + 1 + v.i_, lambda p: neg(sel(p)))
    return both(v.self._contents._focus == v.i, 0 <= v.i, v.i < Q.seq_len(items), passed)


# ============================================================================================ Columns
from urwid.widget import columns as _columns  # noqa: E402

CO = "urwid/widget/columns.py:"
CITEM = Tup(Opaque("Widget"), Tup(Atom("pack", "given", "weight"), Opt(Int), Bool))
CCONTENTS = Obj(_mlmod.MonitoredFocusList, dict(items=ListOf(CITEM), _focus=Int), base_list="items")
COLUMNS = Obj(_columns.Columns, dict(_contents=CCONTENTS, _selectable=Bool, pref_col=Opt(Int), _cache_maxcol=Opt(Int), dividechars=Int, min_width=Int))
CINL = (CO + "Columns.contents",)


@contract(CO + "Columns._invalidate", property=(), assumed=True, notes="drops the cached column widths and this widget's cached canvases (C06); logged")
class col_invalidate:
    self_shape = COLUMNS
    log_event = "_invalidate"


@contract(CO + "Columns.focus_position", property="C08", inline=CINL, replayable=False)
class col_fp_get:
    self_shape = COLUMNS
    result = Int
    raises = (IndexError,)
    invariant = staticmethod(pile_ri)
    raises_iff = {IndexError: lambda s, a: n_items(s) == 0}

    def ensures(old, s, a, result):
        yield "non-empty", n_items(old) > 0
        yield "a-valid-position", both(0 <= result, result < n_items(old), result == old._contents._focus)

    def on_raise(old, s, a, exc):
        yield "only-when-empty", n_items(old) == 0


@contract(CO + "Columns.focus_position.setter", property="C08", inline=CINL, replayable=False)
class col_fp_set:
    self_shape = COLUMNS
    params = dict(position=Int)
    raises = (IndexError,)
    invariant = staticmethod(pile_ri)
    raises_iff = {IndexError: lambda s, a: either(a.position < 0, a.position >= n_items(s))}

    def ensures(old, s, a, result):
        yield "was-a-valid-position", both(0 <= a.position, a.position < n_items(old))
        yield "focus-is-that-child", s._contents._focus == a.position
        yield "contents-untouched", n_items(s) == n_items(old)

    def on_raise(old, s, a, exc):
        yield "only-for-an-invalid-position", either(a.position < 0, a.position >= n_items(old))
        yield "nothing-written", both(s._contents._focus == old._contents._focus, n_items(s) == n_items(old))

    def effects(old, s, a, result):
        s._contents.fields["_focus"] = a.position


@contract(CO + "Columns.focus", property="C08", inline=CINL, replayable=False)
class col_focus:
    self_shape = COLUMNS
    result = Opt(Opaque("Widget"))
    invariant = staticmethod(pile_ri)

    def ensures(old, s, a, result):
        if n_items(old) == 0:
            yield "no-focus-when-empty", is_none(result)
        else:
            yield "focus-is-the-child-at-the-focus-position", both(neg(is_none(result)), eq(val(result), item_at(old, old._contents._focus)[0]) if not is_none(result) else False)


@contract(CO + "Columns._contents_modified", property="C08", inline=CINL, replayable=False)
class col_contents_modified:
    self_shape = COLUMNS
    invariant = staticmethod(pile_ri)

    def ensures(old, s, a, result):
        W = PROTOCOLS["Widget"]
        st = cur()
        n = n_items(old)
        sel = lambda j: W.call_quiet(st, item_at(old, j)[0], "selectable", {})  # noqa: E731
        if s._selectable:
            yield "selectable-only-if-a-child-is", neg(forall(0, n, lambda j: neg(sel(j))))
        else:
            yield "unselectable-only-if-no-child-is", forall(0, n, lambda j: neg(sel(j)))
        yield "invalidated", count_ev(s.trace, "_invalidate") == 1


# One entry of the size-argument tuple: (arity, cols, rows) stands for () / (cols,) / (cols, rows).
SIZERAW = Tup(Int(0, 2), Dim, Dim)


class LazySize(V.Sym):
    """A size tuple () / (cols,) / (cols, rows) whose arity is symbolic: kept as the (arity, cols, rows) triple and
    decoded (a three-way fork) only where it is handed to a child (pyvc.protocol.force_lazy) or compared."""

    def __init__(self, raw):
        self.raw = raw

    def py_force(self, st):
        k, c, r = self.raw
        j = st.choose([k == 0, k == 1, k == 2])
        return ((), (c,), (c, r))[j]

    def __repr__(self):
        return f"LazySize{self.raw!r}"


def decode_size(raw):
    return LazySize(raw)


def size_is(size, raw):
    """The concrete-arity size tuple `size` is the one the (arity, cols, rows) triple stands for (no fork)."""
    size = getattr(size, "raw", size)
    if isinstance(size, tuple) and len(size) == 3 and isinstance(raw, tuple) and size is raw:
        return True
    k, c, r = raw
    if isinstance(size, LazySize):
        return both(*[eq(x, y) for x, y in zip(size.raw, raw)])
    return both(k == len(size), *[x == y for x, y in zip(size, (c, r))])


def _gcs_facts(old, a, widths, heights, raw, i):
    """What Columns.get_column_sizes guarantees about entry i (non-fixed size), as labelled formulas."""
    st = cur()
    W = PROTOCOLS["Widget"]
    size = a.size
    k, c, r = Q.seq_get(raw, i)
    w_i = Q.seq_get(widths, i)
    h_i = Q.seq_get(heights, i)
    child = item_at(old, i)[0]
    foc = both(a.focus, old._contents._focus == i)
    yield "size-argument-carries-the-column-width", implies(k >= 1, c == w_i)
    if len(size) == 2:
        yield "box-children-get-the-box-height", implies(k == 2, r == size[1])
    rows1 = W.call_quiet(st, child, "rows", dict(size=(c,), focus=foc))
    pack0 = W.call_quiet(st, child, "pack", dict(size=(), focus=foc))
    yield "height-is-what-the-child-renders-at-that-size", implies(w_i > 0, h_i == ite(k == 2, r, ite(k == 1, rows1, pack0[1])))


@contract(CO + "Columns.get_column_sizes", property=(), assumed=True, deterministic=True,
          notes="(widths, heights, size arguments) of the displayed columns: one entry per displayed column (at most one per "
                "child), widths >= 0 (0 hides the column); a size argument of arity >= 1 carries the column's width, in box "
                "mode a 2-tuple carries the box height; the height of a visible column is the number of rows its child "
                "renders at its size argument.  Facts about entry i are instantiated wherever entry i is read.  The widths "
                "themselves are Columns.column_widths' (C19, branch agent/colw); fixed size () is not covered")
class col_gcs:
    self_shape = COLUMNS
    params = dict(size=Opaque("SizeArg"), focus=Bool)
    result = Tup(ListOf(Dim, tuple_=True), ListOf(Dim, tuple_=True), ListOf(SIZERAW, tuple_=True))

    def ensures(old, s, a, result):
        n = n_items(old)
        m = Q.seq_len(result[0])
        yield "aligned-with-the-children", both(m <= n, Q.seq_len(result[1]) == m, Q.seq_len(result[2]) == m)

    def apply(self, ip, st, f, args, kwargs, site=None, check_pre=True):
        widths, heights, raw = Contract.apply(self, ip, st, f, args, kwargs, site=site, check_pre=check_pre)
        vals = self.bind(f, args, kwargs)
        self_obj = vals.pop("self")
        a = View(vals)
        if not isinstance(a.size, tuple):
            facts = lambda i: ()  # noqa: E731  (opaque size: only the lengths are known)
        else:
            if len(a.size) == 0:
                raise Unsupported("Columns.get_column_sizes(()) (fixed size) has no contract")
            old = self_obj.snapshot()
            busy = []

            def facts(i):
                if busy:
                    return
                busy.append(1)
                try:
                    for _label, fml in _gcs_facts(old, a, widths, heights, raw, i):
                        cur().assume(fml)
                    if cur().ghost.get("columns_all_visible"):
                        # the caller's fit precondition "every displayed column has a positive width", instantiated at i
                        cur().assume(implies(both(0 <= i, i < Q.seq_len(widths)), Q.seq_get(widths, i) > 0))
                finally:
                    busy.pop()

        def wrap(seq, conv=lambda x: x):
            def getter(i, seq=seq):
                v = seq.getter(i)
                facts(i)
                return conv(v)

            r = Q.SSeq(seq.length, getter, seq.shape, None, seq.name)
            r.raw = seq
            return r

        ws = wrap(widths)
        ps = z3.Function(f"{widths.name}$psum", z3.IntSort(), z3.IntSort())

        def psum(k, ws=ws):
            # prefix-sum model field of the widths (definition, instantiated at the indices read)
            cur().assume(ps(z3.IntVal(0)) == 0)
            return V.mk_int(ps(V._z(k)))

        def wget(i, inner=ws.getter):
            v = inner(i)
            zi = V._z(i)
            cur().assume(ps(zi + 1) == ps(zi) + V._z(v))
            return v

        ws.getter = wget
        ws.psum = psum
        sizes = wrap(raw, decode_size)
        sizes.lazy = True
        return ws, wrap(heights), sizes


@contract(CO + "Columns.keypress", property="C08", replayable=False, inline=CINL)
class col_keypress:
    self_shape = COLUMNS
    params = dict(size=Opaque("SizeArg"), key=Opaque("Key"))
    result = Opt(Opaque("Key"))
    invariant = staticmethod(pile_ri)
    missing_field = staticmethod(_missing)

    def ensures(old, s, a, result):
        st = cur()
        n = n_items(old)
        kp = [e for e in st.trace if e[0] == "call" and e[2] == "keypress"]
        if n == 0:
            yield "empty-container-returns-the-key", both(len(kp) == 0, opt_eq(result, a.key))
            return
        f0 = old._contents._focus
        focus_child = item_at(old, f0)[0]
        yield "offered-to-no-one-but-the-focus-child", both(len(kp) <= 1, eq(kp[0][1], focus_child) if kp else True, eq(kp[0][3]["key"], a.key) if kp else True)
        shown = Q.seq_len(col_gcs.spec_value(old, size=a.size, focus=True)[0])
        if f0 >= shown:
            yield "focus-column-not-displayed-key-comes-back", both(len(kp) == 0, opt_eq(result, a.key), s._contents._focus == f0)
            return
        W = PROTOCOLS["Widget"]
        sel = lambda j: W.call_quiet(st, item_at(old, j)[0], "selectable", {})  # noqa: E731
        yield "offered-iff-the-focus-child-is-selectable", eq(len(kp) == 1, sel(f0))
        key2 = kp[0][4] if kp else a.key
        cmd = command_of(key2) if not is_none(key2) else None
        nav = (cmd is not None) and bool(either(cmd == "cursor left", cmd == "cursor right"))
        if not nav:
            yield "child-result-returned-unchanged", opt_eq(result, key2)
            yield "focus-unchanged", s._contents._focus == f0
            return
        left = bool(cmd == "cursor left")
        f1 = s._contents._focus
        if is_none(result):
            yield "moved-to-a-selectable-child-in-that-direction", both(sel(f1), f1 < f0 if left else f1 > f0)
            yield "the-nearest-one", forall(imin(f0, f1) + 1, imax(f0, f1), lambda j: neg(sel(j)))
        else:
            yield "no-selectable-child-that-way-key-comes-back", both(opt_eq(result, key2), f1 == f0,
                                                                       forall(0, f0, lambda j: neg(sel(j))) if left else forall(f0 + 1, n, lambda j: neg(sel(j))))

    loops = {0: Loop(invariant=lambda v: col_nav_inv(v))}


def col_nav_inv(v):
    st = cur()
    W = PROTOCOLS["Widget"]
    items = v.self._contents.items
    sel = lambda p: W.call_quiet(st, Q.seq_get(items, p)[0], "selectable", {})  # noqa: E731
    cands = v.candidates.seq if hasattr(v.candidates, "seq") else v.candidates
    cands = getattr(cands, "range", cands)
    left = cands.step < 0
    passed = forall(v.i - v.i_, v.i, lambda p: neg(sel(p))) if left else forall(v.i + 1, v.i + 1 + v.i_, lambda p: neg(sel(p)))
    return both(v.self._contents._focus == v.i, 0 <= v.i, v.i < Q.seq_len(items), passed)


# ============================================================================= the container shortcut `container[p]`
CT = "urwid/widget/container.py:"


def base_widget_of(w):
    """`w.base_widget` of an opaque child (contract side): in the widget protocol another individual than `w` -- the
    statement's clauses about "the child" (selectable, offered the key, rendered with focus) are about `w` itself."""
    return PROTOCOLS["Widget"].getattr(None, cur(), w, "base_widget")


def _norm(p, n):
    return ite(p < 0, p + n, p)


def _getitem_contract(shape, inl, alias=None):
    kw = dict(alias=alias) if alias else {}

    @contract(CT + "WidgetContainerMixin.__getitem__", property="C08", inline=inl, replayable=False, **kw)
    class container_getitem:
        """`container[p]` is `container.contents[p][0].base_widget`: the child at that position *without its decorations*
        -- NOT the child.  Callers that need the child's own answers (selectable(), keypress(), render()) must go through
        `contents`; at a call site this contract hands back the base widget, a different individual."""

        self_shape = shape
        params = dict(position=Int)
        result = Opaque("Widget")
        raises = (IndexError,)
        raises_iff = {IndexError: lambda s, a: either(a.position < -n_items(s), a.position >= n_items(s))}
        # used at call sites whose receiver is modelled with a `_contents` list (Pile, Columns, GridFlow); for a Frame or
        # an Overlay receiver `self[...]` stays an unsupported call (an honest NOT-GENERATED, never a silent pass)
        receiver_fields = ("_contents",)

        def ensures(old, s, a, result):
            n = n_items(old)
            yield "a-valid-position", both(-n <= a.position, a.position < n)
            yield "the-base-widget-of-that-child", eq(result, base_widget_of(item_at(old, _norm(a.position, n))[0]))
            yield "container-untouched", both(n_items(s) == n, s._contents._focus == old._contents._focus)

        def on_raise(old, s, a, exc):
            n = n_items(old)
            yield "only-for-an-invalid-position", either(a.position < -n, a.position >= n)

        def pure_spec(old, a):
            return base_widget_of(item_at(old, _norm(a.position, n_items(old)))[0])

    return container_getitem


container_getitem = _getitem_contract(PILE, PINL)
container_getitem_columns = _getitem_contract(COLUMNS, CINL, alias="columns")
