"""C13 — TrioEventLoop: the SYNCHRONOUS part of alarm / remove_alarm / watch_file / remove_watch_file / enter_idle /
remove_enter_idle (urwid/event_loop/trio_loop.py): what is queued, what is handed to the nursery, what is cancelled,
what is answered.

Outside pyvc (coroutines are not executed by the verifier): `_alarm_task`, `_watch_task`, `_main_task`, `run_async`, and
the trio scheduler itself; also `_schedule_pending_tasks` (a `*args` call of symbolic arity).  The connection to the
statement that rests on them is stated, not proved: a task runs its callback only inside `with scope:` (a cancelled
scope skips / leaves the block at the next checkpoint), `_main_task` starts exactly the tasks queued in
`_pending_tasks` when the run begins.

Trusted (TRIO_NOTES): trio.CancelScope() gives a new, uncancelled scope; inside a run `scope.cancel_called` answers
whether cancel() was called and cancel() never fails; OUTSIDE a run (`_nursery is None`) `cancel_called` answers True
for a cancelled scope and otherwise either answers False (a scope that was entered and left) or raises RuntimeError
(trio asks the clock of a run that does not exist: observed with trio 0.34); cancel() marks the scope, inside and
outside a run (it needs no run: trio 0.34 `CancelScope.cancel` catches the RuntimeError of current_task() itself --
checked on the installed trio: `trio.CancelScope().cancel()` outside a run succeeds and cancel_called is True
afterwards); `nursery.start_soon(task, scope, *args)` only records the request; a nursery object is truthy.

Class invariant (what callbacks and the application can observe between the loop's operations):
  `_nursery is not None`  =>  nothing is queued in `_pending_tasks`    (_main_task empties the queue right after it
  opens the nursery, before any checkpoint);   no queued scope is cancelled.

Statement clauses:
  alarm / watch_file   a new scope is the handle; running: exactly one start_soon(<the loop's _alarm_task /
                       _watch_task>, scope, seconds|fd, callback); not running: exactly that entry is appended to the
                       queue, nothing is asked of trio
  remove_alarm / remove_watch_file (= _cancel_scope)
                       running: that very scope is cancelled once, the answer is True exactly if it was not cancelled
                       before; not running and queued: True, no entry with that scope remains queued (so the run
                       never starts it), every other entry stays; not running, not queued: never True for a scope
                       cancelled before.
                       "removing it again reports failure":  a removal that answered True must leave the scope
                       cancelled (inside a run the next removal answers `not scope.cancel_called`).  (Failed on the tree
                       for an alarm / watch removed from the queue before run(): fixed in /repo 0fe9cb0, see `again_fails`.)
  enter_idle / remove_enter_idle   as for the other loops (fresh handle; reports whether registered; others untouched)."""
import ast

import z3

from pyvc import seqs as Q
from pyvc import shapes as S
from pyvc import values as V
from pyvc.api import *
from pyvc.api import PROTOCOLS
from pyvc.engine import PyRaise, SExc
from pyvc.interp import FnVal
from pyvc.protocol import OpaqueCall, Protocol
from pyvc.seqs import LRef, ModelObj
from pyvc.values import cur, mk_bool, mk_int

from contracts.C13_loops import SMap
from contracts.C13_loops import LoopCallbackProtocol  # noqa: F401  (registers the LoopCallback protocol)

try:
    from urwid.event_loop import trio_loop as _trl
except ImportError:  # pragma: no cover  (trio is optional)
    _trl = None

TRL = "urwid/event_loop/trio_loop.py:"
CS = S.opaque_sort("CancelScope")

TRIO_NOTES = (
    "trio (external, opaque): CancelScope() is a new uncancelled scope; inside a run cancel_called answers whether cancel() was called, "
    "cancel() marks it (inside or outside a run); outside a run cancel_called answers True for a cancelled scope, else False or "
    "RuntimeError; Nursery.start_soon only records the request; a nursery is truthy.  A task body runs inside `with scope:` "
    "(trio: a cancelled scope is left at the next checkpoint) -- the coroutines are outside pyvc.")

if _trl is not None:
    import trio as _trio

    ENTRY = Tup(Opaque("TrioTask"), Opaque("CancelScope"), Opaque("TaskArgs"))
    for _k in ("TrioTask", "TaskArgs"):
        PROTOCOLS[_k] = type(_k, (Protocol,), {"kind": _k, "methods": {}})()

    # ------------------------------------------------------------------------------------------------ ghost state of trio

    def _cancelled(st):
        f = st.ghost.get("cs_cancelled")
        if f is None:
            f0 = z3.Function("CancelScope.cancelled@entry", CS, z3.BoolSort())
            f = st.ghost["cs_cancelled"] = lambda h: mk_bool(f0(h.e))
        return f

    def _running(st):
        return st.ghost["loop_obj"].fields["_nursery"] is not None

    class CancelScopeProtocol(Protocol):
        """trio.CancelScope as _cancel_scope uses it; see TRIO_NOTES."""
        kind = "CancelScope"
        methods = {}

        def getattr(self, ip, st, obj, name):
            if name == "cancel":
                return OpaqueCall(obj, name, self)
            if name == "cancel_called":
                st.event("scope.cancel_called", obj)
                c = _cancelled(st)(obj)
                if _running(st):
                    return c
                if st.branch(V._zb(c)):
                    return True
                if st.fork(2) == 1:
                    raise PyRaise(SExc(RuntimeError, ("must be called from async context",), site="trio: cancel_called outside a run"))
                return False
            raise Unsupported(f"attribute {name} of a cancel scope")

        def call(self, ip, st, recv, name, args, kwargs):
            if args or kwargs:
                raise Unsupported("scope.cancel with arguments")
            st.event("scope.cancel", recv)
            old = _cancelled(st)
            st.ghost["cs_cancelled"] = lambda x: either(old(x), eq(x, recv))
            return None

    PROTOCOLS["CancelScope"] = CancelScopeProtocol()

    class SNursery(ModelObj):
        def snapshot(self):
            return self  # (no state of its own: requests are logged as events)

        def py_truth(self, st):
            return True

        def py_call(self, ip, st, name, args, kwargs):
            if name == "start_soon" and not kwargs:
                st.event("start_soon", *args)
                return None
            raise Unsupported(f"nursery.{name}")

    def _anyscope(name="anyscope"):
        return V.SOpaque("CancelScope", z3.Const(name, CS))

    def _forall_scopes(fn, name="anyscope"):
        x = _anyscope(name)
        return mk_bool(z3.ForAll([x.e], V._zb(fn(x))))

    class SPending(ModelObj):
        """`self._pending_tasks`, a list of (task, scope, args) entries, seen as the MULTISET of its entries through their
        scopes (the one component the loop's own code looks at): q(x) = an entry with scope x is queued, n = its length
        (well-formedness: q(x) => n > 0).  An entry appended by the method under verification is remembered as the
        Python value it is (`appended`).  Order is not modelled (trio starts queued tasks "soon", in no promised order)."""

        def __init__(self, st):
            nm = st.fresh_name("pending")
            fq = z3.Function(f"{nm}$queued", CS, z3.BoolSort())
            self.q = lambda x: mk_bool(fq(x.e))
            self.n = st.fresh_int("pending_len")
            st.assume(self.n >= 0)
            st.assume(self.wf())
            self.appended = []      # real entries appended by the code under verification
            self.replaced = None    # the filtered copy the content was replaced with (`[:] = ...`), if any

        def wf(self):
            return _forall_scopes(lambda x: implies(self.q(x), self.n > 0), "wfscope")

        def snapshot(self):
            c = object.__new__(SPending)
            c.q, c.n, c.appended, c.replaced = self.q, self.n, list(self.appended), self.replaced
            return c

        def py_len(self, st):
            return self.n

        def py_truth(self, st):
            return self.n > 0

        def py_iter(self, ip, st):
            raise Unsupported("iteration over _pending_tasks (only the filtering comprehension of _cancel_scope is modelled)")

        def py_call(self, ip, st, name, args, kwargs):
            if name == "append" and len(args) == 1 and not kwargs and isinstance(args[0], tuple) and len(args[0]) == 3:
                scope = args[0][1]
                oq = self.q
                self.q = lambda x: either(oq(x), eq(x, scope))
                self.n = self.n + 1
                self.appended.append(tuple(args[0]))
                st.event("pending.append", *args[0])
                return None
            raise Unsupported(f"_pending_tasks.{name}")

        def py_setitem(self, ip, st, idx, v):
            if not (isinstance(idx, Q.SSlice) and idx.start is None and idx.stop is None and idx.step is None) or not isinstance(v, SFiltered):
                raise Unsupported("store into _pending_tasks other than [:] = <its filtered copy>")
            self.q, self.n, self.replaced = v.q, v.n, v
            st.event("pending.replace", v)

    class SFiltered(ModelObj):
        """`[entry for entry in <SPending> if cond(entry)]`: the sub-multiset of the entries satisfying cond, where cond is
        evaluated FROM THE REAL AST on an entry (task, x, args) with unknown task / args (it must not depend on them).
        Multiset facts (trusted, the definition of a filter): its length m satisfies 0 <= m <= n;  m < n exactly if some
        queued entry fails cond (a witness scope `w` exists);  an entry remains only if m > 0."""

        def __init__(self, ip, st, e, fr, src):
            g = e.generators[0]
            if not (isinstance(e.elt, ast.Name) and isinstance(g.target, ast.Name) and e.elt.id == g.target.id and not g.is_async):
                raise Unsupported("comprehension over _pending_tasks other than [entry for entry in ... if ...]")
            toks = (V.SOpaque("TrioTask", z3.Const(st.fresh_name("anytask"), S.opaque_sort("TrioTask"))),
                    V.SOpaque("TaskArgs", z3.Const(st.fresh_name("anyargs"), S.opaque_sort("TaskArgs"))))

            def pred(x):
                from pyvc.interp import Frame
                cfr = Frame(fr.fn, fr.mod, parent=fr)
                cfr.self_obj = fr.self_obj
                cfr.locals[g.target.id] = (toks[0], x, toks[1])
                saved, st.capture = st.capture, []   # no path fork, no side assumption while evaluating the condition
                try:
                    r = True
                    for c in g.ifs:
                        v = ip.eval(st, c, cfr)
                        if not isinstance(v, (bool, V.SBool)):
                            raise Unsupported("filter condition on _pending_tasks that is not a plain truth value")
                        r = both(r, v)
                    if st.capture:
                        raise Unsupported("filter condition on _pending_tasks with side conditions")
                finally:
                    st.capture = saved
                if isinstance(r, V.SBool) and any(str(t.e) in str(r.e) for t in toks):
                    raise Unsupported("filter condition on _pending_tasks that looks at the task or its arguments")
                return r

            self.src, self.pred = src.snapshot(), pred
            self.q = lambda x: both(self.src.q(x), pred(x))
            self.n = st.fresh_int("filtered_len")
            w = _anyscope(st.fresh_name("dropped"))
            self.witness = w
            st.assume(both(self.n >= 0, self.n <= self.src.n))
            st.assume(_forall_scopes(lambda x: implies(both(self.src.q(x), neg(pred(x))), self.n < self.src.n), "fscope"))
            st.assume(implies(self.n < self.src.n, both(self.src.q(w), neg(pred(w)))))
            st.assume(_forall_scopes(lambda x: implies(self.q(x), self.n > 0), "wfscope"))

        def snapshot(self):
            return self

        def py_len(self, st):
            return self.n

    def _fresh_trio(st, hint):
        k = st.fork(2)
        o = Q.SObj(_trl.TrioEventLoop, dict(
            _idle_callbacks=SMap(st, "idle"), _idle_handle=st.fresh_int("idle_handle"),
            _pending_tasks=SPending(st), _nursery=None if k == 0 else SNursery()))
        st.ghost["loop_obj"] = o
        return o

    TRIO = Custom(_fresh_trio, "TrioEventLoop")
    TRIO.fields = {}

    def trio_inv(s):
        """While a nursery is open nothing is queued; no queued scope is cancelled; the queue model is well-formed."""
        st = cur()
        p = s._pending_tasks
        none_cancelled = _forall_scopes(lambda x: implies(p.q(x), neg(_cancelled(st)(x))), "invscope")
        return both(implies(s._nursery is not None, p.n == 0), none_cancelled, p.wf())

    def _setup(st, self_obj, vals):
        st.ghost["loop_obj"] = self_obj
        st.ghost["cancelled_at_entry"] = _cancelled(st)

    def _real(ip, st, f, args, kwargs):
        if f is _trio.CancelScope and not args and not kwargs:
            h = V.SOpaque("CancelScope", z3.Const(st.fresh_name("scope"), CS))
            st.assume(neg(_cancelled(st)(h)))  # a new scope
            st.event("new_scope", h)
            return h
        return NotImplemented

    def _trio_events(trace):
        return [ev for ev in trace if ev[0] in ("start_soon", "pending.append", "pending.replace", "scope.cancel", "scope.cancel_called", "new_scope")]

    def idle_untouched(old, s):
        return both(s._idle_callbacks.has is old._idle_callbacks.has, s._idle_callbacks.val is old._idle_callbacks.val, s._idle_handle == old._idle_handle)

    def queue_untouched(old, s):
        return both(s._pending_tasks.q is old._pending_tasks.q, s._pending_tasks.n is old._pending_tasks.n, s._nursery is old._nursery)

    # --------------------------------------------------------------------------------------------- alarm / watch_file

    def _start_claims(old, s, result, task_ok, args):
        """`task_ok(t)`: t is the task expected; `args`: the arguments it is to be started with."""
        st = cur()
        scopes = [ev for ev in st.trace if ev[0] == "new_scope"]
        starts = [ev for ev in st.trace if ev[0] == "start_soon"]
        apps = [ev for ev in st.trace if ev[0] == "pending.append"]
        yield "the-handle-is-a-new-scope-not-cancelled", both(len(scopes) == 1 and result is scopes[0][1], neg(_cancelled(st)(result)) if scopes else False)
        same_args = lambda got: len(got) == len(args) and all(x is y or bool(eq(x, y) is True) for x, y in zip(got, args))  # noqa: E731
        if old._nursery is not None:
            yield "running-one-task-is-handed-to-the-nursery-and-nothing-else-happens", len(starts) == 1 and not apps and len(_trio_events(st.trace)) == 2
            if len(starts) == 1:
                yield "the-loops-task-for-it-under-that-scope-with-the-delay-or-descriptor-and-the-callback", (
                    task_ok(starts[0][1]) and starts[0][2] is result and same_args(tuple(starts[0][3:])))
            yield "nothing-queued", queue_untouched(old, s)
        else:
            yield "not-running-one-entry-is-queued-and-nothing-is-asked-of-trio", len(apps) == 1 and not starts and len(_trio_events(st.trace)) == 2
            if len(apps) == 1:
                yield "the-loops-task-for-it-under-that-scope-with-the-delay-or-descriptor-and-the-callback", (
                    task_ok(apps[0][1]) and apps[0][2] is result and isinstance(apps[0][3], tuple) and same_args(apps[0][3]))
            p, po = s._pending_tasks, old._pending_tasks
            yield "queued-with-everything-queued-before", both(len(p.appended) == 1, p.replaced is None, p.n == po.n + 1,
                                                                _forall_scopes(lambda x: eq(p.q(x), either(po.q(x), eq(x, result)))))
        yield "the-nursery-and-the-idle-callbacks-are-untouched", both(s._nursery is old._nursery, idle_untouched(old, s))

    def _is_task(name, s):
        return lambda t: isinstance(t, FnVal) and t.ref.node.name == name and t.bound is s and t.ref.qualname == f"TrioEventLoop.{name}"

    @contract(TRL + "TrioEventLoop._start_task", property="C13", replayable=False)
    class trio_start_task:
        self_shape = TRIO
        params = dict(task=Opaque("TrioTask"), args=Tup(Int, Opaque("LoopCallback")))
        call_real = staticmethod(_real)
        setup = staticmethod(_setup)
        invariant = staticmethod(trio_inv)
        notes = TRIO_NOTES
        no_xcheck = "trio.CancelScope() is modelled (call_real); *args is bound as one tuple"

        def ensures(old, s, a, result):
            yield from _start_claims(old, s, result, lambda t: t is a.task, tuple(a.args))

    _NO_CONTRACT = {TRL + "TrioEventLoop._start_task": None, TRL + "TrioEventLoop._cancel_scope": None}

    @contract(TRL + "TrioEventLoop.alarm", property="C13", replayable=False)
    class trio_alarm:
        self_shape = TRIO
        params = dict(seconds=Int, callback=Opaque("LoopCallback"))
        inline = ("TrioEventLoop._start_task",)
        contract_overrides = _NO_CONTRACT  # (body executed: its contract speaks about the events of that body)
        call_real = staticmethod(_real)
        setup = staticmethod(_setup)
        invariant = staticmethod(trio_inv)
        notes = TRIO_NOTES

        def ensures(old, s, a, result):
            yield from _start_claims(old, s, result, _is_task("_alarm_task", s), (a.seconds, a.callback))

    @contract(TRL + "TrioEventLoop.watch_file", property="C13", replayable=False)
    class trio_watch_file:
        self_shape = TRIO
        params = dict(fd=Int, callback=Opaque("LoopCallback"))
        inline = ("TrioEventLoop._start_task",)
        contract_overrides = _NO_CONTRACT
        call_real = staticmethod(_real)
        setup = staticmethod(_setup)
        invariant = staticmethod(trio_inv)
        notes = TRIO_NOTES

        def ensures(old, s, a, result):
            yield from _start_claims(old, s, result, _is_task("_watch_task", s), (a.fd, a.callback))

    # ----------------------------------------------------------------------------- remove_alarm / remove_watch_file

    def _comprehension(ip, st, e, fr):
        """`[entry for entry in self._pending_tasks if <cond>]` -> SFiltered (cond evaluated from the real AST)."""
        if len(e.generators) != 1:
            return NotImplemented
        it = st.force(ip.eval(st, e.generators[0].iter, fr))
        if not isinstance(it, SPending):
            return NotImplemented
        return SFiltered(ip, st, e, fr, it)

    def _removal_claims(old, s, scope, result):
        st = cur()
        before, after = st.ghost["cancelled_at_entry"], _cancelled(st)
        cancels = [ev for ev in st.trace if ev[0] == "scope.cancel"]
        po, pn = old._pending_tasks, s._pending_tasks
        yield "answers-True-or-False", result is True or result is False or isinstance(result, V.SBool)
        yield "only-that-scope-is-ever-cancelled", both(len(cancels) <= 1, all(ev[1] is scope for ev in cancels))
        other = V.SOpaque("CancelScope", z3.Const("anyscope", CS))
        yield "no-other-scope-is-cancelled", mk_bool(z3.ForAll([other.e], V._zb(implies(neg(eq(other, scope)), eq(after(other), before(other))))))
        yield "never-success-for-a-scope-cancelled-before", implies(before(scope), eq(result, False))
        if old._nursery is not None:
            yield "running-that-very-scope-is-cancelled-once-so-the-task-never-runs-its-callback-again", both(len(cancels) == 1, after(scope))
            yield "running-reports-success-exactly-if-it-was-not-cancelled-before", eq(result, neg(before(scope)))
            yield "the-queue-is-untouched", queue_untouched(old, s)
        else:
            yield "not-running-a-queued-task-is-reported-removed", implies(po.q(scope), eq(result, True))
            yield "no-entry-with-that-scope-stays-queued-so-the-run-never-starts-it", neg(pn.q(scope))
            yield "every-other-queued-task-stays-queued-and-none-is-added", implies(neg(eq(other, scope)), eq(pn.q(other), po.q(other)))
            if pn.replaced is not None:
                yield "the-queue-got-shorter", both(pn.n < po.n, po.q(scope))
            else:
                yield "otherwise-the-queue-is-untouched", both(queue_untouched(old, s), neg(po.q(scope)))
        yield "the-idle-callbacks-are-untouched", both(idle_untouched(old, s), s._nursery is old._nursery)
        yield from again_fails(st, scope, result)

    def again_fails(st, scope, result):
        # "the removal reports success and removing it again reports failure": inside a run the next removal answers
        # `not scope.cancel_called`, so a removal that answered True must leave the scope cancelled.
        # (Before /repo 0fe9cb0 this failed: loop = TrioEventLoop(); h = loop.alarm(0.01, cb); loop.remove_alarm(h) -> True
        # (dropped from the queue, scope NOT cancelled); later, from a callback inside loop.run(): loop.remove_alarm(h)
        # -> True again; same for watch_file / remove_watch_file.  Replayed with trio 0.34.)
        yield "a-removal-that-reported-success-leaves-the-scope-cancelled-so-removing-it-again-reports-failure", implies(eq(result, True), _cancelled(st)(scope))

    @contract(TRL + "TrioEventLoop._cancel_scope", property="C13", replayable=False)
    class trio_cancel_scope:
        self_shape = TRIO
        params = dict(scope=Opaque("CancelScope"))
        comprehension = staticmethod(_comprehension)
        setup = staticmethod(_setup)
        invariant = staticmethod(trio_inv)
        notes = TRIO_NOTES

        def ensures(old, s, a, result):
            yield from _removal_claims(old, s, a.scope, result)

    for _name in ("remove_alarm", "remove_watch_file"):
        @contract(TRL + f"TrioEventLoop.{_name}", property="C13", replayable=False)
        class trio_remove:
            self_shape = TRIO
            params = dict(handle=Opaque("CancelScope"))
            inline = ("TrioEventLoop._cancel_scope",)
            contract_overrides = _NO_CONTRACT
            comprehension = staticmethod(_comprehension)
            setup = staticmethod(_setup)
            invariant = staticmethod(trio_inv)
            notes = TRIO_NOTES

            def ensures(old, s, a, result):
                yield from _removal_claims(old, s, a.handle, result)

    # ----------------------------------------------------------------------------------- enter_idle / remove_enter_idle

    @contract(TRL + "TrioEventLoop.enter_idle", property="C13", replayable=False)
    class trio_enter_idle:
        self_shape = TRIO
        params = dict(callback=Opaque("LoopCallback"))
        result = Int
        setup = staticmethod(_setup)
        invariant = staticmethod(trio_inv)

        def requires(s, a):
            k = z3.Int("qk")  # handles are issued increasingly: stored ones are not above the counter
            return mk_bool(z3.ForAll([k], z3.Implies(V._zb(s._idle_callbacks.has(V.SInt(k))), k <= V._z(s._idle_handle))))

        def ensures(old, s, a, result):
            yield "fresh-handle", both(neg(old._idle_callbacks.has(result)), result == old._idle_handle + 1, s._idle_handle == result)
            yield "registered", both(s._idle_callbacks.has(result), eq(s._idle_callbacks.val(result), a.callback))
            k = V.SInt(z3.Int("anyh"))
            yield "others-untouched", mk_bool(z3.ForAll([k.e], V._zb(implies(neg(eq(k, result)), both(eq(s._idle_callbacks.has(k), old._idle_callbacks.has(k)), eq(s._idle_callbacks.val(k), old._idle_callbacks.val(k)))))))
            yield "still-ordered-below-the-counter", mk_bool(z3.ForAll([k.e], V._zb(implies(s._idle_callbacks.has(k), k <= s._idle_handle))))
            yield "tasks-and-scopes-untouched", both(queue_untouched(old, s), not _trio_events(cur().trace))

    @contract(TRL + "TrioEventLoop.remove_enter_idle", property="C13", replayable=False)
    class trio_remove_enter_idle:
        self_shape = TRIO
        params = dict(handle=Int)
        result = Bool
        setup = staticmethod(_setup)
        invariant = staticmethod(trio_inv)

        def ensures(old, s, a, result):
            yield "reports-whether-it-was-registered", eq(result, old._idle_callbacks.has(a.handle))
            yield "no-longer-registered-so-removing-it-again-reports-failure", neg(s._idle_callbacks.has(a.handle))
            k = V.SInt(z3.Int("anyh"))
            yield "others-untouched", mk_bool(z3.ForAll([k.e], V._zb(implies(neg(eq(k, a.handle)), both(eq(s._idle_callbacks.has(k), old._idle_callbacks.has(k)), implies(old._idle_callbacks.has(k), eq(s._idle_callbacks.val(k), old._idle_callbacks.val(k))))))))
            yield "counter-and-tasks-untouched", both(s._idle_handle == old._idle_handle, queue_untouched(old, s), not _trio_events(cur().trace))
