"""C17 / C02 / C03 — clipping a text row never shifts an attribute onto a neighbouring character:
`urwid/util.py:trim_text_attr_cs`, the one place where the byte text of a canvas row and its two run-length lists
(display attributes, character sets) are cut to a range of screen columns (TextCanvas.content with trim_left / cols,
i.e. every clipped view of a text canvas: CompositeCanvas trims, the part of a widget beside an Overlay, clipped
Columns / Padding).

Statement-derived clauses (C17: "clipping ... never shift[s] an attribute onto a neighbouring character"):
  * the returned attribute and charset run lists are exactly as long as the returned text;
  * every kept byte keeps its own attribute and its own charset (position pad_left + p of the result is position
    spos + p of the row, for text, attribute and charset alike);
  * a double-width character cut by the left edge is shown as ONE space that still belongs to that character: it
    carries the attribute of the character that ends at spos (byte spos - 1), never that of the character kept
    next to it; a double-width character cut by the right edge likewise (the byte at epos);  the stand-in space is
    in the default charset (None), as every double-width character is.

The cut itself (spos, epos, pad_left, pad_right) is calc_trim_text's; its contract in contracts/C11_width.py is written
over `str` texts.  Canvas rows are `bytes`, so the byte-level facts are proved here on the real body of calc_trim_text
for a bytes text (alias `bytes`, utf-8 and single-byte modes; the double-byte CJK mode is decided by the bounded
checks, as for calc_text_pos) and handed to trim_text_attr_cs through `contract_overrides`."""
from pyvc import seqs as Q
from pyvc import values as V
from pyvc.api import *
from pyvc.text import SText, chr_of, char_width

from contracts import C02_rle as R
from contracts.C02_rle import RLE1, RUNS, aeq, all_runs_at_least, at, total, unchanged
from contracts.C11_width import COL, ENC, at_boundary, byte_at, tlen

UT = "urwid/util.py:"


def forall(lo, hi, fn):  # noqa: F811 - no "is the range empty" solver query (see pyvc.values.forall)
    return V.forall(lo, hi, fn, check_empty=False)


def _utf8(a):
    return a.g__byte_encoding == "utf8"


def line_width(a, t, lo, hi):
    """Screen columns of bytes lo..hi of a row: the column difference in utf-8 mode, one column per byte otherwise."""
    return ite(_utf8(a), COL(t, hi) - COL(t, lo), hi - lo)


@contract(UT + "calc_trim_text", property=("C17", "C02", "C03"), alias="bytes", globals_=ENC, replayable=False)
class calc_trim_text_bytes:
    """calc_trim_text on a bytes line (what canvases hold).  Same clauses as the str contract of contracts/C11_width.py with
    the column function of the byte text, plus the two facts its callers need to name "the character that was cut":
    a left pad means there IS a character before the kept slice, a right pad that there is one after it."""

    params = dict(text=Text("bytes"), start_offs=Int, end_offs=Int, start_col=Int, end_col=Int)
    result = Tup(Int, Int, Int, Int)
    raises = ()
    deterministic = True

    def requires(a):
        t = a.text
        return both(0 <= a.start_offs, a.start_offs <= a.end_offs, a.end_offs <= tlen(t), neg(a.g__byte_encoding == "wide"),
                    implies(_utf8(a), at_boundary(t, a.end_offs)),  # the line ends between two characters
                    0 <= a.start_col, a.start_col < a.end_col, a.end_col <= line_width(a, t, a.start_offs, a.end_offs))

    def ensures(a, result):
        t = a.text
        spos, pos, pl, pr = result
        yield "a-slice-of-the-line", both(a.start_offs <= spos, spos <= pos, pos <= a.end_offs)
        yield "flags", both(either(pl == 0, pl == 1), either(pr == 0, pr == 1))
        yield "total-width-is-the-requested-range", line_width(a, t, spos, pos) + pl + pr == a.end_col - a.start_col
        yield "kept-slice-starts-no-later-than-one-column-after-the-left-edge", line_width(a, t, a.start_offs, spos) <= a.start_col + pl
        yield "left-pad-has-the-cut-character-before-the-slice", implies(pl == 1, spos > a.start_offs)
        yield "right-pad-has-the-cut-character-after-the-slice", implies(pr == 1, pos < a.end_offs)
        yield "single-byte-text-is-never-padded", implies(neg(_utf8(a)), both(pl == 0, pr == 0))


# ---- callee views of rle_prepend_modify / rle_append_modify without the case split on run merging
#
# The contracts of contracts/C02_rle.py decide with a Python `if` whether the new run was merged into its neighbour
# (a statement about the run STRUCTURE); at a call site that forks the caller's path three ways per call.  What
# trim_text_attr_cs needs is the expansion view only, so the same expansion-view clauses are verified here against the
# real bodies under an alias of their own (nothing is taken on trust) and handed over through `contract_overrides`.


@contract(UT + "rle_prepend_modify", property=("C17", "C02"), alias="expansion-view", replayable=False)
class prepend_expansion_view:
    params = R.rle_prepend_modify.params
    modifies_args = ("rle",)
    modifies_arg_shape = R.rle_prepend_modify.modifies_arg_shape
    raises = ()
    setup = R.rle_prepend_modify.setup

    def ensures(a, result):
        old, new = a.old.rle, a.rle
        at_, r = a.a_r
        L = total(old)
        yield "returns-none", result is None
        yield "length-grows-by-the-run", total(new) == L + r
        yield "new-positions-carry-the-attribute", forall(0, r, lambda p: aeq(at(new, p), at_))
        yield "old-positions-move-right-with-their-attribute", forall(0, L, lambda p: aeq(at(new, r + p), at(old, p)))
        # the same fact read from the new list's side (a caller that asks about position q of the new list finds it by
        # matching at(new, q), without arithmetic inside the pattern)
        yield "positions-after-the-new-run-come-from-the-old-list", forall(r, r + L, lambda q: aeq(at(new, q), at(old, q - r)))
        yield "runs-stay-positive", implies(both(r >= 1, all_runs_at_least(old, 1)), all_runs_at_least(new, 1))


@contract(UT + "rle_append_modify", property=("C17", "C02"), alias="expansion-view", replayable=False)
class append_expansion_view:
    params = R.rle_append_modify.params
    modifies_args = ("rle",)
    modifies_arg_shape = R.rle_append_modify.modifies_arg_shape
    raises = ()
    setup = R.rle_append_modify.setup

    def ensures(a, result):
        old, new = a.old.rle, a.rle
        at_, r = a.a_r
        L = total(old)
        yield "returns-none", result is None
        yield "length-grows-by-the-run", total(new) == L + r
        yield "old-positions-keep-their-attribute", forall(0, L, lambda p: aeq(at(new, p), at(old, p)))
        yield "new-positions-carry-the-attribute", forall(L, L + r, lambda p: aeq(at(new, p), at_))
        yield "runs-stay-positive", implies(both(r >= 1, all_runs_at_least(old, 1)), all_runs_at_least(new, 1))


def _cut(a):
    t = a.text
    return calc_trim_text_bytes.spec_value(None, text=t, start_offs=0, end_offs=tlen(t), start_col=a.start_col, end_col=a.end_col)


def _single_run_witness(st):
    """Witness scenario for the vacuity guards (pyvc.engine.State.cover; `pc AND witness` satisfiable implies `pc`
    satisfiable): one attribute for the whole row and one charset."""
    a = st.ex.inputs or {}
    out = [R.n_runs(a[k]) == 1 for k in ("attr", "cs") if k in a]
    return [c for c in out if not isinstance(c, bool)]


@contract(UT + "trim_text_attr_cs", property=("C17", "C02", "C03"), globals_=ENC, replayable=False, branch_timeout_ms=R.QBT, cover_witness=_single_run_witness,
          contract_overrides={UT + "calc_trim_text": calc_trim_text_bytes, UT + "rle_prepend_modify": prepend_expansion_view, UT + "rle_append_modify": append_expansion_view})
class trim_text_attr_cs:
    """Precondition (TextCanvas.content, the only caller): the two run lists describe exactly the bytes of the row
    (rle_len == len(text)), all runs positive, and the column range lies inside the row."""

    params = dict(text=Text("bytes"), attr=RLE1, cs=RLE1, start_col=Int, end_col=Int)
    result = Tup(Text("bytes"), RUNS(None), RUNS(None))
    raises = ()

    def requires(a):
        t = a.text
        n = tlen(t)
        return both(neg(a.g__byte_encoding == "wide"), all_runs_at_least(a.attr, 1), all_runs_at_least(a.cs, 1),
                    total(a.attr) == n, total(a.cs) == n,
                    0 <= a.start_col, a.start_col < a.end_col, a.end_col <= line_width(a, t, 0, n))

    def ensures(a, result):
        t = a.text
        rt, ra, rc = result
        spos, epos, pl, pr = _cut(a)
        n = epos - spos
        yield "text-is-pad-slice-pad", both(tlen(rt) == pl + n + pr, forall(0, n, lambda p: byte_at(rt, pl + p) == byte_at(t, spos + p)),
                                            implies(pl == 1, byte_at(rt, 0) == 32), implies(pr == 1, byte_at(rt, pl + n) == 32))
        yield "attribute-runs-as-long-as-the-text", total(ra) == tlen(rt)
        yield "charset-runs-as-long-as-the-text", total(rc) == tlen(rt)
        yield "kept-characters-keep-their-attribute", forall(0, n, lambda p: aeq(at(ra, pl + p), at(a.attr, spos + p)))
        yield "kept-characters-keep-their-charset", forall(0, n, lambda p: aeq(at(rc, pl + p), at(a.cs, spos + p)))
        yield "left-stand-in-space-carries-the-attribute-of-the-cut-character", implies(pl == 1, aeq(at(ra, 0), at(a.attr, spos - 1)))
        yield "right-stand-in-space-carries-the-attribute-of-the-cut-character", implies(pr == 1, aeq(at(ra, pl + n), at(a.attr, epos)))
        yield "stand-in-spaces-are-in-the-default-charset", both(implies(pl == 1, opt_isnone(at(rc, 0))), implies(pr == 1, opt_isnone(at(rc, pl + n))))
        # (what rle_product, the next step of TextCanvas.content, needs of the two lists: a zero-length run would end the product early)
        yield "no-zero-length-run", both(all_runs_at_least(ra, 1), all_runs_at_least(rc, 1))
        yield "operands-unchanged", both(unchanged(a, "attr"), unchanged(a, "cs"))
