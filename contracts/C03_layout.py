"""C03 — urwid/text_layout.py: the layout structure helpers under contract.

A layout is a list of lines; a line is a list of segments, each one of
    (columns, offset | None)            inserted spaces; with offset None at the START of a line: the line's shift
    (columns, start offset, end offset) a piece of the text
    (columns, offset, bytes)            inserted text
Model: a line is a list whose elements are of one of these three shapes (a tag per element); the list carries the
prefix sum COLS(k) of the first components (`measure`), so "the screen columns of a line" needs no induction inside an
obligation.
"""
import z3

from pyvc import seqs as Q
from pyvc import shapes as S
from pyvc import values as V
from pyvc.api import *
from pyvc.api import PROTOCOLS
from pyvc.protocol import Protocol
from pyvc.seqs import LRef, SSeq
from pyvc.values import SCases, SOpaque, cur, mk_bool, mk_int

from urwid import text_layout as _tl

TL = "urwid/text_layout.py:"
PROTOCOLS.setdefault("InsertBytes", type("InsertBytesProtocol", (Protocol,), {"kind": "InsertBytes", "methods": {}})())

SPACES = Tup(Int, Opt(Int))
PIECE = Tup(Int, Int, Int)
INSERT = Tup(Int, Int, Opaque("InsertBytes"))
SEG = Union(SPACES, PIECE, INSERT)


def seg_cols(seg):
    """First component of a segment (whatever its shape), as a term."""
    if isinstance(seg, SCases):
        e = None
        for c, v in reversed(seg.cases):
            e = v[0] if e is None else ite(mk_bool(c), v[0], e)
        return e
    return seg[0]


LINE = ListOf(SEG, measure=seg_cols)


def _seq(r):
    return r.seq if isinstance(r, LRef) else r


def nsegs(line):
    return Q.seq_len(_seq(line))


def COLS(line, k):
    """columns of the first k segments"""
    return Q.to_sseq(_seq(line)).psum(k)


def is_shift(seg):
    """`len(seg) == 2 and seg[1] is None` as a formula"""
    if isinstance(seg, SCases):
        return either(*[both(mk_bool(c), is_shift(v)) for c, v in seg.cases])
    return len(seg) == 2 and opt_isnone(seg[1])


def shifted(line):
    """the line starts with a shift segment"""
    n = nsegs(line)
    if isinstance(n, int) and n == 0:
        return False
    return both(n >= 1, is_shift(Q.seq_get(_seq(line), 0)))


def shift_of(line):
    return ite(shifted(line), seg_cols(Q.seq_get(_seq(line), 0)), 0)


def width_of(line):
    """Screen columns of a line, not counting its shift."""
    return COLS(line, nsegs(line)) - shift_of(line)


def _lw_loop(v):
    i = v.i_
    segs = v.segs
    start = ite(shifted(segs), 1, 0)
    yield "sum-of-the-segments-so-far", v.sc == COLS(segs, start + i) - COLS(segs, start)


@contract(TL + "line_width", property="C03", replayable=False)
class line_width:
    params = dict(segs=LINE)
    result = Int
    raises = ()

    def ensures(a, result):
        yield "columns-of-all-segments-but-the-shift", result == width_of(a.segs)

    loops = {0: Loop(invariant=_lw_loop)}


def any_index(hint):
    """An arbitrary integer (fresh per obligation family): `P(j)` proved for it is `forall j. P(j)`."""
    return cur().fresh_int(hint)


def seg_at(line, j):
    return Q.seq_get(_seq(line), j)


def seg_eq(x, y):
    return V.struct_eq(x, y)


@contract(TL + "shift_line", property="C03", replayable=False)
class shift_line:
    params = dict(segs=LINE, amount=Int)
    result = LINE
    raises = ()

    def ensures(a, result):
        had = shifted(a.segs)
        total = shift_of(a.segs) + a.amount
        k0 = ite(had, 1, 0)            # where the line proper starts in segs
        k1 = ite(total == 0, 0, 1)     # ... and in the result
        n = nsegs(a.segs)
        yield "length", nsegs(result) == n - k0 + k1
        yield "shift-is-the-old-shift-plus-the-amount", implies(neg(total == 0), both(is_shift(seg_at(result, 0)), seg_cols(seg_at(result, 0)) == total))
        yield "no-shift-segment-when-it-cancels", implies(total == 0, nsegs(result) == n - k0)
        # "for all j" as an arbitrary index (a quantified equality of tagged unions sends z3 into its quantifier engine
        # for good; nothing under contract calls shift_line, so the instance form loses nothing)
        j = any_index("j")
        yield "line-proper-kept-in-order", implies(both(0 <= j, j < n - k0), seg_eq(seg_at(result, k1 + j), seg_at(a.segs, k0 + j)))
        yield "columns-add-up", COLS(result, nsegs(result)) == COLS(a.segs, n) + a.amount


# ------------------------------------------------------------------------------------------------ alignment

from pyvc.values import arbitrary  # noqa: E402

ALIGN = Enum("left", "center", "right", "<anything else>")
LAYOUT_LINES = ListOf(LINE)
STL = Obj(_tl.StandardTextLayout, {})


def line_at(layout, i):
    return Q.seq_get(_seq(layout), i)


def same_line(x, y, j):
    """x and y are the same list of segments (lengths, and the segment at the arbitrary index j)."""
    return both(nsegs(x) == nsegs(y), implies(both(0 <= j, j < nsegs(x)), seg_eq(seg_at(x, j), seg_at(y, j))))


def prefixed(x, pad, y, j):
    """x == [(pad, None), *y]"""
    return both(nsegs(x) == nsegs(y) + 1, is_shift(seg_at(x, 0)), seg_cols(seg_at(x, 0)) == pad,
                implies(both(0 <= j, j < nsegs(y)), seg_eq(seg_at(x, j + 1), seg_at(y, j))))


def aligned(out_line, in_line, width, align, j):
    """The statement's alignment clause for one line: pad by exactly 0 / ceil(spare / 2) / spare columns; a line of
    full width is left alone."""
    spare = width - width_of(in_line)
    half_up = (spare + 1) // 2
    pad = ite(align == "left", 0, ite(align == "right", spare, half_up))
    return both(implies(pad == 0, same_line(out_line, in_line, j)), implies(neg(pad == 0), prefixed(out_line, pad, in_line, j)))


def _al_loop(v):
    i = v.i_
    k, j = arbitrary("line"), arbitrary("segment")
    out = v.out
    yield "one-line-out-per-line-in", Q.seq_len(_seq(out)) == i
    so = _seq(out)
    if isinstance(so, (tuple, list)) and not so:
        return  # (no line yet)
    yield "lines-so-far-aligned", implies(both(0 <= k, k < i), aligned(line_at(out, k), line_at(v.segs, k), v.width, v.align, j))


def some_line_needs_padding(a):
    """(what makes align_layout look at the alignment at all)"""
    return neg(forall(0, Q.seq_len(_seq(a.segs)), lambda i: width_of(line_at(a.segs, i)) == a.width))


@contract(TL + "StandardTextLayout.align_layout", property="C03", replayable=False)
class align_layout:
    self_shape = STL
    params = dict(text=Opaque("TextVal"), width=Int, segs=LAYOUT_LINES, wrap=Opaque("LayoutMode"), align=ALIGN)
    result = LAYOUT_LINES
    raises = (ValueError,)
    modifies = ()

    def ensures(old, s, a, result):
        k, j = arbitrary("line"), arbitrary("segment")
        n = Q.seq_len(_seq(a.segs))
        yield "one-line-out-per-line-in", Q.seq_len(_seq(result)) == n
        yield "pads-by-exactly-0-half-rounded-up-or-all-of-the-spare-columns", implies(both(0 <= k, k < n), aligned(line_at(result, k), line_at(a.segs, k), a.width, a.align, j))
        yield "full-width-lines-untouched", implies(both(0 <= k, k < n, width_of(line_at(a.segs, k)) == a.width), same_line(line_at(result, k), line_at(a.segs, k), j))

    def on_raise(old, s, a, exc):
        yield "only-for-an-unknown-alignment", a.align == "<anything else>"

    loops = {0: Loop(invariant=_al_loop, shapes={"out": LAYOUT_LINES})}


# ------------------------------------------------------------------------------------------------ pack

_MAXW = z3.Function("C03.MAXW", z3.IntSort(), z3.IntSort())  # running maximum of 0 and the first k line widths (one layout per obligation)


def MAXW(k):
    return mk_int(_MAXW(V._z(k)))


def maxw_unfold(layout, i):
    """Definition of MAXW at line i (0 <= i < n): MAXW(0) = 0, MAXW(i+1) = max(MAXW(i), width of line i); and the
    instance of lemma `running-max-monotone`: MAXW(i) <= MAXW(i+1) <= MAXW(n)."""
    st = cur()
    n = Q.seq_len(_seq(layout))
    zi, zn = V._z(i), V._z(n)
    ok = z3.And(zi >= 0, zi < zn)
    st.assume(_MAXW(z3.IntVal(0)) == 0)
    st.assume(_MAXW(zn) >= 0)
    so = _seq(layout)
    if isinstance(so, (tuple, list)) and not so:
        return
    w = V._z(width_of(line_at(layout, i)))
    st.assume(z3.Implies(ok, _MAXW(zi + 1) == z3.If(_MAXW(zi) >= w, _MAXW(zi), w)))
    st.assume(z3.Implies(ok, z3.And(_MAXW(zi) <= _MAXW(zi + 1), _MAXW(zi + 1) <= _MAXW(zn))))


@lemma("running-max-monotone", property="C03")
class running_max_monotone:
    """P(b) := M(a) <= M(b) for a <= b, where M(b+1) = max(M(b), t): base b = a; step from the defining equation."""

    params = dict(a=Int, b=Int, t=Int, ma=Int, mb=Int)

    def requires(x):
        return both(x.a <= x.b, x.ma <= x.mb)

    def claim(x):
        yield "base", x.ma <= x.ma
        yield "step", x.ma <= imax(x.mb, x.t)


def _pack_loop(v):
    i = v.i_
    k = arbitrary("line")
    maxw_unfold(v.layout, i)
    maxw_unfold(v.layout, i - 1)
    yield "widest-so-far", v.maxwidth == MAXW(i)
    yield "below-maxcol-so-far", either(v.maxwidth < v.maxcol, v.maxwidth == 0)
    yield "no-line-so-far-reaches-maxcol", implies(both(0 <= k, k < i), width_of(line_at(v.layout, k)) < v.maxcol)


@contract(TL + "StandardTextLayout.pack", property="C03", replayable=False)
class stl_pack:
    self_shape = STL
    params = dict(maxcol=Int, layout=LAYOUT_LINES)
    result = Int
    raises = (ValueError,)
    modifies = ()

    def ensures(old, s, a, result):
        n = Q.seq_len(_seq(a.layout))
        k = arbitrary("line")
        maxw_unfold(a.layout, k)
        # (for maxcol <= 0 "capped" and "widest" part ways: 0 is returned when every line is narrower than maxcol)
        yield "the-widest-line-capped-at-maxcol", implies(a.maxcol >= 1, result == ite(MAXW(n) >= a.maxcol, a.maxcol, MAXW(n)))
        yield "every-line-fits-unless-capped", implies(both(0 <= k, k < n), either(result == a.maxcol, width_of(line_at(a.layout, k)) <= result))
        yield "never-more-than-offered", implies(a.maxcol >= 0, both(0 <= result, result <= a.maxcol))

    def on_raise(old, s, a, exc):
        yield "only-for-an-empty-layout", Q.seq_len(_seq(a.layout)) == 0

    loops = {0: Loop(invariant=_pack_loop)}


# ------------------------------------------------------------------------------------------------ layout(): the fallback

TEXTVAL = Opaque("TextVal")
WRAPMODE = Opaque("LayoutMode")
for _k in ("TextVal", "LayoutMode"):
    PROTOCOLS.setdefault(_k, type(_k + "Protocol", (Protocol,), {"kind": _k, "methods": {}})())
_CANNOT = z3.Function("C03.cannot_display", S.opaque_sort("TextVal"), z3.IntSort(), S.opaque_sort("LayoutMode"), z3.BoolSort())


def cannot_display(text, width, wrap):
    """calculate_text_segments(text, width, wrap) raises CanNotDisplayText (a character wider than the width, in a
    wrapping mode): an uninterpreted predicate of the arguments here; WHEN it holds is the bounded check's
    undisplayable-empty-line."""
    return mk_bool(_CANNOT(text.e, V._z(width), wrap.e))


@contract(TL + "StandardTextLayout.calculate_text_segments", property=(), assumed=True,
          notes="the wrapping algorithm itself (any / space / clip / ellipsis): decided by the bounded stand-in of C03 on every short "
                "text (shown-once-in-order, hidden-only-permitted, fits-width, any-fills-line, space-breaks-at-spaces ...). Here: it "
                "returns some list of lines or raises CanNotDisplayText; the returned lines are logged in the ghost trace")
class calculate_text_segments:
    self_shape = STL
    params = dict(text=TEXTVAL, width=Int, wrap=WRAPMODE)
    result = LAYOUT_LINES
    raises = (_tl.CanNotDisplayText,)
    raises_iff = {_tl.CanNotDisplayText: lambda s, a: cannot_display(a.text, a.width, a.wrap)}
    log_event = "calculate_text_segments"
    modifies = ()

    def effects(old, s, a, result):
        s.trace.append(("segments", result))


@contract(TL + "StandardTextLayout.layout", property="C03", replayable=False)
class stl_layout:
    self_shape = STL
    params = dict(text=TEXTVAL, width=Int, align=ALIGN, wrap=WRAPMODE)
    result = LAYOUT_LINES
    raises = (ValueError,)  # align_layout's, for an alignment that is none of left / center / right
    modifies = ()

    def ensures(old, s, a, result):
        k, j = arbitrary("line"), arbitrary("segment")
        segs = [e[1] for e in s.trace if e[0] == "segments"]
        yield "segments-computed-once-at-most", len(segs) <= 1
        if not segs:
            yield "only-when-the-text-cannot-be-displayed", cannot_display(a.text, a.width, a.wrap)
            sr = _seq(result)
            none_at_all = isinstance(sr, (tuple, list)) and not sr
            yield "one-empty-line-rather-than-an-error", False if none_at_all else both(Q.seq_len(sr) == 1, nsegs(line_at(result, 0)) == 0)
            return
        n = Q.seq_len(_seq(segs[0]))
        yield "displayable", neg(cannot_display(a.text, a.width, a.wrap))
        yield "one-line-per-line-of-segments", Q.seq_len(_seq(result)) == n
        yield "each-line-aligned", implies(both(0 <= k, k < n), aligned(line_at(result, k), line_at(segs[0], k), a.width, a.align, j))

    def on_raise(old, s, a, exc):
        yield "only-for-an-unknown-alignment", a.align == "<anything else>"


# ------------------------------------------------------------------------------------------------ LayoutSegment

PROTOCOLS["InsertBytes"].isinstance = lambda ip, st, obj, cls: issubclass(bytes, cls)
SEGOBJ = Obj(_tl.LayoutSegment, dict(sc=Int, offs=Opt(Int), text=Opt(Opaque("InsertBytes")), end=Opt(Int)))
ANYSEG = Union(SPACES, PIECE, INSERT, Tup(Int), Tup(Int, Int, Int, Int))


def seg_rejected(seg):
    """What a line segment must not be: of another arity than 2 or 3; a text piece or an insert of no or negative
    columns; spaces with an offset and a negative count (a negative count is a shift: no offset)."""
    if len(seg) not in (2, 3):
        return True
    if len(seg) == 3:
        return seg[0] <= 0
    return both(neg(opt_isnone(seg[1])), seg[0] < 0)


@contract(TL + "LayoutSegment.__init__", property="C03", replayable=False)
class layout_segment_init:
    self_shape = SEGOBJ
    params = dict(seg=ANYSEG)
    raises = (ValueError,)
    modifies = ("sc", "offs", "text", "end")

    def ensures(old, s, a, result):
        seg = a.seg
        yield "accepted-only-if-well-formed", neg(seg_rejected(seg))
        yield "columns-and-offset-taken-over", both(s.sc == seg[0], opt_eq(s.offs, seg[1]))
        if len(seg) == 3 and isinstance(seg[2], SOpaque):
            yield "insert-keeps-its-bytes", both(neg(opt_isnone(s.text)), val(s.text).e == seg[2].e if isinstance(val(s.text), SOpaque) else False, opt_isnone(s.end))
        elif len(seg) == 3:
            yield "piece-keeps-its-end", both(opt_isnone(s.text), neg(opt_isnone(s.end)), val(s.end) == seg[2] if val(s.end) is not None else False)
        else:
            yield "spaces-have-neither-text-nor-end", both(opt_isnone(s.text), opt_isnone(s.end))

    def on_raise(old, s, a, exc):
        yield "only-for-a-malformed-segment", seg_rejected(a.seg)
