"""C03 — urwid/text_layout.py: the layout structure helpers under contract.

A layout is a list of lines; a line is a list of segments, each one of
    (columns, offset | None)            inserted spaces; with offset None at the START of a line: the line's shift
    (columns, start offset, end offset) a piece of the text
    (columns, offset, bytes)            inserted text
Model: a line is a list whose elements are of one of these three shapes (a tag per element); the list carries the
prefix sum COLS(k) of the first components (`measure`), so "the screen columns of a line" needs no induction inside an
obligation.
"""
import z3

from pyvc import seqs as Q
from pyvc import shapes as S
from pyvc import values as V
from pyvc.api import *
from pyvc.api import PROTOCOLS
from pyvc.protocol import Protocol
from pyvc.seqs import LRef, SSeq
from pyvc.values import SCases, SOpaque, cur, mk_bool, mk_int

from urwid import text_layout as _tl

TL = "urwid/text_layout.py:"
PROTOCOLS.setdefault("InsertBytes", type("InsertBytesProtocol", (Protocol,), {"kind": "InsertBytes", "methods": {}})())

SPACES = Tup(Int, Opt(Int))
PIECE = Tup(Int, Int, Int)
INSERT = Tup(Int, Int, Opaque("InsertBytes"))
SEG = Union(SPACES, PIECE, INSERT)


def seg_cols(seg):
    """First component of a segment (whatever its shape), as a term."""
    if isinstance(seg, SCases):
        e = None
        for c, v in reversed(seg.cases):
            e = v[0] if e is None else ite(mk_bool(c), v[0], e)
        return e
    return seg[0]


LINE = ListOf(SEG, measure=seg_cols)


def _seq(r):
    return r.seq if isinstance(r, LRef) else r


def nsegs(line):
    return Q.seq_len(_seq(line))


def COLS(line, k):
    """columns of the first k segments"""
    return Q.to_sseq(_seq(line)).psum(k)


def is_shift(seg):
    """`len(seg) == 2 and seg[1] is None` as a formula"""
    if isinstance(seg, SCases):
        return either(*[both(mk_bool(c), is_shift(v)) for c, v in seg.cases])
    return len(seg) == 2 and opt_isnone(seg[1])


def shifted(line):
    """the line starts with a shift segment"""
    n = nsegs(line)
    if isinstance(n, int) and n == 0:
        return False
    return both(n >= 1, is_shift(Q.seq_get(_seq(line), 0)))


def shift_of(line):
    return ite(shifted(line), seg_cols(Q.seq_get(_seq(line), 0)), 0)


def width_of(line):
    """Screen columns of a line, not counting its shift."""
    return COLS(line, nsegs(line)) - shift_of(line)


def _lw_loop(v):
    i = v.i_
    segs = v.segs
    start = ite(shifted(segs), 1, 0)
    yield "sum-of-the-segments-so-far", v.sc == COLS(segs, start + i) - COLS(segs, start)


@contract(TL + "line_width", property="C03", replayable=False)
class line_width:
    params = dict(segs=LINE)
    result = Int
    raises = ()

    def ensures(a, result):
        yield "columns-of-all-segments-but-the-shift", result == width_of(a.segs)

    loops = {0: Loop(invariant=_lw_loop)}


def any_index(hint):
    """An arbitrary integer (fresh per obligation family): `P(j)` proved for it is `forall j. P(j)`."""
    return cur().fresh_int(hint)


def seg_at(line, j):
    return Q.seq_get(_seq(line), j)


def seg_eq(x, y):
    return V.struct_eq(x, y)


@contract(TL + "shift_line", property="C03", replayable=False)
class shift_line:
    params = dict(segs=LINE, amount=Int)
    result = LINE
    raises = ()

    def ensures(a, result):
        had = shifted(a.segs)
        total = shift_of(a.segs) + a.amount
        k0 = ite(had, 1, 0)            # where the line proper starts in segs
        k1 = ite(total == 0, 0, 1)     # ... and in the result
        n = nsegs(a.segs)
        yield "length", nsegs(result) == n - k0 + k1
        yield "shift-is-the-old-shift-plus-the-amount", implies(neg(total == 0), both(is_shift(seg_at(result, 0)), seg_cols(seg_at(result, 0)) == total))
        yield "no-shift-segment-when-it-cancels", implies(total == 0, nsegs(result) == n - k0)
        # "for all j" as an arbitrary index (a quantified equality of tagged unions sends z3 into its quantifier engine
        # for good; nothing under contract calls shift_line, so the instance form loses nothing)
        j = any_index("j")
        yield "line-proper-kept-in-order", implies(both(0 <= j, j < n - k0), seg_eq(seg_at(result, k1 + j), seg_at(a.segs, k0 + j)))
        yield "columns-add-up", COLS(result, nsegs(result)) == COLS(a.segs, n) + a.amount
