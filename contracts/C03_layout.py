"""C03 -- text layout structure: contracts on the real functions of urwid/text_layout.py.

A layout is a list of lines; a line is a list of segments; a segment is one of
    (cols, offs | None)          padding / end-of-line marker ("removed character hint")
    (cols, offs, end_offs)       a run of the text  text[offs:end_offs]  shown in `cols` columns
    (cols, offs, bytes)          inserted text (the ellipsis mark)
modelled as a tagged union per list index (pyvc.seqs.fresh_seq, shape Union).
"""
import z3

from pyvc import seqs as Q
from pyvc import values as V
from pyvc.api import *
from pyvc.values import cur, mk_bool, mk_int

TL = "urwid/text_layout.py:"

PAD = Tup(Int, Opt(Int))
RUN = Tup(Int, Int, Int)
SEG = Union(PAD, RUN)
LINE = ListOf(SEG)




# ---- spec helpers over lines (dual use where cheap: plain lists of tuples natively)

def _cases(e):
    return e.cases if isinstance(e, V.SCases) else [(z3.BoolVal(True), e)]


def seg_sel(e, fn):
    """fn(variant tuple) selected by the segment's variant, non-forking (fn returns ints / bools / optionals)."""
    if not isinstance(e, V.SCases):
        return fn(e)
    cs = e.cases
    r = fn(cs[-1][1])
    for g, v in reversed(cs[:-1]):
        r = ite(mk_bool(g), fn(v), r)
    return r


def seg_cols(e):
    return seg_sel(e, lambda t: t[0])


def seg_is_shift(e):
    """The segment is an (amount, None) pair: a shift when it leads a line."""
    return seg_sel(e, lambda t: both(len(t) == 2, opt_isnone(t[1])) if len(t) == 2 else False)


def seg_is_run(e):
    """(cols, offs, end_offs): a run of the text."""
    return seg_sel(e, lambda t: len(t) == 3 and V.is_num(t[2]))


def n_segs(line):
    return Q.seq_len(line)


def seg_at(line, j):
    return Q.seq_get(line, j)


def colsum(line, k):
    """Sum of the columns of the first k segments of a line (prefix-sum model field of the list, component 0)."""
    if not V._current:
        return sum(s[0] for s in line[:k])
    f = Q.seq_cpsum(line, 0)
    if f is None:
        raise V.Unsupported("line without a column prefix-sum model")
    return f(k)


def has_shift(line):
    """The line starts with a shift (amount, None)."""
    n = n_segs(line)
    if isinstance(n, int):
        return n > 0 and seg_is_shift(seg_at(line, 0))
    return both(n > 0, seg_is_shift(seg_at(line, 0)))


def spec_line_width(line):
    """line_width's documentation: the columns of all segments, ignoring a leading shift."""
    n = n_segs(line)
    total = colsum(line, n)
    first = seg_cols(seg_at(line, 0))
    return ite(has_shift(line), total - first, total)


@contract(TL + "line_width", property="C03", replayable=False)
class line_width:
    params = dict(segs=LINE)
    result = Int
    raises = ()

    def ensures(a, result):
        yield "columns-of-all-segments-but-a-leading-shift", result == spec_line_width(a.segs)

    loops = {0: Loop(invariant=lambda v: v.sc == colsum(v.seglist, v.i_))}


def same_from(res, k1, src, k0, callee=False):
    """res[k1:] == src[k0:] (same length, same segments in the same order).  As a proof goal: for an ARBITRARY index
    (universal generalisation, quantifier-free); as a fact at a call site: the quantified statement."""
    n = n_segs(src) - k0
    if not V._current:
        return list(res[k1:]) == list(src[k0:])
    if callee:
        return both(n_segs(res) - k1 == n, forall(0, n, lambda j: V.struct_eq(seg_at(res, k1 + j), seg_at(src, k0 + j)), check_empty=False))
    j = V.arbitrary("j")
    return both(n_segs(res) - k1 == n, implies(both(0 <= j, j < n), V.struct_eq(seg_at(res, k1 + j), seg_at(src, k0 + j))))


def _shift_ens(a, result, callee=False):
    segs, old = a.segs, a.old.segs
    k0 = ite(has_shift(old), 1, 0)
    total = a.amount + ite(has_shift(old), seg_cols(seg_at(old, 0)), 0)   # existing shift + requested shift
    k1 = ite(total != 0, 1, 0)
    yield "amount-is-an-int", isinstance(a.amount, (int, V.SInt))
    yield "columns-grow-by-exactly-the-amount", colsum(result, n_segs(result)) == colsum(old, n_segs(old)) + a.amount
    yield "one-leading-shift-holding-the-total-shift-or-none-when-zero", implies(total != 0, both(n_segs(result) > 0, V.struct_eq(seg_at(result, 0), (total, None))))
    yield "every-other-segment-kept-in-order", same_from(result, k1, old, k0, callee)
    yield "argument-not-modified", same_from(segs, 0, old, 0, callee)


@contract(TL + "shift_line", property="C03", replayable=False)
class shift_line:
    params = dict(segs=LINE, amount=Union(Int, Const(1.5)))  # 1.5: a representative of "not an int"
    result = LINE
    raises = (TypeError,)
    raises_iff = {TypeError: lambda a: not isinstance(a.amount, (int, V.SInt))}
    ensures = staticmethod(_shift_ens)
    ensures_callee = staticmethod(lambda a, result: _shift_ens(a, result, True))

    def on_raise(a, exc):
        yield "only-for-a-non-int-amount", not isinstance(a.amount, (int, V.SInt))
