"""C02 / C17 / C04 — what a leaf canvas hands to whoever draws it: the content generators of urwid/canvas.py
(TextCanvas.content / content_delta, SolidCanvas.content / content_delta, BlankCanvas.content) and the Canvas.text /
Canvas.decoded_text helpers built on them.

Statement-derived clauses
  C02 "canvas composition [here: the leaf case, a window of a leaf canvas] produces content that is cell-for-cell (text,
      display attribute, character-set flag) identical to performing the same operations on a two-dimensional array of
      character cells ... A double-width character cut by a trim ... is replaced by a space ... the operand canvases are
      left unchanged."
  C17 "An attribute map replaces exactly the attributes it lists ..., leaves others untouched"; "clipping ... never
      shift[s] an attribute onto a neighbouring character."
  C04 the raw display paints exactly what content() yields: the (attr, cs, text) runs are the interface.

For content(trim_left, trim_top, cols, rows, attr) of a canvas maxcol x maxrow (cols / rows falsy: up to the right /
bottom edge):
  * exactly `rows` rows are yielded; row y shows row trim_top + y of the canvas;
  * the runs of a row are non-empty and together hold exactly the bytes of the window of that row: the kept slice
    [spos, epos) of the row's text, a stand-in space before it when a double-width character is cut by the left edge,
    one after it when one is cut by the right edge (spos, epos, pad_left, pad_right: calc_trim_text's cut of the row at
    columns [trim_left, trim_left + cols), whose own contract says that this IS the column window: contracts/C17_trim.py,
    contracts/C11_width.py);
  * every byte of a run is the byte of the canvas at that place, the run's charset is that byte's charset, and the run's
    attribute is that byte's attribute `a` seen through the map: attr[a] when `a in attr` (membership: a mapping to a
    falsy attribute is a mapping; a key that maps to another key is NOT followed: exactly once), `a` itself otherwise
    (no map, empty map, attribute not listed);  the stand-in space of a cut character carries that character's
    attribute and the default charset;
  * the canvas (row list, texts, run-length lists) and the map are not written to;
  * ValueError only for a window that is empty or not inside the canvas.

Model.  A text canvas is its real fields: `_text` a list of bytes rows, `_attr` / `_cs` lists of run-length lists, `_maxcol`.
Rows are abstract texts of any length with run-length lists of any length (contracts/C02_rle.py: expansion view `at`);
the NUMBER of rows is spelled out per contract instance (1 row: the primary contract; `#no-rows`, `#two-rows[-any-columns]`,
`#three-rows`: every row window [trim_top, trim_top + rows) of such a canvas, with rows above and below the window), because a list of
abstract texts of symbolic length is out of the engine's reach (as for TextCanvas.__init__, contracts/C02_canvas.py); the loop
over the rows is executed row by row, the loop over the runs of a row goes through its invariant.  "For every run / every byte of a run" is proved for arbitrary constants R, Q
(pyvc.values.arbitrary: universal generalisation), which keeps the queries free of nested quantifiers.
The generators are verified as RUN TO EXHAUSTION (pyvc/interp.py run_function: generator_as_list)."""
import z3

from pyvc import seqs as Q
from pyvc import shapes as S
from pyvc import values as V
from pyvc.api import *
from pyvc.fmap import SFMap, _ite_any
from pyvc.seqs import DRef, LRef, View as _View
from pyvc.values import SOpt, cur, mk_bool

from contracts import C02_rle as R
from contracts import C17_trim as T
from contracts.C02_rle import ATTR, RP, RUNS, aeq, all_runs_at_least, at, link, n_runs, rp_mono, run_at, total
from contracts.C11_width import ENC, byte_at, tlen
from contracts.C17_maps import AMAP, ATTRV, apply_opt
from urwid import canvas as _canvas

CV = "urwid/canvas.py:"
UT = "urwid/util.py:"
PROPS = ("C02", "C17", "C04")
# canvases of this many rows (every row window of each), one contract instance per group (verified in parallel)
# alias -> (row counts, whole width and no map only?)
ROW_GROUPS = {None: ((1,), False), "no-rows": ((0,), False), "two-rows": ((2,), True), "two-rows-any-columns": ((2,), False), "three-rows": ((3,), False)}


# ------------------------------------------------------------------------------------------------ the canvas model


class SpelledOut(Q.SSeq):
    """A list VALUE whose elements are spelled out (concrete length).  A slice with symbolic bounds forks over the
    concrete windows (the bounds are normalised by slice.indices before: 0 <= lo, hi <= len, so the alternatives below
    are exhaustive) and gives a concrete tuple -- the loop over a slice of rows is then executed row by row."""

    def __init__(self, items, name="rows"):
        self.items = tuple(items)
        super().__init__(len(self.items), self._get, None, None, name)

    def _pick(self, i, hi):
        if isinstance(i, int):
            if not 0 <= i <= hi:
                raise Unsupported("index outside a spelled-out list")
            return i
        st = cur()
        k = st.choose([V._cmp("==", i, j) for j in range(hi + 1)] + [either(V._cmp("<", i, 0), V._cmp(">", i, hi))])
        if k > hi:
            raise Unsupported("index outside a spelled-out list")
        return k

    def _get(self, i):
        return self.items[self._pick(i, len(self.items) - 1)]

    def slice_model(self, lo, hi):
        n = len(self.items)
        lo_c = self._pick(lo, n)
        hi_c = self._pick(hi, n)
        return tuple(self.items[lo_c:hi_c])


ROWTEXT = Text("bytes")
SRC_RLE = RUNS(1, ATTR)  # a row's attribute / charset runs (runs >= 1 is ALSO stated in `requires`: all_runs_at_least)


def _fresh_canvas_fields(st, self_obj, k):
    texts = [ROWTEXT.fresh(st, f"row{j}") for j in range(k)]
    attrs = [SRC_RLE.fresh(st, f"attr{j}") for j in range(k)]
    css = [SRC_RLE.fresh(st, f"cs{j}") for j in range(k)]
    f = self_obj.fields
    f["_text"] = LRef(SpelledOut(texts, "_text"))
    f["_attr"] = LRef(SpelledOut(attrs, "_attr"))
    f["_cs"] = LRef(SpelledOut(css, "_cs"))
    st.ghost["tc"] = _View(dict(k=k, texts=texts, attrs=attrs, css=css, attr_seqs=[x.seq for x in attrs], cs_seqs=[x.seq for x in css],
                               lists={n: (f[n], f[n].seq) for n in ("_text", "_attr", "_cs")}))


def _setup_rows(counts):
    def setup(st, self_obj, vals):
        _fresh_canvas_fields(st, self_obj, counts[st.fork(len(counts))])
        m = vals.get("attr")
        if isinstance(m, SOpt) and isinstance(m.val, SFMap):
            st.ghost["map_at_entry"] = m.val.v

    return setup


def _witness(st):
    """Witness scenario for the vacuity guards (pyvc.engine.State.cover: `pc AND witness` satisfiable implies `pc`
    satisfiable): every row has one attribute and one charset for all its bytes."""
    tc = st.ghost.get("tc")
    out = [n_runs(x) == 1 for x in (tc.attrs + tc.css)] if tc is not None else []
    out += [row_runs(r) == 1 for r in st.ghost.get("callee_rows", [])]  # ... and is yielded as one run
    return [c for c in out if not isinstance(c, bool)]


TEXTCANVAS = Obj(_canvas.TextCanvas, dict(_maxcol=Int))


def canvas_wf(s, a):
    """What TextCanvas.__init__ establishes (contracts/C02_canvas.py: every row padded to maxcol columns, the attribute
    and charset runs cover exactly the bytes of their row) + every run is positive (a zero-length run makes
    rle_product stop early: see the note at the end of this file) + the encoding is utf-8 or single-byte (the
    double-byte encodings are decided by the bounded check, as for calc_trim_text)."""
    tc = cur().ghost["tc"]
    out = [neg(a.g__byte_encoding == "wide"), s._maxcol >= 0]
    for t, ar, cr in zip(tc.texts, tc.attrs, tc.css):
        n = tlen(t)
        out += [T.line_width(a, t, 0, n) == s._maxcol, total(ar) == n, total(cr) == n, all_runs_at_least(ar, 1), all_runs_at_least(cr, 1)]
    return both(*out)


# ------------------------------------------------------------------------------------------------ window arithmetic


def _falsy(x):
    """`not x` for an Optional[int] parameter, as a formula."""
    if x is None:
        return True
    if isinstance(x, SOpt):
        return either(mk_bool(x.isnone), V._cmp("==", x.val, 0))
    return V._cmp("==", x, 0) if V.is_sym(x) else x == 0


def _or_default(x, dflt):
    if x is None:
        return dflt
    if isinstance(x, SOpt):
        return ite(_falsy(x), dflt, x.val)
    return ite(_falsy(x), dflt, x)


def window(s, a, maxrow):
    """(ecols, erows, ok): the effective size of the window and "the window is not empty and lies inside the canvas"
    (a canvas without columns has rows with nothing in them: its only window is the whole of it)."""
    maxcol = s._maxcol
    ecols = _or_default(a.cols, maxcol - a.trim_left)
    erows = _or_default(a.rows, maxrow - a.trim_top)
    cols_ok = either(both(maxcol == 0, a.trim_left == 0, ecols == 0), both(0 <= a.trim_left, a.trim_left < maxcol, ecols > 0, a.trim_left + ecols <= maxcol))
    # (likewise a canvas without rows: its only window is the whole of it -- /repo fix: commit 8e74a20)
    rows_ok = either(both(maxrow == 0, a.trim_top == 0, erows == 0), both(0 <= a.trim_top, a.trim_top < maxrow, erows > 0, a.trim_top + erows <= maxrow))
    return ecols, erows, both(cols_ok, rows_ok)


# ------------------------------------------------------------------------------------------------ rows as yielded

# a yielded row: [(attr, cs, text), ...]; the list carries the prefix sums of the text lengths (model field `psum`)
RUN3 = Tup(ATTRV, ATTR, Text("bytes"))
YROW = ListOf(RUN3, measure=lambda e: e[2].length)


YROWS = ListOf(YROW)


def row_off(row, r):
    """Bytes in the first r runs of a yielded row."""
    s = row.seq if isinstance(row, LRef) else row
    if isinstance(s, tuple):
        s = Q.to_sseq(s, measure=YROW.measure)
    if s.psum is None:
        raise Unsupported("a yielded row without the prefix sums of its text lengths")
    return s.psum(r)


def row_runs(row):
    return Q.seq_len(row)


def row_get(row, r):
    """Run r of a yielded row (a row that is still the empty literal has none: any run of the right shape will do,
    every clause about it is guarded by 0 <= r < number of runs)."""
    s = row.seq if isinstance(row, LRef) else row
    if isinstance(s, tuple):
        if not s:
            return (None, None, Q.to_sseq(()) and __import__("pyvc.text", fromlist=["SConst"]).SConst(b""))
        s = Q.to_sseq(s, measure=YROW.measure)
    return s.get(r)


def arb():
    return V.arbitrary("R"), V.arbitrary("Qo")


def src_cell(a, text, attr, cs, trimmed, left, right, P):
    """Byte P of the window [left, right) (columns) of a canvas row: (byte, attribute, charset, bytes in the window)."""
    if not trimmed:
        return byte_at(text, P), at(attr, P), at(cs, P), tlen(text)
    spos, epos, pl, pr = T._cut(_View(dict(text=text, start_col=left, end_col=right)))
    n = epos - spos
    in_left = both(pl == 1, P == 0)
    in_right = both(pr == 1, P == pl + n)
    src = ite(in_left, spos - 1, ite(in_right, epos, spos + P - pl))
    byte = ite(either(in_left, in_right), 32, byte_at(text, spos + P - pl))
    c = at(cs, src)
    return byte, at(attr, src), (c, either(in_left, in_right)), pl + n + pr


def _cs_eq(got, want):
    if isinstance(want, tuple):
        c, blank = want
        return ite(blank, opt_isnone(got), aeq(got, c))
    return aeq(got, want)


def _runs_inv(v):
    """Loop over the runs of rle_product(a_row, cs_row): run r of the row under construction is run r of the product."""
    row, acs, i_ = v.row, v.attr_cs, v.i_
    text = v.text
    Rr, Qo = arb()
    n = n_runs(acs)
    link(acs, Rr)
    rp_mono(acs, 0, i_, 1)
    rp_mono(acs, i_ + 1, n, 1)
    rp_mono(acs, 0, Rr, 1)
    rp_mono(acs, Rr, i_, 1)
    rp_mono(acs, Rr + 1, i_, 1)
    rp_mono(acs, i_, n, 1)
    yield "position-is-the-total-of-the-runs-done", v.i == RP(acs, i_)
    yield "one-run-per-run-of-the-product", row_runs(row) == i_
    yield "offsets-agree", both(row_off(row, i_) == RP(acs, i_), implies(both(0 <= Rr, Rr <= i_), row_off(row, Rr) == RP(acs, Rr)))
    yield "product-covers-the-text", total(acs) == tlen(text)
    inside = both(0 <= Rr, Rr < i_)
    e = row_get(row, Rr)
    pr = run_at(acs, Rr)
    P = RP(acs, Rr) + Qo
    yield "run-lengths", implies(inside, tlen(e[2]) == pr[1])
    inq = both(inside, 0 <= Qo, Qo < pr[1])
    yield "bytes", implies(inq, byte_at(e[2], Qo) == byte_at(text, P))
    yield "attribute-through-the-map", implies(inside, aeq(e[0], apply_opt(entry_map(v.attr), pr[0][0])))
    yield "charset", implies(inside, aeq(e[1], pr[0][1]))


def _unchanged_canvas(old, s):
    tc = cur().ghost["tc"]
    f = s.fields
    same_lists = all(f[n] is l and l.seq is q for n, (l, q) in tc.lists.items())
    same_rows = all(x.seq is q for x, q in zip(tc.attrs, tc.attr_seqs)) and all(x.seq is q for x, q in zip(tc.css, tc.cs_seqs))
    return both(same_lists, same_rows, s._maxcol == old._maxcol)


def entry_map(m):
    """The map as it was at entry (the clauses speak about the map the caller passed, also if the code were to write to it)."""
    m0 = cur().ghost.get("map_at_entry")
    if m0 is None or not isinstance(m, SOpt):
        return m
    return SOpt(m.isnone, SFMap(m0, frozen=True))


def _unchanged_map(a):
    m0 = cur().ghost.get("map_at_entry")
    if m0 is None:
        return True
    return isinstance(a.attr, SOpt) and isinstance(a.attr.val, SFMap) and a.attr.val.v is m0


def _text_content_post(old, s, a, result):
    st = cur()
    tc = st.ghost["tc"]
    ecols, erows, ok = window(old, a, tc.k)
    yield "window-inside-the-canvas", ok
    out = result.seq if isinstance(result, LRef) else result
    nout = Q.seq_len(out)
    yield "exactly-rows-rows", nout == erows
    if not isinstance(nout, int):
        # (at a call site the rows come as a list of unknown length: the clause above pins it to one of 1 .. k)
        nout = SpelledOut((None,) * tc.k)._pick(nout, tc.k)
    trimmed = st.branch(either(a.trim_left != 0, ecols < old._maxcol))
    Rr, Qo = arb()
    for y in range(nout):
        row = Q.seq_get(out, y)
        src = [j for j in range(tc.k) if st.branch(a.trim_top + y == j)]
        yield f"row-{y}-is-a-row-of-the-canvas", len(src) == 1
        j = src[0]
        text, ar, cr = tc.texts[j], tc.attrs[j], tc.css[j]
        nr = row_runs(row)
        e = row_get(row, Rr)
        inside = both(0 <= Rr, Rr < nr)
        P = row_off(row, Rr) + Qo
        inq = both(inside, 0 <= Qo, Qo < tlen(e[2]))
        byte, av, cv, nbytes = src_cell(a, text, ar, cr, trimmed, a.trim_left, a.trim_left + ecols, P)
        yield f"row-{y}-runs-hold-exactly-the-bytes-of-the-window", both(row_off(row, nr) == nbytes, implies(both(0 <= Rr, Rr <= nr), both(0 <= row_off(row, Rr), row_off(row, Rr) <= nbytes)))
        yield f"row-{y}-no-empty-run", implies(inside, tlen(e[2]) >= 1)
        yield f"row-{y}-bytes-are-the-bytes-of-the-window", implies(inq, byte_at(e[2], Qo) == byte)
        yield f"row-{y}-attribute-is-the-cell's-mapped-exactly-when-listed", implies(inq, aeq(e[0], apply_opt(entry_map(a.attr), av)))
        yield f"row-{y}-charset-is-the-cell's", implies(inq, _cs_eq(e[1], cv))
    yield "canvas-not-modified", _unchanged_canvas(old, s)
    yield "map-not-modified", _unchanged_map(a)


def _text_content_on_raise(old, s, a, exc):
    tc = cur().ghost["tc"]
    _ec, _er, ok = window(old, a, tc.k)
    yield "only-for-a-window-that-is-empty-or-not-inside-the-canvas", neg(ok)
    # the whole of a canvas is a window of it, also when the canvas has no rows (as it is when it has no columns,
    # /repo aa85944): nothing to yield is not an error
    # (failed on the tree until the zero-row fix of TextCanvas.content: list(TextCanvas([]).content()) -> ValueError(0)  (likewise TextCanvas([], maxcol=3); .text, str();
    #                CompositeCanvas(TextCanvas([])).content() yields no rows and does not raise)
    yield "not-for-the-whole-of-the-canvas", neg(both(a.trim_left == 0, a.trim_top == 0, _falsy(a.cols), _falsy(a.rows)))
    yield "canvas-not-modified", _unchanged_canvas(old, s)


def _whole_rows_shape(vals):
    """At a call site that asks for all the rows (trim_top == 0, rows falsy) the rows come spelled out, as many as the
    canvas has (what `exactly-rows-rows` says): a caller that loops over them does so row by row."""
    tc = cur().ghost.get("tc")
    tt, rows = vals.get("trim_top"), vals.get("rows")
    if tc is not None and isinstance(tt, int) and tt == 0 and (rows is None or (isinstance(rows, int) and rows == 0)):
        k = tc.k

        def fresh(st, hint):
            rows = tuple(YROW.fresh_seq(st, f"{hint}_row{y}") for y in range(k))
            st.ghost.setdefault("callee_rows", []).extend(rows)  # (for the witness scenario of the vacuity guards)
            return LRef(rows)

        return Custom(fresh, f"{k} rows")
    return None


def _text_content_callee(old, s, a, result):
    """What a caller learns: the verified clauses (stated for the arbitrary run R and offset Qo), and the byte clause once
    more in its universal form -- for EVERY run r and offset q, which is what the clause proved for arbitrary constants
    means -- so that a caller can use it at positions of its own (Canvas.text: the run that a byte of the joined row
    comes from)."""
    yield from _text_content_post(old, s, a, result)
    st = cur()
    tc = st.ghost["tc"]
    ecols, _erows, _ok = window(old, a, tc.k)
    out = result.seq if isinstance(result, LRef) else result
    if not isinstance(Q.seq_len(out), int):
        return
    trimmed = st.branch(either(a.trim_left != 0, ecols < old._maxcol))
    for y in range(Q.seq_len(out)):
        row = Q.seq_get(out, y)
        j = [j for j in range(tc.k) if st.branch(a.trim_top + y == j)][0]
        text, ar, cr = tc.texts[j], tc.attrs[j], tc.css[j]

        def every_byte(r, row=row, text=text, ar=ar, cr=cr):
            e = row_get(row, r)
            return V.forall(0, tlen(e[2]), lambda q: byte_at(e[2], q) == src_cell(a, text, ar, cr, trimmed, a.trim_left, a.trim_left + ecols, row_off(row, r) + q)[0], check_empty=False)

        yield f"row-{y}-bytes-are-the-bytes-of-the-window/for-every-run-and-offset", V.forall(0, row_runs(row), every_byte, check_empty=False)
        yield f"row-{y}-offsets-ascend", V.forall(0, row_runs(row), lambda r, row=row: row_off(row, r + 1) == row_off(row, r) + tlen(row_get(row, r)[2]), check_empty=False)


_TEXT_KW = dict(globals_=ENC, inline=("TextCanvas.cols", "TextCanvas.rows"), replayable=False, qf_branching=True, branch_timeout_ms=R.QBT,
                cover_timeout_ms=R.CVT, cover_witness=_witness, no_xcheck="inputs are abstract texts")

for _alias, (_counts, _whole_width) in ROW_GROUPS.items():

    # (the instances with more rows differ in the row window only -- C02's grid; the per-cell clauses that C17 / C04 rely on
    # are the same text and are verified for every row of every instance)
    @contract(CV + "TextCanvas.content", property=PROPS if _alias is None else ("C02",), **_TEXT_KW, **({"alias": _alias} if _alias else {}), setup=_setup_rows(_counts))
    class text_content:
        self_shape = TEXTCANVAS
        # (`#two-rows` is about the row window: every row window of a two-row canvas over its whole width, without a map -- the
        # quick tier's instance; the column window and the map are the same code for every row and are verified in full
        # generality on the one-row instance, and together with every row window by `#two-rows-any-columns` / `#three-rows`
        # in the thorough tier: contracts/tuning.py)
        params = (dict(trim_left=Const(0), trim_top=Int, cols=Const(None), rows=Opt(Int), attr=Const(None)) if _whole_width else
                  dict(trim_left=Int, trim_top=Int, cols=Opt(Int), rows=Opt(Int), attr=Opt(AMAP)))
        result = YROWS
        raises = (ValueError,)
        generator_as_list = True
        independent_posts = True
        requires = canvas_wf
        ensures = _text_content_post
        ensures_callee = _text_content_callee
        result_shape = _whole_rows_shape
        on_raise = _text_content_on_raise
        loops = {1: Loop(invariant=_runs_inv, modifies=("row",), shapes={"row": YROW})}
        # callers: ValueError exactly for such a window (`only-for-...` and `window-inside-the-canvas` say so)
        raises_iff = {ValueError: lambda s, a: neg(window(s, a, cur().ghost["tc"].k)[2])}


# ------------------------------------------------------------------------------------------------ SolidCanvas / BlankCanvas
# A solid canvas shows one fill character in every cell (`_text`: its encoded bytes, one column wide -- SolidCanvas.__init__,
# contracts/C02_canvas.py; `_cs`: its charset), a blank canvas a space in the default charset; neither has attributes of
# its own: every cell carries None seen through the map (attr[None] when None is listed).  The generators do not look at
# trim_left / trim_top (the content is the same everywhere) and do not check the window: `cols` columns (SolidCanvas:
# its own width when cols is None) and `rows` rows are produced, nothing for a count <= 0.
#
# For every yielded row Y and every cell X of it (arbitrary constants): the row is ONE run (attribute, charset, text) whose
# text is `cols` copies of the fill text: byte J of cell X is byte J of the fill text.

from contracts.C02_canvas import _rjust_of_empty, _xcheck_rjust  # noqa: E402
from pyvc.text import SConst, xcheck_derived_texts  # noqa: E402



def _xcheck_texts():
    ok, detail = xcheck_derived_texts()
    return "derived-texts-agree-with-cpython", ok, detail


def rows_get(out, y):
    """Row y of the rows yielded so far (none yielded yet: any row will do, the clauses are guarded by 0 <= y < number of rows)."""
    s = out.seq if isinstance(out, LRef) else out
    if isinstance(s, tuple) and not s:
        return ()
    return Q.seq_get(s, y)


def _fill_rows_inv(fill, cs, ncols):
    def inv(v):
        out = v.yielded_
        yield "one-row-per-round", Q.seq_len(out) == v.i_
        yield from _fill_clauses(out, fill(v), cs(v), ncols(v), v.attr)

    return inv


def _fill_clauses(out, fill, cs, ncols, amap):
    """Row Y (arbitrary, 0 <= Y < number of rows) is one run: None through the map, the charset, max(ncols, 0) copies of
    the fill text (byte J of cell X is byte J of the fill text)."""
    n = Q.seq_len(out)
    Y, X, J = V.arbitrary("Y"), V.arbitrary("X"), V.arbitrary("J")
    inside = both(0 <= Y, Y < n)
    row = rows_get(out, Y)
    e = row_get(row, 0)
    L = tlen(fill)
    cell = both(inside, 0 <= X, X < ncols, 0 <= J, J < L)
    yield "every-row-is-one-run", implies(inside, row_runs(row) == 1)
    yield "as-wide-as-cols-cells", implies(inside, tlen(e[2]) == L * imax(ncols, 0))
    yield "every-cell-shows-the-fill-character", implies(cell, byte_at(e[2], X * L + J) == byte_at(fill, J))
    yield "attribute-is-none-mapped-exactly-when-listed", implies(inside, aeq(e[0], apply_opt(entry_map(amap), None)))
    yield "charset-is-the-fill-character's", implies(inside, aeq(e[1], cs))


def _fill_post(result, nrows, fill, cs, ncols, amap):
    out = result.seq if isinstance(result, LRef) else result
    yield "exactly-rows-rows", Q.seq_len(out) == imax(nrows, 0)
    yield from _fill_clauses(out, fill, cs, ncols, amap)


SOLID = Obj(_canvas.SolidCanvas, dict(size=Tup(Int, Int), _text=Text("bytes"), _cs=ATTR))


def _solid_cols(s, a):
    c = a.cols
    if c is None:
        return s.size[0]
    return ite(mk_bool(c.isnone), s.size[0], c.val) if isinstance(c, SOpt) else c


def _solid_rows(s, a):
    r = a.rows
    if r is None:
        return s.size[1]
    return ite(mk_bool(r.isnone), s.size[1], r.val) if isinstance(r, SOpt) else r


def _mark_map(st, self_obj, vals):
    m = vals.get("attr")
    if isinstance(m, SOpt) and isinstance(m.val, SFMap):
        st.ghost["map_at_entry"] = m.val.v


@contract(CV + "SolidCanvas.content", property=PROPS, replayable=False, no_xcheck="inputs are abstract texts", static_checks=[_xcheck_texts])
class solid_content:
    self_shape = SOLID
    params = dict(trim_left=Int, trim_top=Int, cols=Opt(Int), rows=Opt(Int), attr=Opt(AMAP))
    result = YROWS
    raises = ()
    generator_as_list = True
    setup = _mark_map

    def requires(s, a):
        return tlen(s._text) >= 1  # (SolidCanvas.__init__: a fill text exactly one column wide)

    def ensures(old, s, a, result):
        yield from _fill_post(result, _solid_rows(old, a), old._text, old._cs, _solid_cols(old, a), a.attr)
        yield "canvas-not-modified", both(s.size[0] == old.size[0], s.size[1] == old.size[1], s._text is old._text, aeq(s._cs, old._cs))
        yield "map-not-modified", _unchanged_map(a)

    loops = {0: Loop(modifies=("yielded_",), shapes={"yielded_": YROWS},
                     invariant=_fill_rows_inv(lambda v: v.old.self._text, lambda v: v.old.self._cs, lambda v: v.cols))}


BLANK = Obj(_canvas.BlankCanvas, {})


@contract(CV + "BlankCanvas.content", property=PROPS, replayable=False, call_real=_rjust_of_empty, static_checks=[_xcheck_texts, _xcheck_rjust])
class blank_content:
    """Precondition (CompositeCanvas, the only user -- a blank canvas does not know its size): cols and rows are ints."""
    self_shape = BLANK
    params = dict(trim_left=Int, trim_top=Int, cols=Int, rows=Int, attr=Opt(AMAP))
    raises = ()
    generator_as_list = True
    setup = _mark_map

    def ensures(old, s, a, result):
        yield from _fill_post(result, a.rows, SConst(b" "), None, a.cols, a.attr)
        yield "map-not-modified", _unchanged_map(a)

    loops = {0: Loop(modifies=("yielded_",), shapes={"yielded_": YROWS}, invariant=_fill_rows_inv(lambda v: SConst(b" "), lambda v: None, lambda v: v.cols))}


# ------------------------------------------------------------------------------------------------ content_delta of the leaves
# C02: "The row-by-row difference of a canvas against a previously drawn one, applied to the old rows, reproduces the new
# content exactly."  A leaf canvas has two answers: against ITSELF every row is unchanged over its whole width (the int
# `cols` stands for "keep these columns of the old row": applied to the old rows -- its own -- that is its content);
# against anything else the difference is the whole new content, i.e. content() of the whole canvas without a map.


def _setup_delta(setup_self):
    def setup(st, self_obj, vals):
        if setup_self is not None:
            setup_self(st, self_obj, vals)
        if st.fork(2) == 1:
            vals["other"] = self_obj

    return setup


def _whole(a, **over):
    d = dict(trim_left=0, trim_top=0, cols=None, rows=None, attr=None)
    d.update({k: getattr(a, k) for k in a._d if k.startswith("g_")})
    d.update(over)
    return _View(d)


def _all_unchanged(result, nrows, ncols):
    out = result.seq if isinstance(result, LRef) else result
    n = Q.seq_len(out)
    Y = V.arbitrary("Y")
    yield "against-itself-one-entry-per-row", n == imax(nrows, 0)
    yield "against-itself-every-row-unchanged-over-the-whole-width", implies(both(0 <= Y, Y < n), eq(rows_get(out, Y), ncols))


@contract(CV + "TextCanvas.content_delta", property=PROPS, globals_=ENC, inline=("TextCanvas.cols", "TextCanvas.rows"), replayable=False,
          qf_branching=True, branch_timeout_ms=R.QBT, cover_timeout_ms=R.CVT, cover_witness=_witness, no_xcheck="inputs are abstract texts")
class text_content_delta:
    self_shape = TEXTCANVAS
    params = dict(other=Opaque("LeafCanvas"))
    raises = ()  # (the whole of the canvas is always a window of it, also of a canvas without rows or columns)
    setup = _setup_delta(_setup_rows((0, 1, 2)))
    requires = canvas_wf

    def ensures(old, s, a, result):
        tc = cur().ghost["tc"]
        if a.other is s:
            yield from _all_unchanged(result, tc.k, old._maxcol)
        else:
            yield from _text_content_post(old, s, _whole(a), result)
        yield "canvas-not-modified", _unchanged_canvas(old, s)

    def on_raise(old, s, a, exc):
        tc = cur().ghost["tc"]
        yield "only-passed-on-from-content", a.other is not s
        _ec, _er, ok = window(old, _whole(a), tc.k)
        yield "only-for-a-window-that-is-empty-or-not-inside-the-canvas", neg(ok)


@contract(CV + "SolidCanvas.content_delta", property=PROPS, inline=("SolidCanvas.cols", "SolidCanvas.rows"), replayable=False, no_xcheck="inputs are abstract texts")
class solid_content_delta:
    self_shape = SOLID
    params = dict(other=Opaque("LeafCanvas"))
    raises = ()
    setup = _setup_delta(None)

    def requires(s, a):
        return tlen(s._text) >= 1

    def ensures(old, s, a, result):
        if a.other is s:
            yield from _all_unchanged(result, old.size[1], old.size[0])
        else:
            yield from _fill_post(result, old.size[1], old._text, old._cs, old.size[0], None)
        yield "canvas-not-modified", both(s.size[0] == old.size[0], s.size[1] == old.size[1], s._text is old._text, aeq(s._cs, old._cs))


# ------------------------------------------------------------------------------------------------ Canvas.text
# `[b"".join([text for (attr, cs, text) in row]) for row in self.content()]`: for a text canvas, row y of the result is
# row y of the canvas, byte for byte (the runs of content() partition the row; joining them gives it back).
#
# b"".join(<texts>) for a list of symbolic length is modelled here (assumed; cross-checked against CPython by the
# static check below): the result T is as long as the items together, and every position p of T lies in exactly one
# item w = W(p) -- off(w) <= p < off(w + 1), off the prefix sums of the item lengths -- whose byte p - off(w) it is.
# (That such an item exists for every position is a fact about prefix sums of non-negative lengths, part of the model.)


def join_spec(items, joined):
    """Executable form of the model, on plain bytes: is `joined` the concatenation of `items` as the model describes it?"""
    off = [0]
    for it in items:
        off.append(off[-1] + len(it))
    if len(joined) != off[-1]:
        return False
    for p in range(len(joined)):
        ws = [w for w in range(len(items)) if off[w] <= p < off[w + 1]]
        if len(ws) != 1 or joined[p] != items[ws[0]][p - off[ws[0]]]:
            return False
    return True


def _xcheck_join():
    import itertools

    pieces = [b"", b"a", b"bc", b"\xe4\xb8\xad"]
    bad = []
    for n in range(4):
        for items in itertools.product(pieces, repeat=n):
            j = b"".join(list(items))
            if not join_spec(items, j) or (j and join_spec(items, j[:-1])) or join_spec(items, j + b"x"):
                bad.append(items)
    return "bytes-join-model-agrees-with-cpython", not bad, f"b''.join(items) satisfies (and is pinned by) the model for all lists of up to 3 items over {pieces}; mismatches: {bad[:3]}"


def _join_of_runs(ip, st, f, args, kwargs):
    if not (getattr(f, "__name__", "") == "join" and getattr(f, "__self__", None) == b"" and len(args) == 1 and not kwargs):
        return NotImplemented
    items = args[0].seq if isinstance(args[0], LRef) else args[0]
    if not isinstance(items, Q.SSeq) or isinstance(Q.seq_len(items), int):
        return NotImplemented
    base = getattr(items, "comp_over", None)
    if base is None or getattr(base, "psum", None) is None or getattr(base, "measure", None) is None:
        raise Unsupported("b''.join of a sequence that is not a projection of a list carrying the prefix sums of its text lengths")
    n = Q.seq_len(items)
    probe = V.arbitrary("join-probe")
    same = z3.simplify(V._z(tlen(items.get(probe))) == V._z(base.measure(base.get(probe))))
    if not z3.is_true(same):
        raise Unsupported("b''.join: the joined texts are not the texts whose lengths the list sums")
    off = base.psum
    T = Text("bytes").fresh(st, "joined")
    W = z3.Function(st.fresh_name("join_item"), z3.IntSort(), z3.IntSort())
    st.assume(tlen(T) == off(n))

    def at_position(p):
        w = V.mk_int(W(V._z(p)))
        return both(0 <= w, w < n, off(w) <= p, p < off(w + 1), off(w + 1) == off(w) + tlen(items.get(w)), byte_at(T, p) == byte_at(items.get(w), p - off(w)))

    V.lazy_forall(0, tlen(T), at_position)
    return T


@contract(CV + "Canvas.text", property=PROPS, globals_=ENC, replayable=False, qf_branching=True, branch_timeout_ms=R.QBT, cover_timeout_ms=R.CVT, cover_witness=_witness,
          no_xcheck="inputs are abstract texts", call_real=_join_of_runs, static_checks=[_xcheck_join], setup=_setup_rows((0, 1, 2)))
class canvas_text:
    """Canvas.text of a TEXT canvas (the property is inherited by every canvas; a text canvas of 0 .. 2 spelled-out rows here)."""
    self_shape = TEXTCANVAS
    params = {}
    raises = ()  # (the whole of the canvas is always a window of it, also of a canvas without rows or columns)
    requires = canvas_wf

    def ensures(old, s, a, result):
        tc = cur().ghost["tc"]
        out = result.seq if isinstance(result, LRef) else result
        yield "one-text-per-row", both(isinstance(Q.seq_len(out), int), Q.seq_len(out) == tc.k)
        P = V.arbitrary("P")
        V.instantiate(P)
        for y in range(tc.k):
            t, src = Q.seq_get(out, y), tc.texts[y]
            yield f"row-{y}-as-long-as-the-row-of-the-canvas", tlen(t) == tlen(src)
            yield f"row-{y}-is-the-row-of-the-canvas-byte-for-byte", implies(both(0 <= P, P < tlen(src)), byte_at(t, P) == byte_at(src, P))
        yield "canvas-not-modified", _unchanged_canvas(old, s)

    def on_raise(old, s, a, exc):
        tc = cur().ghost["tc"]
        yield "only-passed-on-from-content", neg(window(old, _whole(a), tc.k)[2])


# ------------------------------------------------------------------------------------------------ notes
# * Zero-length runs (precondition `all runs positive` of canvas_wf): TextCanvas.__init__ accepts them, and content() then
#   loses cells -- rle_product stops at the first zero-length run it loads (contracts/C02_rle.py):
#       list(TextCanvas([b"ab"], [[("x", 0), ("y", 2)]]).content())            == [[]]
#       list(TextCanvas([b"ab"], [[("x", 1), ("y", 0), ("z", 1)]]).content())  == [[("x", None, b"a")]]
#   urwid's own pipeline does not build such lists (decompose_tagmarkup drops empty markup segments, the rle_* builders merge
#   or append positive runs), so this is a stated precondition, not a finding.
# * Out of reach here: CompositeCanvas.content / content_delta.  They drive shard_body / shard_body_row / shard_body_tail,
#   which keep the children's content() GENERATOR OBJECTS alive in nested tuples and advance them with next() one row at a
#   time across shard boundaries (`iter(cviews)` resumed by a later `for`, StopIteration as control flow); the engine runs
#   a generator to exhaustion in one go and has no iterator objects with a position.  Bounded check of C02.
#   Canvas.decoded_text: `bytes.decode(<encoding of the screen>)` in strict mode for an arbitrary codec has no model.
#   Canvas.text of a SolidCanvas / CompositeCanvas: the rows come as a list of symbolic length, the join model above would
#   be evaluated lazily per index.
