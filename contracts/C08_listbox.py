"""C08 — ListBox: a focus assignment (`focus_position = p`, `set_focus_path`) is *completed* by the next render / keypress
(`ListBox._set_focus_complete`, which needs the size); completing it must leave the walker's focus on the position that
was assigned ("the focus path read from a container can be written back later to restore the same focus"; "a keypress is
offered only to widgets on the focus path").

The list walker is an opaque protocol object ("for every walker honouring the ListWalker interface"):
    get_focus() -> (widget | None, position)      a function of the walker's state
    set_focus(position)                           on success get_focus()[1] == position and the widget is not None;
                                                  on IndexError / KeyError the walker is unchanged
Positions are modelled as integers (SimpleListWalker / SimpleFocusListWalker); widgets are opaque protocol widgets."""
import z3

from pyvc import shapes as S
from pyvc import values as V
from pyvc.api import *
from pyvc.api import PROTOCOLS
from pyvc.engine import PyRaise, SExc
from pyvc.protocol import PMethod, Protocol
from pyvc.values import cur, is_none, mk_bool
from contracts.proto_widget import *

from urwid.widget import listbox as _lbmod

LBX = "urwid/widget/listbox.py:"
WIDGET = Opaque("Widget")


NOPOS = -7777  # stands for the `None` position of a (None, None) answer


_WAT = z3.Function("ListWalker.at", S.opaque_sort("ListWalker"), z3.IntSort(), z3.IntSort(), S.opaque_sort("Widget"))


def widget_at(walker, ver, position):
    """"Positions name widgets": the widget a walker in state version `ver` has at `position` -- whichever of get_focus /
    get_prev / get_next reports the position reports this widget with it, and set_focus(position) makes it the focus
    (SimpleListWalker / SimpleFocusListWalker: `self[position]`).  Opaque individuals stand for behaviour, so a walker that
    builds an equal widget afresh for every answer is covered."""
    return V.SOpaque("Widget", _WAT(walker.e, V._z(ver), V._z(position)), {})


def _answer_ver(r, default):
    """The walker state version an answer (widget | None, position) of get_focus / get_prev / get_next was computed for:
    the second argument of the uninterpreted application that is its position component."""
    e = getattr(r[1], "e", None)
    if e is not None and z3.is_app(e) and e.num_args() >= 2 and z3.is_int_value(e.arg(1)):
        return e.arg(1).as_long()
    return default


class ListWalkerProtocol(Protocol):
    kind = "ListWalker"

    def bump(self, st, recv):
        st.ghost.setdefault("lw_prev_ver", {})[str(recv.e)] = self.version(st, recv)  # (read by _ens_set_focus)
        super().bump(st, recv)

    def _ens_set_focus(st, w, a, r):
        # evaluated after the state version was bumped: speaks about the walker *after* a successful set_focus
        P = PROTOCOLS["ListWalker"]
        g = P.call_quiet(st, w, "get_focus", {})
        before = st.ghost.get("lw_prev_ver", {}).get(str(w.e), 0)
        return [neg(mk_bool(g[0].isnone)), g[1] == a["position"], eq(val(g[0]), widget_at(w, before, a["position"]))]

    def _ens_neighbour(st, w, a, r):
        # (None, None) is modelled as (None, NOPOS): an integer no walker uses as a position (see `methods`)
        at = widget_at(w, _answer_ver(r, PROTOCOLS["ListWalker"].version(st, w)), r[1])
        return [ite(mk_bool(r[0].isnone), r[1] == NOPOS, both(neg(r[1] == NOPOS), neg(r[1] == a["position"]), eq(val(r[0]), at)))]

    def _ens_get_focus(st, w, a, r):
        at = widget_at(w, _answer_ver(r, PROTOCOLS["ListWalker"].version(st, w)), r[1])
        return [either(mk_bool(r[0].isnone), both(neg(r[1] == NOPOS), eq(val(r[0]), at)))]

    def _ens_positions(st, w, a, r):
        # a walker that has a focus lists at least one position (SimpleListWalker / SimpleFocusListWalker: range(len(self)))
        from pyvc import seqs as Q

        g = PROTOCOLS["ListWalker"].call_quiet(st, w, "get_focus", {})
        return [either(mk_bool(g[0].isnone), Q.seq_len(r) >= 1)]

    methods = {
        # positions(reverse=False): optional (`hasattr(walker, "positions")`); the positions in list order (reversed order)
        "positions": PMethod(ListOf(Int, tuple_=True), params=["reverse"], defaults={"reverse": False}, ensures=_ens_positions),
        "get_focus": PMethod(Tup(Opt(WIDGET), Int), params=[], ensures=_ens_get_focus),
        "set_focus": PMethod(None, params=["position"], mutates=True, ensures=_ens_set_focus),
        # (widget, position) of the neighbour, or (None, None) at the end of the list; functions of the walker's state.
        # Positions are integers here; the position component of a (None, None) answer is modelled by the integer NOPOS,
        # which is no position of any walker.  The code under contract looks at it in two places, both in render:
        # `next_pos is not None` (next to `widget is not None` in the same `all(...)`: same truth value as long as the two
        # components are None together) and `next_pos == next_next_pos` (a real position never equals NOPOS, as it
        # never equals None).
        # A neighbour is never the position asked about ("positions form a chain"): render's own consistency check
        # raises ListBoxError("Next position after ... is invalid (points to itself)") for a walker that answers so.
        # (SimpleListWalker(wrap_around=True) with ONE item does answer so -- outside this protocol.)
        "get_prev": PMethod(Tup(Opt(WIDGET), Int), params=["position"], ensures=_ens_neighbour),
        "get_next": PMethod(Tup(Opt(WIDGET), Int), params=["position"], ensures=_ens_neighbour),
    }
    has = {"get_focus": True, "set_focus": True, "get_prev": True, "get_next": True, "positions": "uf"}

    def call(self, ip, st, recv, name, args, kwargs):
        if name == "set_focus":
            # may refuse the position (IndexError: list walkers, KeyError: dict-like walkers) and then changes nothing
            # (SimpleListWalker.set_focus: on-raise/nothing-written, contracts/C07_walkers.py)
            k = st.fork(3)
            if k > 0:
                st.event("call", recv, name, {"position": args[0] if args else kwargs["position"]}, "raised")
                raise PyRaise(SExc((IndexError, KeyError)[k - 1], ("<walker refused the position>",), site="opaque ListWalker.set_focus"))
        r = super().call(ip, st, recv, name, args, kwargs)
        if name in ("get_prev", "get_next") and isinstance(r[1], V.SInt):
            # the position component may be compared with None by the code (`get_next(pos) == (None, None)` in
            # ListBox.ends_visible / _keypress_page_up): None is modelled by NOPOS, and the comparison must say so
            r = (r[0], V.SIntOrNone(r[1].e, NOPOS))
        return r


PROTOCOLS["ListWalker"] = ListWalkerProtocol()
WALKER = Opaque("ListWalker")

PENDING = Tup(Opt(Enum("above", "below")), WIDGET, Int)  # (coming_from, old focus widget, old focus position)
LISTBOX = Obj(
    _lbmod.ListBox,
    dict(
        _body=WALKER,
        set_focus_pending=Opt(PENDING),
        set_focus_valign_pending=Const(None),
        offset_rows=Int,
        inset_fraction=Tup(Int, Int),
        pref_col=Opt(Int),
    ),
)


def walker_focus(s, when="now"):
    """(widget | None, position) the walker reports: "now" = in the current state (requires; callee side), "entry" = when
    the function under verification was entered (its walker has state version 0), "exit" = when it returned (the
    versions saved by VerifyTask.body before it resets them for the postconditions)."""
    st = cur()
    P = PROTOCOLS["ListWalker"]
    recv = s._body
    if when == "entry":
        ver = 0
    elif when == "exit":
        ver = st.ghost.get("ver_post", st.ghost.get("ver", {})).get(str(recv.e), 0)
    else:
        ver = P.version(st, recv)
    r = P.uf_value(st, "get_focus", recv, [], P.methods["get_focus"].result, ver)
    for f in P.methods["get_focus"].ensures(st, recv, {}, r):  # the protocol's own clauses for this answer
        st.assume(f)
    return r


def focus_at(s, when, position):
    g = walker_focus(s, when)
    return both(neg(mk_bool(g[0].isnone)), g[1] == position)


FILL = ListOf(Tup(WIDGET, Int, Dim))


# ListBox.calculate_visible: verified contract in contracts/C07_listbox.py (it was an assumed contract here until the
# chain model of the walker was written); its `requires`: no focus change pending, a list that is not empty, `lb_ok`.


def lb_ok(s):
    """Class invariant of the scroll state (established by __init__ and by every shift_focus): the focus widget sits
    `offset_rows >= 0` rows below the top, or has the fraction 0 <= inum/iden < 1 of its rows cut off at the top."""
    inum, iden = s.inset_fraction
    return both(s.offset_rows >= 0, 0 <= inum, inum < iden)


# ListBox.update_pref_col_from_focus: verified contract in contracts/C07_keys.py (it was an assumed contract here).


def _shift_stored(old, s, a, tgt_rows):
    """What shift_focus stores: an offset >= 0 as it is, with no inset; an inset -offset_inset > 0 as the fraction of
    the focus widget's rows (with focus) it is of -- either way a scroll state that satisfies `lb_ok`."""
    oi = a.offset_inset
    return ite(oi >= 0, both(s.offset_rows == oi, s.inset_fraction[0] == 0, s.inset_fraction[1] == 1),
               both(s.offset_rows == 0, s.inset_fraction[0] == -oi, s.inset_fraction[1] == tgt_rows))


def _shift_refused(a, tgt_rows):
    """The offset would put the focus widget outside the box: on or below the last row, or wholly above the top."""
    oi = a.offset_inset
    return ite(oi >= 0, oi >= a.size[1], oi + tgt_rows <= 0)


def _focus_rows(s, a, when):
    w = val(walker_focus(s, when)[0])
    return PROTOCOLS["Widget"].call_quiet(cur(), w, "rows", dict(size=(a.size[0],), focus=True))


@contract(LBX + "ListBox.shift_focus", property=("C08", "C07"), replayable=False)
class lb_shift_focus:
    self_shape = LISTBOX
    params = dict(size=Tup(Int, Int), offset_inset=Int)
    raises = (_lbmod.ListBoxError,)
    modifies = ("offset_rows", "inset_fraction")
    # raises exactly when the focus widget would have no row inside the box (both directions are clauses below)
    raises_iff = {_lbmod.ListBoxError: lambda s, a: _shift_refused(a, _focus_rows(s, a, "now"))}

    def requires(s, a):
        return both(neg(mk_bool(walker_focus(s)[0].isnone)), a.size[0] >= 0)

    def ensures(old, s, a, result):
        rows = _focus_rows(old, a, "entry")
        yield "moves-no-focus", walker_focus(s, "exit")[1] == walker_focus(old, "entry")[1]
        yield "invalidated", count_ev(s.trace, "_invalidate") == 1
        yield "offset-or-inset-stored", _shift_stored(old, s, a, rows)
        yield "a-focus-row-inside-the-box", neg(_shift_refused(a, rows))
        yield "scroll-state-sane", lb_ok(s)

    def ensures_callee(old, s, a, result):
        # (the walker is not touched: nothing to say about it at a call site)
        rows = _focus_rows(old, a, "now")
        yield "offset-or-inset-stored", _shift_stored(old, s, a, rows)
        yield "a-focus-row-inside-the-box", neg(_shift_refused(a, rows))
        yield "scroll-state-sane", lb_ok(s)

    def on_raise(old, s, a, exc):
        yield "only-for-an-offset-outside-the-box-or-the-widget", _shift_refused(a, _focus_rows(old, a, "entry"))
        yield "nothing-stored", both(s.offset_rows == old.offset_rows, s.inset_fraction[0] == old.inset_fraction[0], s.inset_fraction[1] == old.inset_fraction[1], count_ev(s.trace, "_invalidate") == 0)
        yield "moves-no-focus", walker_focus(s, "now")[1] == walker_focus(old, "entry")[1]

    def on_raise_callee(old, s, a, exc):
        yield "only-for-an-offset-outside-the-box-or-the-widget", _shift_refused(a, _focus_rows(old, a, "now"))


CURSOR_ARG = Union(Const(None), Tup(Int), Tup(Int, Int))


@contract(LBX + "ListBox.change_focus", property="C08", replayable=False)
class lb_change_focus:
    """Whenever it returns, the walker's focus is `position` (and only the walker's own refusal of the position, or an
    offset / cursor row outside the target, makes it raise)."""
    self_shape = LISTBOX
    params = dict(size=Tup(Int, Int), position=Int, offset_inset=Int, coming_from=Opt(Enum("above", "below")), cursor_coords=CURSOR_ARG, snap_rows=Opt(Int))
    raises = (_lbmod.ListBoxError, ValueError, IndexError, KeyError)
    modifies = ("offset_rows", "inset_fraction", "pref_col")
    loops = {0: Loop(invariant=lambda v: True)}

    def requires(s, a):
        return both(a.size[0] >= 0, a.size[1] >= 0)

    def ensures(old, s, a, result):
        yield "focus-is-the-position-asked", focus_at(s, "exit", a.position)

    def on_raise(old, s, a, exc):
        if exc.cls in (IndexError, KeyError):
            yield "walker-refused-nothing-moved", walker_focus(s, "now")[1] == walker_focus(old, "entry")[1]

    def effects(old, s, a, result):
        # callee use: the walker has a new state, in which its focus is the position asked (the clause above)
        st = cur()
        PROTOCOLS["ListWalker"].bump(st, s._body)
        st.assume(focus_at(s, "now", a.position))

    def ensures_callee(old, s, a, result):
        return ()

    def on_raise_callee(old, s, a, exc):
        return ()


@contract(LBX + "ListBox._set_focus_complete", property="C08", replayable=False)
class lb_set_focus_complete:
    """Completing a pending explicit focus change (set_focus_pending = (coming_from, old widget, old position), left by
    `ListBox.set_focus` = the `focus_position` setter, which has already moved the walker to the new position): the old
    focus is restored for a moment to see whether the new position is among the widgets drawn around it; whatever the
    answer, on return the walker's focus is again the position that was assigned."""
    self_shape = LISTBOX
    params = dict(size=Tup(Int, Int), focus=Bool)
    raises = (_lbmod.ListBoxError, ValueError, IndexError, KeyError)
    loops = {0: Loop(invariant=lambda v: True), 1: Loop(invariant=lambda v: True)}

    def requires(s, a):
        # (size below the bound of the widget protocol, scroll state sane: what calculate_visible asks of its callers)
        return both(a.size[0] >= 0, a.size[1] >= 1, a.size[0] < DIMMAX, a.size[1] < DIMMAX, lb_ok(s), neg(is_none(s.set_focus_pending)))

    def ensures(old, s, a, result):
        yield "pending-change-cleared", is_none(s.set_focus_pending)
        yield "focus-is-still-the-position-assigned", walker_focus(s, "exit")[1] == walker_focus(old, "entry")[1]
        yield "same-walker", eq(s._body, old._body)


@contract(LBX + "ListBox.set_focus", property="C08", replayable=False)
class lb_set_focus:
    """`listbox.focus_position = position` (the property's setter is this method): the walker moves at once -- the
    container reports the new position and its widget as focus from now on -- and the scrolling is left pending."""
    self_shape = LISTBOX
    params = dict(position=Int, coming_from=Opt(Enum("above", "below")))
    raises = (IndexError, KeyError)

    def ensures(old, s, a, result):
        yield "focus-is-the-position-assigned", focus_at(s, "exit", a.position)
        was = walker_focus(old, "entry")
        yield "was-not-empty", neg(mk_bool(was[0].isnone))
        pend = s.set_focus_pending
        yield "scrolling-left-pending-from-the-old-focus", both(neg(is_none(pend)), eq(val(pend)[2], was[1]) if not is_none(pend) else False, eq(val(pend)[1], val(was[0])) if not is_none(pend) and not is_none(was[0]) else False)

    def on_raise(old, s, a, exc):
        yield "empty-or-refused-nothing-moved", walker_focus(s, "now")[1] == walker_focus(old, "entry")[1]
