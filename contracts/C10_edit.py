"""C10 — the Edit widget as a text editor: contracts on the real methods of urwid/widget/edit.py and urwid/numedit.py.

What is under contract here is the *layout-independent* part of the editor: the clamp of the cursor offset, the
insertion arithmetic, the order of the 'change' / 'postchange' signals, and one `keypress` step for printable
characters, tab, enter, left, right, backspace and delete against a reference editor step.  up / down / home / end and
mouse clicks go through the text layout and are decided by the bounded stand-in only.

Model of the state: the edit text is an abstract text (pyvc/text.py: a length, opaque characters or byte values;
concatenation and slices are terms over those, so "content equality" is element-wise equality), the cursor an integer
offset.  A *character boundary* of a text is: offset 0, the end, or — for UTF-8 bytes — any offset that does not hold a
continuation byte (10xxxxxx); for str and single-byte encodings every offset.  Double-byte ("wide") encodings are out
of reach of the C11 contracts this builds on (bounded only).

Signals are opaque: `Widget._emit` is an assumed contract that logs the emission together with the text and cursor
fields *as they are at that moment* in the ghost trace, and is assumed not to touch the widget.
"""
import z3

from pyvc import shapes as S
from pyvc import values as V
from pyvc.api import *
from pyvc.api import REGISTRY, Contract
from pyvc.seqs import SObj
from pyvc.text import SText, TextShape, as_text, elem_eq, text_eq, text_has
from pyvc.values import cur, mk_bool, mk_int

from contracts.C11_width import ENC, is_cont, tlen
from contracts.proto_widget import COMMAND_MAP, command_of

from urwid.widget import edit as _edit
from urwid.command_map import Command

ED = "urwid/widget/edit.py:"
SU = "urwid/str_util.py:"


def Text(kind):  # noqa: F811 - offsets and contents only: no width facts (see TextShape)
    return TextShape(kind, monotone_widths=False)


# ------------------------------------------------------------------------------------------------ the state

class EditShape(Obj):
    """`self` of an Edit: caption and edit text of one kind (both str or both bytes — what the constructor's
    docstring demands: "type (bytes or unicode) must match the text in the caption"); one obligation family per kind."""

    def __init__(self, cls, extra=None):
        fields = dict(_edit_text=Text("str"), _caption=Text("str"), _edit_pos=Int, highlight=Opt(Tup(Int, Int)),
                      pref_col_maxcol=Tup(Opt(Int), Opt(Int)), multiline=Bool, allow_tab=Bool)
        fields.update(extra or {})
        super().__init__(cls, fields)

    def fresh(self, st, hint):
        kind = ("str", "bytes")[st.fork(2)]
        o = SObj(self.cls, {k: (Text(kind) if isinstance(s, TextShape) else s).fresh(st, f"{hint}.{k}") for k, s in self.fields.items()})
        o.shape = self
        return o


EDIT = EditShape(_edit.Edit)


def _havoc_like(st, obj, names):
    """Fresh values for the named fields, texts keeping their kind."""
    for n in names:
        v = obj.fields[n]
        if isinstance(v, SText):
            obj.fields[n] = Text(v.kind).fresh(st, f"self.{n}'")
        else:
            obj.fields[n] = obj.shape.fields[n].fresh(st, f"self.{n}'")


def enc():
    """The process-wide byte encoding (urwid.str_util._byte_encoding), one symbolic value per obligation."""
    g = cur().ghost.setdefault("globals", {})
    if "_byte_encoding" not in g:
        g["_byte_encoding"] = ENC["_byte_encoding"].fresh(cur(), "_byte_encoding")
    return g["_byte_encoding"]


def byte_units(t):
    """Offsets and characters differ: UTF-8 bytes."""
    return t.kind == "bytes" and bool(enc() == "utf8")


def in_reach(t):
    """str, or bytes in a single-byte / UTF-8 encoding (double-byte encodings: bounded only, as in C11)."""
    return t.kind == "str" or neg(enc() == "wide")


def lead_ok(t):
    """A UTF-8 byte text does not begin in the middle of a character (with a continuation byte)."""
    if t.kind == "str":
        return True
    n = tlen(t)
    return implies(enc() == "utf8", either(n == 0, neg(is_cont(t, 0))))


def bnd(t, p):
    """Offset p (0 <= p <= len) of t is not inside a multi-byte character: it is the end of the text or does not hold
    a UTF-8 continuation byte — and the text itself does not begin with one (else offset 0 would be "inside")."""
    if t.kind == "str":
        return True
    n = tlen(t)
    return both(lead_ok(t), implies(enc() == "utf8", either(p == n, neg(is_cont(t, imin(imax(p, 0), imax(n - 1, 0)))))))


def in_range(s):
    return both(0 <= s._edit_pos, s._edit_pos <= tlen(s._edit_text))


def RI(s):
    """Representation invariant kept by every operation: the offset lies in [0, len]."""
    return in_range(s)


def same_text(a, b):
    return text_eq(a, b)


def spliced(t, lo, hi, ins):
    """t[:lo] + ins + t[hi:]   (0 <= lo <= hi <= len(t)), as a text term (dual use)."""
    if isinstance(t, SText):
        from pyvc.text import SConcat

        n = tlen(t)
        return SConcat(SConcat(t.slice(0, lo), as_text(ins)), t.slice(hi, n))
    return t[:lo] + ins + t[hi:]


def txt(a):
    """The `text` argument as a text term (a str / bytes literal of the code becomes a constant text)."""
    return as_text(a.text) if V._current else a.text


def emits(trace):
    return [ev for ev in trace if ev[0] == "_emit"]


# ------------------------------------------------------------------------------------------------ assumed: signals

class _EmitContract(Contract):
    target = "urwid/widget/widget.py:Widget._emit"
    property = ()
    assumed = True
    notes = ("signal emission is opaque (C14 owns delivery): the handlers connected to 'change' / 'postchange' are assumed not to "
             "modify the emitting widget and not to raise; the emission is logged in the ghost trace as "
             "('_emit', name, args, text-field-at-that-moment, pos-field-at-that-moment)")

    def apply(self, ip, st, f, args, kwargs, site=None, check_pre=True):
        obj, name, *rest = args
        obj.trace.append(("_emit", name, tuple(rest), obj.fields.get("_edit_text"), obj.fields.get("_edit_pos")))
        ip.task.used_contracts.add(self.target)
        return None


REGISTRY[_EmitContract.target] = _EmitContract()
REGISTRY[_EmitContract.target].defined_in = __name__


class _EditBase:
    self_shape = EDIT
    invariant = staticmethod(RI)
    globals_ = ENC
    replayable = False
    inline = (ED + "Edit._normalize_to_caption", ED + "Edit.get_edit_text", "urwid/widget/text.py:Text._invalidate")

    def havoc(self, st, obj):
        _havoc_like(st, obj, self.modifies)


# ------------------------------------------------------------------------------------------------ set_edit_pos

@contract(ED + "Edit.set_edit_pos", property="C10")
class set_edit_pos(_EditBase):
    self_shape = EDIT
    invariant = staticmethod(RI)
    # set_edit_text calls it right after storing a (possibly shorter) text, to pull the cursor back into range:
    # verified for ANY stored cursor offset, and it must establish the invariant
    establishes_invariant = True
    globals_ = ENC
    replayable = False
    params = dict(pos=Int)
    raises = ()
    modifies = ("_edit_pos", "highlight", "pref_col_maxcol")
    havoc = _EditBase.havoc
    inline = _EditBase.inline

    def ensures(old, s, a, result):
        n = tlen(old._edit_text)
        yield "clamped-into-the-text", s._edit_pos == imin(imax(a.pos, 0), n)
        yield "in-range-kept-as-is", implies(both(0 <= a.pos, a.pos <= n), s._edit_pos == a.pos)
        yield "selection-and-preferred-column-forgotten", both(is_none(s.highlight), is_none(s.pref_col_maxcol[0]), is_none(s.pref_col_maxcol[1]))
        yield "text-untouched", both(s._edit_text is old._edit_text, len(emits(s.trace)) == 0)
        yield "invalidated-once", count_ev(s.trace, "_invalidate") == 1

    def effects(old, s, a, result):
        n = tlen(old._edit_text)
        s.fields["_edit_pos"] = imin(imax(a.pos, 0), n)
        s.fields["highlight"] = None
        s.fields["pref_col_maxcol"] = (None, None)
        s.trace.append(("_invalidate",))


# ------------------------------------------------------------------------------------------------ insert_text_result

ANYTEXT = Union(Text("str"), Text("bytes"))


def selection(s):
    """(lo, hi): the range an insertion replaces — the highlighted range, or the empty range at the cursor."""
    if is_none(s.highlight):
        return s._edit_pos, s._edit_pos
    return val(s.highlight)[0], val(s.highlight)[1]


def selection_ok(s):
    n = tlen(s._edit_text)
    if is_none(s.highlight):
        return True
    lo, hi = val(s.highlight)
    return both(0 <= lo, lo <= hi, hi <= n)


@contract(ED + "Edit.insert_text_result", property="C10")
class insert_text_result(_EditBase):
    self_shape = EDIT
    invariant = staticmethod(RI)
    globals_ = ENC
    replayable = False
    inline = _EditBase.inline
    params = dict(text=ANYTEXT)
    result = None  # callee use goes through pure_spec
    raises = ()    # the ValueError re-raise is unreachable for texts of the widget's own kind
    modifies = ()

    def requires(s, a):
        # text of the same kind as the caption (the other combination goes through an ascii transcoding: not modelled)
        return both(txt(a).kind == s._edit_text.kind, selection_ok(s))

    def ensures(old, s, a, result):
        t = old._edit_text
        lo, hi = selection(old)
        rt, rp = result
        yield "length-adds-up", tlen(rt) == tlen(t) - (hi - lo) + tlen(txt(a))
        yield "cursor-just-after-the-insertion", rp == lo + tlen(txt(a))
        yield "cursor-within-the-new-text", both(0 <= rp, rp <= tlen(rt))
        yield "widget-untouched", both(s._edit_text is old._edit_text, s._edit_pos == old._edit_pos, opt_eq(s.highlight, old.highlight), len(s.trace) == 0)
        # (content equality last: once proved it is assumed, and it is a quantified formula)
        yield "text-is-old-text-with-the-insertion-at-the-cursor", same_text(rt, spliced(t, lo, hi, txt(a)))

    def pure_spec(old, a):
        lo, hi = selection(old)
        return spliced(old._edit_text, lo, hi, txt(a)), lo + tlen(txt(a))


# ------------------------------------------------------------------------------------------------ set_edit_text

def signal_log(trace):
    """[(name, args, text field at the moment of emission, pos field at that moment)] in order."""
    return [tuple(ev[1:]) for ev in emits(trace)]


def change_protocol(trace, old_text, new_text):
    """'change' carries the new text and is emitted while the widget still holds the old one; 'postchange' carries the
    old text and is emitted when the widget holds the new one; nothing else is emitted.  (generator of clauses)"""
    log = signal_log(trace)
    yield "two-signals-change-then-postchange", both(len(log) == 2, log[0][0] == "change" if len(log) == 2 else False, log[1][0] == "postchange" if len(log) == 2 else False)
    if len(log) == 2:
        (_n1, args1, text_at_1, _p1), (_n2, args2, text_at_2, _p2) = log
        yield "change-carries-the-new-text", both(len(args1) == 1, same_text(args1[0], new_text) if len(args1) == 1 else False)
        yield "change-comes-before-the-text-is-written", same_text(text_at_1, old_text)
        yield "postchange-carries-the-old-text", both(len(args2) == 1, same_text(args2[0], old_text) if len(args2) == 1 else False)
        yield "postchange-comes-after-the-text-is-written", same_text(text_at_2, new_text)


@contract(ED + "Edit.set_edit_text", property="C10")
class set_edit_text(_EditBase):
    self_shape = EDIT
    invariant = staticmethod(RI)
    globals_ = ENC
    replayable = False
    inline = _EditBase.inline
    havoc = _EditBase.havoc
    params = dict(text=ANYTEXT)
    raises = ()
    modifies = ("_edit_text", "_edit_pos", "highlight", "pref_col_maxcol")

    def requires(s, a):
        return txt(a).kind == s._edit_text.kind

    def ensures(old, s, a, result):
        yield "cursor-kept-or-pulled-back-to-the-end", s._edit_pos == imin(old._edit_pos, tlen(txt(a)))
        yield "selection-forgotten", is_none(s.highlight)
        yield "invalidated-after-the-last-write", both(count_ev(s.trace, "_invalidate") >= 1, s.trace[-1][0] == "_invalidate" if s.trace else False)
        yield from change_protocol(s.trace, old._edit_text, txt(a))
        log = signal_log(s.trace)
        if len(log) == 2:
            yield "postchange-sees-the-adjusted-cursor", log[1][3] == imin(old._edit_pos, tlen(txt(a)))
        yield "text-stored", same_text(s._edit_text, txt(a))

    def effects(old, s, a, result):
        p2 = imin(old._edit_pos, tlen(txt(a)))
        s.fields["_edit_text"] = txt(a)
        s.fields["_edit_pos"] = p2
        s.fields["highlight"] = None
        s.fields["pref_col_maxcol"] = (None, None)
        s.trace.extend([("_emit", "change", (txt(a),), old._edit_text, old._edit_pos), ("_invalidate",),
                        ("_emit", "postchange", (old._edit_text,), txt(a), p2), ("_invalidate",)])


# ------------------------------------------------------------------------------------------------ insert_text

@contract(ED + "Edit.insert_text", property="C10")
class insert_text(_EditBase):
    self_shape = EDIT
    invariant = staticmethod(RI)
    globals_ = ENC
    replayable = False
    inline = _EditBase.inline
    havoc = _EditBase.havoc
    params = dict(text=ANYTEXT)
    raises = ()
    modifies = ("_edit_text", "_edit_pos", "highlight", "pref_col_maxcol")

    def requires(s, a):
        return both(txt(a).kind == s._edit_text.kind, selection_ok(s))

    def ensures(old, s, a, result):
        t = old._edit_text
        lo, hi = selection(old)
        new = spliced(t, lo, hi, txt(a))
        yield "cursor-just-after-the-insertion", s._edit_pos == lo + tlen(txt(a))
        yield "length-adds-up", tlen(s._edit_text) == tlen(t) - (hi - lo) + tlen(txt(a))
        yield "selection-forgotten", is_none(s.highlight)
        yield "cursor-stays-on-a-character-boundary", implies(both(bnd(t, hi), lead_ok(txt(a))), bnd(s._edit_text, s._edit_pos))
        yield from change_protocol(s.trace, t, new)
        yield "text-is-old-text-with-the-insertion-at-the-cursor", same_text(s._edit_text, new)

    def effects(old, s, a, result):
        t = old._edit_text
        lo, hi = selection(old)
        new = spliced(t, lo, hi, txt(a))
        p2 = lo + tlen(txt(a))
        s.fields["_edit_text"] = new
        s.fields["_edit_pos"] = p2
        s.fields["highlight"] = None
        s.fields["pref_col_maxcol"] = (None, None)
        s.trace.extend([("_emit", "change", (new,), t, old._edit_pos), ("_invalidate",),
                        ("_emit", "postchange", (t,), new, imin(old._edit_pos, tlen(new))), ("_invalidate",), ("_invalidate",)])


# ------------------------------------------------------------------------------------------------ valid_char

from pyvc.text import char_ord, char_width, utf8_encoded, xcheck_derived_texts, xcheck_utf8_encode  # noqa: E402

insert_text_result.static_checks = [lambda: ("derived-text-terms-agree-with-cpython", *xcheck_derived_texts())]


def _edit_valid(ch):
    """Edit.valid_char: a double-width first character, or exactly one character that is not a control character."""
    c0 = ch.get(0)
    return either(char_width(c0) == 2, both(tlen(ch) == 1, char_ord(c0) >= 32))


@contract(ED + "Edit.valid_char", property="C10")
class edit_valid_char(_EditBase):
    self_shape = EDIT
    globals_ = ENC
    replayable = False
    params = dict(ch=Text("str"))
    result = Bool
    raises = ()
    modifies = ()

    def requires(s, a):
        return tlen(a.ch) >= 1  # the empty string is not a key (is_wide_char would index past its end)

    def ensures(old, s, a, result):
        yield "printable-or-wide", eq(result, _edit_valid(a.ch))
        yield "pure", both(s._edit_pos == old._edit_pos, s._edit_text is old._edit_text, len(s.trace) == 0)

    def pure_spec(old, a):
        return _edit_valid(a.ch)


VALID = {}  # class name -> contract of its valid_char (filled below); keypress speaks about "the widget's own filter"


def valid_char_of(s, key):
    for c in s.cls.__mro__:
        if c.__name__ in VALID:
            return VALID[c.__name__].pure_spec(s, View(dict(ch=key)))
    raise Unsupported(f"no valid_char contract for {s.cls.__name__}")


VALID["Edit"] = edit_valid_char


# ------------------------------------------------------------------------------------------------ keypress

LAYOUT_CMDS = (Command.UP, Command.DOWN, Command.MAX_LEFT, Command.MAX_RIGHT)


def one_char(t, lo, hi):
    """[lo, hi) is exactly one character of t ending at / starting from a boundary: one element of a str or of a
    single-byte text; for UTF-8 a byte that is not a continuation byte (or the start of the text) followed by
    continuation bytes only."""
    if t.kind == "str":
        return both(lo == hi - 1, 0 <= lo)
    utf8 = enc() == "utf8"
    unit = both(either(lo == 0, neg(is_cont(t, imax(lo, 0)))), forall(lo + 1, hi, lambda k: is_cont(t, k)))
    return both(0 <= lo, lo < hi, implies(utf8, unit), implies(neg(utf8), lo == hi - 1))


def unchanged(old, s):
    return both(same_text(s._edit_text, old._edit_text), s._edit_pos == old._edit_pos, len(emits(s.trace)) == 0)


def edits_text(old, key):
    """The keys that change the text in state `old`: insertions, backspace and delete with something to delete."""
    t, p = old._edit_text, old._edit_pos
    n = tlen(t)
    cmd = command_of(key)
    ins = either(valid_char_of(old, key), both(text_eq(key, "tab"), old.allow_tab), both(text_eq(key, "enter"), old.multiline))
    move = either(cmd == Command.LEFT, cmd == Command.RIGHT)
    return either(ins, both(neg(move), text_eq(key, "backspace"), p > 0),
                  both(neg(move), neg(text_eq(key, "backspace")), text_eq(key, "delete"), p < n))


def handled_by_reference_editor(old, key):
    """The keys the reference editor uses in state `old` (everything else is handed back)."""
    t, p = old._edit_text, old._edit_pos
    n = tlen(t)
    cmd = command_of(key)
    ins = either(valid_char_of(old, key), both(text_eq(key, "tab"), old.allow_tab), both(text_eq(key, "enter"), old.multiline))
    left, right = cmd == Command.LEFT, cmd == Command.RIGHT
    return either(ins, both(left, p > 0), both(neg(left), right, p < n),
                  both(neg(left), neg(right), text_eq(key, "backspace"), p > 0),
                  both(neg(left), neg(right), neg(text_eq(key, "backspace")), text_eq(key, "delete"), p < n))


def key_insertion(s, key):
    """What a printable key inserts: the key itself, UTF-8 encoded for a bytes widget."""
    if s._edit_text.kind == "str":
        return key
    return utf8_encoded(cur(), key)[0]


class KeypressShape(EditShape):
    """`self` of Edit.keypress: an Edit (str or bytes) — or one of the subclasses that call it through super() with their
    own valid_char filter (IntEdit, NumEdit; str only): the body is verified once per variant, so the contract may be
    used at those call sites."""

    def fresh(self, st, hint):
        from urwid import numedit

        variants = ((_edit.Edit, "str"), (_edit.Edit, "bytes"), (_edit.IntEdit, "str"), (numedit.NumEdit, "str"))
        cls, kind = variants[st.fork(len(variants))]
        fields = dict(self.fields)
        if cls is numedit.NumEdit:
            fields.update(_allowed=Opaque("Allowed"), _trim_leading_zeros=Bool, _allow_negative=Bool)
        o = SObj(cls, {k: (Text(kind) if isinstance(shp, TextShape) else shp).fresh(st, f"{hint}.{k}") for k, shp in fields.items()})
        o.shape = EditShape(cls, {k: v for k, v in fields.items() if k not in self.fields})
        return o


@contract(ED + "Edit.keypress", property="C10")
class edit_keypress(_EditBase):
    self_shape = KeypressShape(_edit.Edit)
    invariant = staticmethod(RI)
    globals_ = ENC
    replayable = False
    inline = _EditBase.inline
    havoc = _EditBase.havoc
    inline = _EditBase.inline + (ED + "Edit._delete_highlighted",)
    params = dict(size=Tup(Int), key=Text("str"))
    raises = ()
    modifies = ("_edit_text", "_edit_pos", "highlight", "pref_col_maxcol")
    static_checks = [lambda: ("utf8-encode-model-agrees-with-cpython", *xcheck_utf8_encode())]

    def missing_field(ip, st, obj, name):
        if name == "_command_map":
            return COMMAND_MAP
        return NotImplemented

    def pure_spec(old, a):
        # callee use (IntEdit / NumEdit call super().keypress): the result is None or the key object itself
        return None if bool(handled_by_reference_editor(old, a.key)) else a.key

    def effects(old, s, a, result):
        # callee use (the numeric variants call super().keypress): the state and the events this call leaves behind, case
        # by case, as terms over the old state — the clauses below are then assumed about exactly this.  The cursor after
        # left / right / backspace and the end of the deleted character stay unknowns that the clauses constrain.
        t, p = old._edit_text, old._edit_pos
        n = tlen(t)
        key = a.key
        cmd = command_of(key)
        empty = "" if t.kind == "str" else b""

        def edit(new, pos):
            s.fields["_edit_text"], s.fields["_edit_pos"] = new, pos
            s.trace.extend([("_emit", "change", (new,), t, p), ("_emit", "postchange", (t,), new, pos)])

        def keep(pos):
            s.fields["_edit_text"], s.fields["_edit_pos"] = t, pos

        unknown_pos = s.fields["_edit_pos"]  # fresh (havoc of `modifies`)
        if bool(valid_char_of(old, key)):
            ins = key_insertion(old, key)
            edit(spliced(t, p, p, ins), p + tlen(ins))
        elif bool(both(text_eq(key, "tab"), old.allow_tab)):
            k = 8 - p % 8
            edit(spliced(t, p, p, V_repeat(" ", k)), p + k)
        elif bool(both(text_eq(key, "enter"), old.multiline)):
            edit(spliced(t, p, p, "\n"), p + 1)
        elif bool(cmd == Command.LEFT):
            keep(p if bool(p == 0) else unknown_pos)
        elif bool(cmd == Command.RIGHT):
            keep(p if bool(p >= n) else unknown_pos)
        elif bool(text_eq(key, "backspace")):
            if bool(p == 0):
                keep(p)
            else:
                edit(spliced(t, unknown_pos, p, empty), unknown_pos)
        elif bool(text_eq(key, "delete")):
            if bool(p >= n):
                keep(p)
            else:
                end = cur().fresh_int("deleted_end")
                edit(spliced(t, p, end, empty), p)
        else:
            keep(p)
        # ghost: the state the reference step leaves behind (the leading-zero loops of the numeric variants start from it)
        s.trace.append(("ref-step", s.fields["_edit_text"], s.fields["_edit_pos"]))

    def requires(s, a):
        t = s._edit_text
        cmd = command_of(a.key)
        return both(
            tlen(a.key) >= 1,
            is_none(s.highlight),                       # the statement's reference editor has no selection
            in_reach(t), bnd(t, s._edit_pos),           # cursor invariant at entry
            *[neg(cmd == c) for c in LAYOUT_CMDS],      # up / down / home / end go through the layout: bounded only
            # a bytes widget: keys come out of a UTF-8 decoder (no lone surrogates); tab / enter insert a str literal
            # through the ascii transcoding of _normalize_to_caption, which is not modelled
            t.kind == "str" or both(neg(utf8_encoded(cur(), a.key)[1]),
                                    neg(both(text_eq(a.key, "tab"), s.allow_tab)), neg(both(text_eq(a.key, "enter"), s.multiline))),
        )

    def ensures(old, s, a, result):
        t, p = old._edit_text, old._edit_pos
        n = tlen(t)
        key = a.key
        cmd = command_of(key)
        handled = is_none(result)
        yield "handled-exactly-the-keys-the-reference-editor-uses", handled == bool(handled_by_reference_editor(old, key))
        yield "cursor-stays-on-a-character-boundary", bnd(s._edit_text, s._edit_pos)

        def inserted(ins, what):
            yield f"{what}/handled", handled
            yield f"{what}/cursor-just-after-the-insertion", s._edit_pos == p + tlen(ins)
            new = spliced(t, p, p, ins)
            for label, f in change_protocol(s.trace, t, new):
                yield f"{what}/{label}", f
            yield f"{what}/text-is-old-text-with-the-insertion-at-the-cursor", same_text(s._edit_text, new)

        def returned_unhandled(what):
            yield f"{what}/key-returned-unchanged", both(neg(handled), result is key)
            yield f"{what}/nothing-edited", unchanged(old, s)

        def deleted(lo, hi, what):
            yield f"{what}/handled", handled
            yield f"{what}/exactly-one-character", one_char(t, lo, hi)
            yield f"{what}/cursor-at-the-gap", s._edit_pos == lo
            new = spliced(t, lo, hi, "" if t.kind == "str" else b"")
            for label, f in change_protocol(s.trace, t, new):
                yield f"{what}/{label}", f
            yield f"{what}/text-is-old-text-without-that-character", same_text(s._edit_text, new)

        if valid_char_of(old, key):
            yield from inserted(key_insertion(old, key), "printable")
        elif both(text_eq(key, "tab"), old.allow_tab):
            k = 8 - p % 8
            yield "tab/pads-to-the-next-multiple-of-eight", both(1 <= k, k <= 8, (p + k) % 8 == 0)
            yield from inserted(V_repeat(" ", k), "tab")
        elif both(text_eq(key, "enter"), old.multiline):
            yield from inserted("\n", "enter")
        elif cmd == Command.LEFT:
            if p == 0:
                yield from returned_unhandled("left-at-the-start")
            else:
                yield "left/handled", handled
                yield "left/one-character-back", one_char(t, s._edit_pos, p)
                yield "left/text-untouched", both(same_text(s._edit_text, t), len(emits(s.trace)) == 0)
        elif cmd == Command.RIGHT:
            if p >= n:
                yield from returned_unhandled("right-at-the-end")
            else:
                yield "right/handled", handled
                yield "right/one-character-forward", one_char(t, p, s._edit_pos)
                yield "right/text-untouched", both(same_text(s._edit_text, t), len(emits(s.trace)) == 0)
        elif text_eq(key, "backspace"):
            if p == 0:
                yield from returned_unhandled("backspace-at-the-start")
            else:
                yield from deleted(s._edit_pos, p, "backspace")
        elif text_eq(key, "delete"):
            if p >= n:
                yield from returned_unhandled("delete-at-the-end")
            else:
                yield from deleted(p, p + (n - tlen(s._edit_text)), "delete")
        else:
            yield from returned_unhandled("unused-key")
            yield "unused-key/not-even-redrawn", count_ev(s.trace, "_invalidate") == 0


def V_repeat(unit, k):
    """unit * k as a text term (dual use)."""
    if isinstance(k, V.Sym):
        from pyvc.text import SConst, SRepeat

        return SRepeat(SConst(unit), k)
    return unit * k


# ------------------------------------------------------------------------------------------------ IntEdit

import string  # noqa: E402


class StrEditShape(EditShape):
    """The numeric variants hold a str (their constructors build the text with str()); no bytes family."""

    def fresh(self, st, hint):
        o = SObj(self.cls, {k: s.fresh(st, f"{hint}.{k}") for k, s in self.fields.items()})
        o.shape = self
        return o


INTEDIT = StrEditShape(_edit.IntEdit)


def is_digit(c):
    return either(*[elem_eq(c, as_text(d).get(0)) for d in string.digits])


def _int_valid(ch):
    return both(tlen(ch) == 1, is_digit(ch.get(0)))


@contract(ED + "IntEdit.valid_char", property="C10")
class int_valid_char:
    self_shape = INTEDIT
    replayable = False
    params = dict(ch=Text("str"))
    result = Bool
    raises = ()
    modifies = ()

    def ensures(old, s, a, result):
        yield "exactly-one-decimal-digit", eq(result, _int_valid(a.ch))

    def pure_spec(old, a):
        return _int_valid(a.ch)


VALID["IntEdit"] = int_valid_char


def all_in(t, pred):
    """Every character of t satisfies pred (a formula over one element)."""
    st = cur()
    j = z3.Int(st.fresh_name("q"))
    from pyvc.values import SOpaque

    c = SOpaque("Char", t.raw(j))
    return mk_bool(z3.ForAll([j], z3.Implies(z3.And(0 <= j, j < V._z(tlen(t))), V._zb(pred(c)))))


def ref_step_state(trace):
    evs = [ev for ev in trace if ev[0] == "ref-step"]
    return evs[-1][1], evs[-1][2]


def zeros_stripped(mid_t, mid_p, t, p):
    """(t, p) is (mid_t, mid_p) with k leading '0' characters removed, k = mid_p - p (all left of the cursor)."""
    k = mid_p - p
    zero = as_text("0").get(0)
    st = cur()
    j = z3.Int(st.fresh_name("q"))
    lead = mk_bool(z3.ForAll([j], z3.Implies(z3.And(0 <= j, j < V._z(k)), mid_t.raw(j) == zero.e)))
    return both(0 <= k, k <= mid_p, tlen(t) == tlen(mid_t) - k, lead, same_text(t, mid_t.slice(k, tlen(mid_t))))


def no_zero_left_of_cursor(t, p):
    zero = as_text("0").get(0)
    return either(p == 0, tlen(t) == 0, neg(elem_eq(t.get(0), zero)))


STRIP_LOOP = Loop(
    invariant=lambda v: both(in_range(v.self), zeros_stripped(*ref_step_state(v.self.trace), v.self._edit_text, v.self._edit_pos)),
    decreases=lambda v: v.self._edit_pos,
    modifies=("self._edit_text", "self._edit_pos", "self.highlight", "self.pref_col_maxcol"),
)


@contract(ED + "IntEdit.keypress", property="C10")
class int_keypress:
    branch_timeout_ms = 400  # the path conditions carry quantified text equalities: an `unknown` feasibility check keeps the branch (sound)
    cover_timeout_ms = 3000  # likewise for the reachability guards: the point is covered by one of the quantifier-free paths
    self_shape = INTEDIT
    invariant = staticmethod(RI)
    globals_ = ENC
    replayable = False
    inline = _EditBase.inline
    havoc = _EditBase.havoc
    params = dict(size=Tup(Int), key=Text("str"))
    raises = ()
    modifies = ("_edit_text", "_edit_pos", "highlight", "pref_col_maxcol")
    missing_field = edit_keypress.missing_field
    loops = {0: STRIP_LOOP}

    def requires(s, a):
        return edit_keypress.requires(s, a)

    def ensures(old, s, a, result):
        handled = is_none(result)
        yield "handled-exactly-the-keys-the-reference-editor-uses", handled == bool(handled_by_reference_editor(old, a.key))
        if not handled:
            yield "unused-key/returned-unchanged", result is a.key
            yield "unused-key/nothing-edited", both(same_text(s._edit_text, old._edit_text), s._edit_pos == old._edit_pos)
        else:
            mid_t, mid_p = ref_step_state(s.trace)
            yield "no-zero-left-in-front-of-the-cursor", no_zero_left_of_cursor(s._edit_text, s._edit_pos)
            yield "only-leading-zeros-left-of-the-cursor-removed-from-the-reference-step", zeros_stripped(mid_t, mid_p, s._edit_text, s._edit_pos)
        # tab / enter insertion is switched off by IntEdit's constructor (allow_tab = multiline = False)
        yield "digits-only-stays-digits-only", implies(both(all_in(old._edit_text, is_digit), neg(old.allow_tab), neg(old.multiline)), all_in(s._edit_text, is_digit))


# ------------------------------------------------------------------------------------------------ NumEdit (urwid/numedit.py)

from pyvc.api import PROTOCOLS  # noqa: E402
from pyvc.protocol import Protocol  # noqa: E402
from pyvc.text import CHAR_UPPER, upper_of_char_text  # noqa: E402
from pyvc.values import SOpaque  # noqa: E402

from urwid import numedit as _numedit  # noqa: E402

NE = "urwid/numedit.py:"
_ALLOWED_HAS = z3.Function("Allowed.has", S.opaque_sort("Allowed"), z3.IntSort(), z3.BoolSort())


class AllowedProtocol(Protocol):
    """`NumEdit._allowed` is any Container[str]: membership is an uninterpreted predicate of (container, the str asked
    about); the str asked about is always `ch.upper()` of a one-character ch, identified by CHAR_UPPER(character)."""

    kind = "Allowed"
    methods = {}

    def contains(self, st, obj, x):
        if not isinstance(x, SText) or x.kind != "str":
            raise Unsupported("membership of a non-text in NumEdit._allowed")
        return mk_bool(_ALLOWED_HAS(obj.e, z3.Int(f"{x.name}$id")))


PROTOCOLS["Allowed"] = AllowedProtocol()


def allowed_char(s, c):
    """Character c (folded to upper case, as NumEdit does) belongs to the widget's alphabet.
    NOTE: this is the widget's *own* membership test `ch.isascii() and ch.upper() in allowed`, with str.upper(), "is
    ASCII" and the container opaque.  Before fix: commit 07a0f7d the ASCII test was missing and 'ı', 'ſ', 'ﬆ' passed
    for large bases (found by the bounded side).  The literal reading of the statement ("no character outside the
    alphabet") needs the real str.upper / substring semantics: bounded only."""
    # since fix: commit 07a0f7d the character itself must be ASCII as well (so 'ı', 'ſ', 'ﬆ' are refused)
    from pyvc.text import CHAR_ISASCII

    return both(mk_bool(CHAR_ISASCII(c.e)), mk_bool(_ALLOWED_HAS(s._allowed.e, CHAR_UPPER(c.e))))


NUMEDIT = StrEditShape(_numedit.NumEdit, dict(_allowed=Opaque("Allowed"), _trim_leading_zeros=Bool, _allow_negative=Bool))
MINUS = lambda: as_text("-").get(0)  # noqa: E731


def starts_with_minus(t):
    return both(tlen(t) >= 1, elem_eq(t.get(0), MINUS()))


def _num_valid(s, ch):
    """NumEdit.valid_char: one character; a character of the alphabet — unless it would land in front of a leading
    minus sign; or the minus sign itself — only when negatives are allowed, at offset 0, and there is none yet."""
    if not bool(tlen(ch) == 1):
        return False
    c = ch.get(0)
    t, p = s._edit_text, s._edit_pos
    return ite(allowed_char(s, c),
               neg(both(p == 0, starts_with_minus(t))),
               both(s._allow_negative, elem_eq(c, MINUS()), p == 0, neg(text_has(t, MINUS()))))


@contract(NE + "NumEdit.valid_char", property="C10")
class num_valid_char:
    self_shape = NUMEDIT
    replayable = False
    inline = _EditBase.inline
    params = dict(ch=Text("str"))
    result = Bool
    raises = ()
    modifies = ()

    def ensures(old, s, a, result):
        ch = a.ch
        if tlen(ch) == 1:
            c = ch.get(0)
            t, p = old._edit_text, old._edit_pos
            if allowed_char(old, c):
                yield "alphabet-character-accepted-except-in-front-of-the-sign", eq(result, neg(both(p == 0, starts_with_minus(t))))
            else:
                yield "other-character-only-a-first-minus-at-offset-zero-when-negatives-allowed", eq(result, both(old._allow_negative, elem_eq(c, MINUS()), p == 0, neg(text_has(t, MINUS()))))
        else:
            yield "not-a-single-character-rejected", result == False  # noqa: E712
        yield "pure", both(s._edit_pos == old._edit_pos, s._edit_text is old._edit_text, len(s.trace) == 0)

    def pure_spec(old, a):
        return _num_valid(old, a.ch)


VALID["NumEdit"] = num_valid_char


def in_alphabet(s, t):
    """Every character of t belongs to the alphabet, apart from a minus sign at offset 0 when negatives are allowed."""
    st = cur()
    j = z3.Int(st.fresh_name("q"))
    c = t.raw(j)
    ok = z3.Or(_ALLOWED_HAS(s._allowed.e, CHAR_UPPER(c)), z3.And(j == 0, c == MINUS().e, V._zb(s._allow_negative)))
    return mk_bool(z3.ForAll([j], z3.Implies(z3.And(0 <= j, j < V._z(tlen(t))), ok)))


@contract(NE + "NumEdit.keypress", property="C10")
class num_keypress:
    branch_timeout_ms = 400  # the path conditions carry quantified text equalities: an `unknown` feasibility check keeps the branch (sound)
    cover_timeout_ms = 3000  # likewise for the reachability guards: the point is covered by one of the quantifier-free paths
    self_shape = NUMEDIT
    invariant = staticmethod(RI)
    globals_ = ENC
    replayable = False
    inline = _EditBase.inline
    havoc = _EditBase.havoc
    params = dict(size=Tup(Int), key=Text("str"))
    raises = ()
    modifies = ("_edit_text", "_edit_pos", "highlight", "pref_col_maxcol")
    missing_field = edit_keypress.missing_field
    loops = {0: STRIP_LOOP}

    def requires(s, a):
        return edit_keypress.requires(s, a)

    def ensures(old, s, a, result):
        handled = is_none(result)
        yield "handled-exactly-the-keys-the-reference-editor-uses", handled == bool(handled_by_reference_editor(old, a.key))
        if not handled:
            yield "unused-key/returned-unchanged", result is a.key
            yield "unused-key/nothing-edited", both(same_text(s._edit_text, old._edit_text), s._edit_pos == old._edit_pos)
        else:
            mid_t, mid_p = ref_step_state(s.trace)
            if old._trim_leading_zeros:
                yield "no-zero-left-in-front-of-the-cursor", no_zero_left_of_cursor(s._edit_text, s._edit_pos)
                yield "only-leading-zeros-left-of-the-cursor-removed-from-the-reference-step", zeros_stripped(mid_t, mid_p, s._edit_text, s._edit_pos)
            else:
                yield "reference-step-left-as-it-is", both(same_text(s._edit_text, mid_t), s._edit_pos == mid_p)
        # tab / enter insertion is switched off by NumEdit's constructor (allow_tab = multiline = False)
        yield "alphabet-kept-apart-from-one-leading-minus", implies(both(in_alphabet(old, old._edit_text), neg(old.allow_tab), neg(old.multiline)),
                                                                    in_alphabet(s, s._edit_text))
