"""C03 — `urwid.Text`: the row count reported for a width equals the number of lines rendered at that width,
for every HISTORY of calls on one widget.

The layout object is opaque: `layout.layout(text, width, align, wrap)` is a deterministic uninterpreted function
L of (the layout object, its arguments); what it computes is the matter of contracts/C03_layout.py and of the bounded
stand-in.  What is proved here is the caching discipline of urwid/widget/text.py:

  representation invariant (RI)   the cached translation, if any (`_cache_maxcol` neither None nor 0), is
                                  L(_layout, _text, _cache_maxcol, _align_mode, _wrap_mode) for the CURRENT text / modes,

assumed at entry and proved at every exit of rows / render / pack / get_line_translation, and ESTABLISHED from any
state by the mutators (set_text / set_align_mode / set_wrap_mode / set_layout / _invalidate / _update_cache_translation:
verified without assuming it) and by the constructor.  Under RI:

  rows((w,))            == len(L(.., w, ..))
  render((w,))          == apply_text_layout(text, attrib, L(.., w, ..), w)      (rows of that canvas: len(L(.., w, ..)))
  pack((w,))[1]         == len(L(.., w, ..))
  get_line_translation  == L(.., w, ..)

for ANY cache state satisfying RI — induction over the history of calls, so the answers never depend on what was
measured before (a fresh widget and a widget measured at other widths agree).
"""
import z3

from pyvc import shapes as S
from pyvc import values as V
from pyvc.api import *
from pyvc.api import PROTOCOLS
from pyvc.protocol import PMethod, Protocol
from pyvc.seqs import View
from pyvc.values import SOpaque, cur, mk_bool, mk_int

from contracts.proto_widget import canvas_shape

from urwid import canvas as _canvas
from urwid.widget import text as _text

TX = "urwid/widget/text.py:"

TEXTVAL = Opaque("TextVal")      # the str / bytes content (never looked into by the width-given paths of text.py)
ATTRIB = Opaque("Attrib")        # the run-length attribute list
MODE = Opaque("LayoutMode")      # an alignment or wrapping mode (anything the layout object accepts)
TRANSLATION = Opaque("Translation")  # what layout.layout() returns: a list of lines
LAYOUT = Opaque("TextLayout")

_TR = S.opaque_sort("Translation")
_TR_LEN = z3.Function("Translation.len", _TR, z3.IntSort())


class TranslationProtocol(Protocol):
    kind = "Translation"
    methods = {}

    def len(self, ip, st, obj):
        e = _TR_LEN(obj.e)
        st.assume(e >= 0)
        return mk_int(e)


PROTOCOLS["Translation"] = TranslationProtocol()
for _k in ("TextVal", "Attrib", "LayoutMode"):
    PROTOCOLS.setdefault(_k, type(_k + "Protocol", (Protocol,), {"kind": _k, "methods": {}})())


class TextLayoutProtocol(Protocol):
    """Any `urwid.text_layout.TextLayout`: `layout()` and `pack()` are pure — the same arguments give the same answer
    (no method of the layout object mutates it here, so its state version never changes)."""

    kind = "TextLayout"
    methods = {
        "layout": PMethod(TRANSLATION, params=["text", "width", "align", "wrap"]),
        "pack": PMethod(Int, params=["maxcol", "layout"]),
        "supports_align_mode": PMethod(Bool, params=["align"]),
        "supports_wrap_mode": PMethod(Bool, params=["wrap"]),
    }
    has = {"pack": "uf", "layout": True, "supports_align_mode": True, "supports_wrap_mode": True}


PROTOCOLS["TextLayout"] = TextLayoutProtocol()

TEXT = Obj(
    _text.Text,
    dict(_text=TEXTVAL, _attrib=ATTRIB, _layout=LAYOUT, _align_mode=MODE, _wrap_mode=MODE,
         _cache_maxcol=Opt(Int), _cache_translation=TRANSLATION),
)


def nlines(t):
    """len(translation)"""
    return PROTOCOLS["Translation"].len(None, cur(), t)


def L(s, maxcol):
    """layout.layout(text, maxcol, align, wrap) for the widget's CURRENT text and modes."""
    return PROTOCOLS["TextLayout"].call_quiet(cur(), s._layout, "layout", dict(text=s._text, width=maxcol, align=s._align_mode, wrap=s._wrap_mode))


def same(a, b):
    return mk_bool(a.e == b.e)


def cached(s):
    """`self._cache_maxcol` is truthy: a width other than 0 is cached."""
    c = s._cache_maxcol
    if val(c) is None:
        return False
    return both(neg(opt_isnone(c)), neg(val(c) == 0))


def width_cached(s, w):
    """`_cache_maxcol` is the integer w"""
    c = s._cache_maxcol
    if val(c) is None:
        return False
    return both(neg(opt_isnone(c)), val(c) == w)


def RI(s):
    return implies(cached(s), same(s._cache_translation, L(s, val(s._cache_maxcol))))


def unchanged(old, s, *names):
    out = []
    for n in names:
        a, b = old.fields[n], s.fields[n]
        out.append(same(a, b) if isinstance(a, SOpaque) else eq(a, b))
    return both(*out)


CONTENT = ("_text", "_attrib", "_layout", "_align_mode", "_wrap_mode")
INLINE = (TX + "Text.layout", TX + "Text.get_text")


# (receiver_fields: contracts/C10_edit.py models an Edit without the layout cache and inlines Text._invalidate)
COMMON = dict(self_shape=TEXT, invariant=RI, replayable=False, inline=INLINE, receiver_fields=tuple(TEXT.fields))
TA = Opt(Tup(TEXTVAL, ATTRIB))


def ta_is_own(s, ta):
    """`ta` is None or the (text, attributes) pair `get_text()` returns (what the docstring allows)."""
    if val(ta) is None:
        return True
    return either(opt_isnone(ta), both(same(val(ta)[0], s._text), same(val(ta)[1], s._attrib)))


@contract(TX + "Text._update_cache_translation", property="C03", establishes_invariant=True, **COMMON)
class update_cache_translation:
    params = dict(maxcol=Int, ta=TA)
    raises = ()
    modifies = ("_cache_maxcol", "_cache_translation")

    def requires(s, a):
        return ta_is_own(s, a.ta)

    def ensures(old, s, a, result):
        yield "width-recorded", width_cached(s, a.maxcol)
        yield "translation-is-the-layout-of-the-current-text-at-that-width", same(s._cache_translation, L(old, a.maxcol))
        yield "content-untouched", unchanged(old, s, *CONTENT)
        yield "cache-consistent", RI(s)


@contract(TX + "Text.get_line_translation", property="C03", **COMMON)
class get_line_translation:
    params = dict(maxcol=Int, ta=TA)
    result = TRANSLATION
    raises = ()
    modifies = ("_cache_maxcol", "_cache_translation")

    def requires(s, a):
        return ta_is_own(s, a.ta)

    def ensures(old, s, a, result):
        yield "is-the-layout-at-the-width-asked-whatever-was-cached", same(result, L(old, a.maxcol))
        yield "content-untouched", unchanged(old, s, *CONTENT)
        yield "cache-consistent", RI(s)  # (callers get the invariant back: a callee's class invariant is not assumed at its call sites)


@contract(TX + "Text.rows", property="C03", **COMMON)
class rows:
    params = dict(size=Tup(Int), focus=Bool)
    result = Int
    raises = ()
    modifies = ("_cache_maxcol", "_cache_translation")

    def ensures(old, s, a, result):
        yield "rows-equals-lines-of-the-layout-at-that-width", result == nlines(L(old, a.size[0]))
        yield "content-untouched", unchanged(old, s, *CONTENT)
        yield "cache-consistent", RI(s)


# ------------------------------------------------------------------------------------------------ render / pack

TEXTCANVAS = canvas_shape(_canvas.TextCanvas)


# (registered under an alias and handed to the Text contracts through `contract_overrides`: whoever puts the real
#  function under contract owns the plain key)
@contract("urwid/canvas.py:apply_text_layout", property=(), assumed=True, deterministic=True, alias="opaque-for-C03-text",
          notes="applies a translation to text + attributes: a pure function of its four arguments that produces one canvas "
                "row per line of the translation, `maxcol` columns wide (TextCanvas(t, a, c, maxcol=maxcol) with one "
                "entry of t per line).  Owned by the bounded stand-in of C03 (rows-equals-lines compares "
                "len(render().text) with len(layout) on every case) and by C02 for the canvas itself.")
class apply_text_layout:
    params = dict(text=TEXTVAL, attr=ATTRIB, ls=TRANSLATION, maxcol=Int)
    result = TEXTCANVAS
    raises = ()

    def ensures(a, result):
        yield "one-row-per-line", result.nrows == nlines(a.ls)
        yield "as-wide-as-asked", implies(a.maxcol >= 0, result.ncols == a.maxcol)


def applied(s, maxcol):
    """apply_text_layout(text, attrib, L(.., maxcol, ..), maxcol): the canvas a fresh widget with the same content renders."""
    return apply_text_layout.spec_value(None, text=s._text, attr=s._attrib, ls=L(s, maxcol), maxcol=maxcol)


def same_canvas(a, b):
    return both(*[eq(a.fields[k], b.fields[k]) if not isinstance(a.fields[k], V.SOpt) else opt_eq(a.fields[k], b.fields[k]) for k in a.fields])


@contract(TX + "Text.render", property="C03", contract_overrides={"urwid/canvas.py:apply_text_layout": apply_text_layout}, **COMMON)
class render:
    # size == () (FIXED sizing) measures the text itself through pack(None): no width is involved, not stated here
    params = dict(size=Tup(Int), focus=Bool)
    result = TEXTCANVAS
    raises = ()
    modifies = ("_cache_maxcol", "_cache_translation")

    def ensures(old, s, a, result):
        w = a.size[0]
        yield "as-many-rows-as-rows()-reports-for-that-width", result.nrows == nlines(L(old, w))
        yield "the-layout-at-that-width-applied-to-the-current-text", same_canvas(result, applied(old, w))
        yield "content-untouched", unchanged(old, s, *CONTENT)


def layout_has_pack(s):
    return PROTOCOLS["TextLayout"].hasattr(None, cur(), s._layout, "pack")


@contract(TX + "Text.pack", property="C03", **COMMON)
class pack:
    # size None / () is the FIXED measurement of the text itself (no layout, no cache): not stated here
    params = dict(size=Tup(Int), focus=Bool)
    result = Tup(Int, Int)
    raises = ()
    modifies = ("_cache_maxcol", "_cache_translation")

    def ensures(old, s, a, result):
        w = a.size[0]
        cols, nrows = result
        yield "height-is-the-line-count-at-that-width", nrows == nlines(L(old, w))
        packed = PROTOCOLS["TextLayout"].call_quiet(cur(), old._layout, "pack", dict(maxcol=w, layout=L(old, w)))
        yield "width-is-the-layout's-pack-of-those-lines", implies(layout_has_pack(old), cols == packed)
        yield "width-as-given-when-the-layout-cannot-pack", implies(neg(layout_has_pack(old)), cols == w)
        yield "content-untouched", unchanged(old, s, *CONTENT)


# ------------------------------------------------------------------------------------------------ mutators

MUT = dict(self_shape=TEXT, invariant=RI, establishes_invariant=True, replayable=False, inline=INLINE, receiver_fields=tuple(TEXT.fields))


def invalid(s):
    return opt_isnone(s._cache_maxcol)


@contract(TX + "Text._invalidate", property="C03", **MUT)
class invalidate:
    params = dict()
    raises = ()
    modifies = ("_cache_maxcol",)

    def ensures(old, s, a, result):
        yield "cached-layout-dropped", invalid(s)
        yield "canvas-cache-told", count_ev(s.trace, "_invalidate") == 1
        yield "content-untouched", unchanged(old, s, *CONTENT)

    def effects(old, s, a, result):
        s.fields["_cache_maxcol"] = None
        s.trace.append(("_invalidate",))


from urwid import util as _util  # noqa: E402

MARKUP = Opaque("Markup")
PROTOCOLS.setdefault("Markup", type("MarkupProtocol", (Protocol,), {"kind": "Markup", "methods": {}})())


@contract("urwid/util.py:decompose_tagmarkup", property=(), assumed=True, deterministic=True, alias="opaque-for-C03-text",
          notes="markup -> (text, run-length attributes): a pure function of the markup (C17 owns what it computes); "
                "raises TagMarkupException for malformed markup")
class decompose_tagmarkup:
    params = dict(tm=MARKUP)
    result = Tup(TEXTVAL, ATTRIB)
    raises = (_util.TagMarkupException,)


def decomposed(markup):
    """decompose_tagmarkup(markup) when it does not raise: the same uninterpreted function the call site gets
    (Contract.apply, `deterministic`), written out because `spec_value` would fork over the callee's `raises`."""
    from pyvc.protocol import encode_arg, uf_shape_value

    return uf_shape_value(cur(), "fn:decompose_tagmarkup", encode_arg(cur(), markup), decompose_tagmarkup.result)


@contract(TX + "Text.set_text", property="C03", contract_overrides={"urwid/util.py:decompose_tagmarkup": decompose_tagmarkup}, **MUT)
class set_text:
    params = dict(markup=MARKUP)
    raises = (_util.TagMarkupException,)
    modifies = ("_text", "_attrib", "_cache_maxcol")

    def ensures(old, s, a, result):
        t, al = decomposed(a.markup)
        yield "text-and-attributes-replaced", both(same(s._text, t), same(s._attrib, al))
        yield "cached-layout-dropped", invalid(s)
        yield "canvas-cache-told", count_ev(s.trace, "_invalidate") == 1  # (that it comes after the write is C06's invalidate-on-write)
        yield "modes-and-layout-untouched", unchanged(old, s, "_layout", "_align_mode", "_wrap_mode")

    def on_raise(old, s, a, exc):
        yield "nothing-written", both(unchanged(old, s, *CONTENT), opt_eq(s._cache_maxcol, old._cache_maxcol), same(s._cache_translation, old._cache_translation))

    def effects(old, s, a, result):
        t, al = decomposed(a.markup)
        s.fields["_text"], s.fields["_attrib"] = t, al
        s.fields["_cache_maxcol"] = None
        s.trace.append(("_invalidate",))


def supports(s, which, mode):
    return PROTOCOLS["TextLayout"].call_quiet(cur(), s._layout, f"supports_{which}_mode", {which: mode})


def _mode_setter(which, field):
    other = "_wrap_mode" if field == "_align_mode" else "_align_mode"

    class setter:
        params = dict(mode=MODE)
        raises = (_text.TextError,)
        raises_iff = {_text.TextError: lambda s, a: neg(supports(s, which, a.mode))}
        modifies = (field, "_cache_maxcol")

        def ensures(old, s, a, result):
            yield "accepted-only-if-the-layout-supports-it", supports(old, which, a.mode)
            yield "mode-stored", same(s.fields[field], a.mode)
            yield "cached-layout-dropped", invalid(s)
            yield "canvas-cache-told", count_ev(s.trace, "_invalidate") == 1  # (that it comes after the write is C06's invalidate-on-write)
            yield "rest-untouched", unchanged(old, s, "_text", "_attrib", "_layout", other)

        def on_raise(old, s, a, exc):
            yield "only-for-an-unsupported-mode", neg(supports(old, which, a.mode))
            yield "nothing-written", both(unchanged(old, s, *CONTENT), opt_eq(s._cache_maxcol, old._cache_maxcol), same(s._cache_translation, old._cache_translation))

        def effects(old, s, a, result):
            s.fields[field] = a.mode
            s.fields["_cache_maxcol"] = None
            s.trace.append(("_invalidate",))

    return setter


set_align_mode = contract(TX + "Text.set_align_mode", property="C03", **MUT)(_mode_setter("align", "_align_mode"))
set_wrap_mode = contract(TX + "Text.set_wrap_mode", property="C03", **MUT)(_mode_setter("wrap", "_wrap_mode"))


# `urwid.text_layout.default_layout` (the shared StandardTextLayout instance): one more opaque layout object
DEFAULT_LAYOUT = SOpaque("TextLayout", z3.Const("the_default_layout", S.opaque_sort("TextLayout")))
MODULE_OBJECTS = {"urwid.text_layout.default_layout": DEFAULT_LAYOUT}


def new_layout(a):
    """`layout`, or the shared default layout when it is None"""
    given = val(a.layout)
    return DEFAULT_LAYOUT if given is None else ite(opt_isnone(a.layout), DEFAULT_LAYOUT, given)


@contract(TX + "Text.set_layout", property="C03", module_objects=MODULE_OBJECTS, **MUT)
class set_layout:
    params = dict(align=MODE, wrap=MODE, layout=Opt(LAYOUT))
    raises = ()
    modifies = ("_layout", "_align_mode", "_wrap_mode", "_cache_maxcol")

    def requires(s, a):
        # The statement quantifies over modes the layout supports ({any, space, clip, ellipsis} x {left, center, right}).
        # OUT OF SCOPE, seen while writing this: with a mode the NEW layout object rejects, `self._layout = layout` is
        # already done when set_align_mode raises TextError, and the translation cached from the OLD layout object
        # stays (class-inv@raise is `sat`): rows()/render() then answer from the old layout object.  It needs a custom
        # TextLayout and a failed call; the default layout replaced by itself is unaffected.
        lay = new_layout(a)
        t = View({"_layout": lay})
        return both(supports(t, "align", a.align), supports(t, "wrap", a.wrap))

    def ensures(old, s, a, result):
        yield "modes-stored", both(same(s._align_mode, a.align), same(s._wrap_mode, a.wrap))
        yield "layout-stored-or-the-default", same(s._layout, new_layout(a))
        yield "cached-layout-dropped", invalid(s)
        yield "canvas-cache-told", count_ev(s.trace, "_invalidate") >= 1
        yield "text-untouched", unchanged(old, s, "_text", "_attrib")

    def effects(old, s, a, result):
        s.fields["_layout"] = new_layout(a)
        s.fields["_align_mode"], s.fields["_wrap_mode"] = a.align, a.wrap
        s.fields["_cache_maxcol"] = None
        s.trace.append(("_invalidate",))


@contract(TX + "Text.__init__", property="C03", module_objects=MODULE_OBJECTS, **MUT)
class text_init:
    """Base case of the induction over histories: a new widget has nothing cached."""

    params = dict(markup=MARKUP, align=MODE, wrap=MODE, layout=Opt(LAYOUT))
    raises = (_util.TagMarkupException,)
    modifies = ("_text", "_attrib", "_layout", "_align_mode", "_wrap_mode", "_cache_maxcol")

    def requires(s, a):
        t = View({"_layout": new_layout(a)})
        return both(supports(t, "align", a.align), supports(t, "wrap", a.wrap))  # (see set_layout)

    def ensures(old, s, a, result):
        t, al = decomposed(a.markup)
        yield "content-as-given", both(same(s._text, t), same(s._attrib, al), same(s._align_mode, a.align), same(s._wrap_mode, a.wrap), same(s._layout, new_layout(a)))
        yield "nothing-cached", invalid(s)
