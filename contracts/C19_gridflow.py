"""C19 (also C08) — GridFlow.generate_display_widget: "a GridFlow shows every cell at the configured cell width in
reading order".

The real loop builds real widgets: a Pile of Padding(Columns(cells of one row)) with Divider rows between.  Their
classes are not executed here; the loop runs against an API MODEL of the four classes (assumed, listed below), which
records the layout that results in a ghost store:

    Divider()                          a blank row; `.top = t` makes it t + 1 rows high
    Pile([])                           an empty pile; `.contents.append((widget, options))`, `del .contents[:1]`,
                                       `len(.contents)`, `.options()` == ('weight', 1), `.focus_position = k` (IndexError
                                       unless 0 <= k < len), `._contents_modified()`; its focus follows MonitoredFocusList
                                       (C16): 0 while empty, unchanged by append, the same item after `del [:1]`
    Columns([], dividechars)           an empty row; `.contents.append((widget, (type, amount, box)))`, `len(.contents)`,
                                       `sum(x[1][1] for x in .contents)`, `.options(t, n)` == (t, n, False),
                                       `.focus_position = k`
    Padding(columns, align)            `.first_position = i` (GridFlow's extra attribute), `.width = n`

The ghost store does not keep the whole layout (the number of cells is unbounded) but what the statement needs about
ARBITRARY cells: three watched cell indices -- K - 1, K (arbitrary) and F (the focus position) -- and one watched
pile index Q (arbitrary).  For a watched cell the model records, at the moment the cell is appended to a Columns:
its width option, its widget, the row (ordinal of the Columns), its position in the row, the column x at which the
Columns will draw it (sum of the widths before it in its row + dividechars * their number), and later changes to its
row's Columns focus / Padding width.  Since K and Q are arbitrary, what is proved about them holds for every cell
and every pile item (universal generalisation, pyvc.values.arbitrary).

Widths: a cell's width option is `min(width, maxcol)` (a cell wider than the screen is given the screen); the next cell
starts a new row exactly when it does not fit behind the previous one: maxcol - (x + w + h_sep) < its width.
"""
import z3

from pyvc import seqs as Q_
from pyvc import values as V
from pyvc.api import *
from pyvc.api import PROTOCOLS
from pyvc.seqs import ModelObj, SSeq, LRef, SSlice
from pyvc.values import cur, is_none, mk_bool, mk_int, SOpt, SOpaque
from contracts.proto_widget import *
from contracts.C08_gridflow import GF, GINL, GRIDFLOW, GSIZE, WIDGET, DISPLAY, cell_at, n_cells, gf_wf, gf_ri, maxcol_of, _display_cells

import urwid
from urwid.widget import grid_flow as _gf

WATCHES = ("Km", "K", "F")
INT_FIELDS = ("nrows", "plen", "pbase", "pfocus", "ncells", "cur_len", "cur_sum", "cur_first", "cur_pile", "cur_div", "cur_focus", "cur_padw", "cur_fp", "divtop", "Qkind", "Qrow")
BOOL_FIELDS = ("stale", "Qset", "pile_made")
W_INT = ("width", "row", "pos", "x", "first", "firstpos", "pile", "rfocus", "padw", "div")


class Layout:
    """The ghost store (one per path, in st.ghost['gf_layout'])."""

    def __init__(self, st):
        for k in INT_FIELDS:
            setattr(self, k, 0)
        self.cur_pile = self.cur_fp = self.cur_padw = -1
        self.stale = self.Qset = self.pile_made = False
        self.Q = V.arbitrary("gf.Q")
        self.align = None
        K = V.arbitrary("gf.K")
        self.idx = {"Km": K - 1, "K": K, "F": None}  # F: set when the focus position is known (setup)
        self.w = {t: dict(placed=False, widget=None, **{k: 0 for k in W_INT}) for t in WATCHES}

    def havoc(self, st):
        for k in INT_FIELDS:
            setattr(self, k, st.fresh_int("L." + k))
        for k in ("stale", "Qset"):
            setattr(self, k, st.fresh_bool("L." + k))
        for t in WATCHES:
            r = self.w[t]
            r["placed"] = st.fresh_bool(f"L.{t}.placed")
            r["widget"] = WIDGET.fresh(st, f"L.{t}.widget")
            for k in W_INT:
                r[k] = st.fresh_int(f"L.{t}.{k}")

    def upd_rows(self, field, value):
        """A change to the current row's Columns focus / Padding width / first_position reaches every watched cell of that row."""
        for t in WATCHES:
            r = self.w[t]
            r[field] = ite(both(r["placed"], r["row"] == self.nrows - 1), value, r[field])


def layout(st=None):
    st = st or cur()
    L = st.ghost.get("gf_layout")
    if L is None:
        L = st.ghost["gf_layout"] = Layout(st)
    return L


def _need(ip, st, what, formula):
    st.oblige(f"{ip.task.name}/model-pre/{what}", formula, "call-pre")


class DividerM(ModelObj):
    def py_setattr(self, ip, st, name, value):
        if name != "top":
            raise Unsupported(f"Divider model: attribute store {name}")
        layout(st).divtop = value


class PileM(ModelObj):
    def py_getattr(self, ip, st, name):
        if name == "contents":
            return PileContentsM()
        return NotImplemented

    def py_setattr(self, ip, st, name, value):
        L = layout(st)
        if name != "focus_position":
            raise Unsupported(f"Pile model: attribute store {name}")
        _need(ip, st, "pile-focus-position-is-a-valid-position", both(0 <= value, value < L.plen - L.pbase))
        L.pfocus = value

    def py_call(self, ip, st, name, args, kwargs):
        L = layout(st)
        if name == "options" and not args and not kwargs:
            return ("weight", 1)
        if name == "_contents_modified" and not args:
            L.stale = False
            return None
        raise Unsupported(f"Pile model: method {name}")

    def py_havoc(self, st):
        layout(st).havoc(st)


class PileContentsM(ModelObj):
    def py_len(self, st):
        L = layout(st)
        return L.plen - L.pbase

    def py_call(self, ip, st, name, args, kwargs):
        L = layout(st)
        if name != "append" or len(args) != 1:
            raise Unsupported(f"Pile.contents model: method {name}")
        item, opts = args[0]
        if not (isinstance(opts, tuple) and len(opts) == 2 and opts[0] == "weight" and opts[1] == 1):
            raise Unsupported("Pile.contents model: options other than Pile.options()")
        at = L.plen
        hit = L.Q == at
        if isinstance(item, DividerM):
            kind, row = 0, -1
        elif isinstance(item, PaddingM):
            kind, row = 1, item.row
            _need(ip, st, "padding-appended-is-the-latest-row", item.row == L.nrows - 1)
            L.cur_pile = at
        else:
            raise Unsupported("Pile.contents model: item is neither the Divider nor a Padding")
        L.Qset = ite(hit, True, L.Qset)
        L.Qkind = ite(hit, kind, L.Qkind)
        L.Qrow = ite(hit, row, L.Qrow)
        L.plen = L.plen + 1
        L.stale = False  # (the list's modified callback is Pile._contents_modified)
        return None

    def py_delitem(self, ip, st, idx):
        L = layout(st)
        if not (isinstance(idx, SSlice) and idx.start is None and idx.step is None and idx.stop == 1 and isinstance(idx.stop, int)):
            raise Unsupported("Pile.contents model: del other than [:1]")
        _need(ip, st, "nothing-deleted-before", L.pbase == 0)
        removed = ite(L.plen >= 1, 1, 0)
        L.pbase = L.pbase + removed
        # MonitoredFocusList (C16 focus_after): the focus stays on its item; if that item goes, on the one that follows
        L.pfocus = ite(L.pfocus >= removed, L.pfocus - removed, 0)
        L.stale = False


class ColumnsM(ModelObj):
    def __init__(self, row):
        self.row = row

    def py_getattr(self, ip, st, name):
        if name == "contents":
            return ColumnsContentsM(self.row)
        return NotImplemented

    def py_setattr(self, ip, st, name, value):
        L = layout(st)
        if name != "focus_position":
            raise Unsupported(f"Columns model: attribute store {name}")
        _need(ip, st, "columns-is-the-latest-row", self.row == L.nrows - 1)
        _need(ip, st, "columns-focus-position-is-a-valid-position", both(0 <= value, value < L.cur_len))
        L.cur_focus = value
        L.upd_rows("rfocus", value)

    def py_call(self, ip, st, name, args, kwargs):
        if name == "options" and len(args) == 2 and not kwargs:
            return (args[0], args[1], False)
        raise Unsupported(f"Columns model: method {name}")


class ColumnsContentsM(ModelObj):
    def __init__(self, row):
        self.row = row

    def py_len(self, st):
        return layout(st).cur_len

    def py_call(self, ip, st, name, args, kwargs):
        L = layout(st)
        if name != "append" or len(args) != 1:
            raise Unsupported(f"Columns.contents model: method {name}")
        w, opts = args[0]
        if not (isinstance(opts, tuple) and len(opts) == 3 and opts[0] == "given" and opts[2] is False):
            raise Unsupported("Columns.contents model: options other than Columns.options('given', n)")
        _need(ip, st, "columns-is-the-latest-row", self.row == L.nrows - 1)
        amount = opts[1]
        g = L.ncells
        x = L.cur_sum + L.cur_div * L.cur_len
        now = dict(width=amount, row=L.nrows - 1, pos=L.cur_len, x=x, first=L.cur_first, firstpos=L.cur_fp, pile=L.cur_pile, rfocus=L.cur_focus, padw=L.cur_padw, div=L.cur_div)
        for t in WATCHES:
            r = L.w[t]
            hit = L.idx[t] == g
            r["placed"] = ite(hit, True, r["placed"])
            r["widget"] = w if r["widget"] is None else ite(hit, w, r["widget"])
            for k, v in now.items():
                r[k] = ite(hit, v, r[k])
        L.cur_len = L.cur_len + 1
        L.cur_sum = L.cur_sum + amount
        L.ncells = L.ncells + 1
        L.stale = True  # the Pile's cached `selectable` flag does not see a cell added to a row it already holds
        return None


class PaddingM(ModelObj):
    def __init__(self, row):
        self.row = row

    def py_setattr(self, ip, st, name, value):
        L = layout(st)
        _need(ip, st, "padding-is-the-latest-row", self.row == L.nrows - 1)
        if name == "first_position":
            L.cur_fp = value
            L.upd_rows("firstpos", value)
        elif name == "width":
            L.cur_padw = value
            L.upd_rows("padw", value)
        else:
            raise Unsupported(f"Padding model: attribute store {name}")


def _construct(ip, st, f, args, kwargs):
    """`call_real` hook: the four constructors."""
    L = layout(st)
    if f is urwid.Divider and not args and not kwargs:
        L.divtop = 0
        return DividerM()
    if f is urwid.Pile and len(args) == 1 and not kwargs and Q_.seq_len(args[0]) == 0:
        if L.pile_made:
            raise Unsupported("GridFlow layout model: a second Pile")
        L.pile_made = True
        return PileM()
    if f is urwid.Columns and len(args) == 2 and not kwargs and Q_.seq_len(args[0]) == 0:
        L.nrows = L.nrows + 1
        L.cur_len, L.cur_sum, L.cur_div, L.cur_first, L.cur_focus = 0, 0, args[1], L.ncells, 0
        L.cur_padw = L.cur_fp = L.cur_pile = -1
        return ColumnsM(L.nrows - 1)
    if f is urwid.Padding and len(args) == 2 and not kwargs and isinstance(args[0], ColumnsM):
        _need(ip, st, "padding-wraps-the-latest-row", args[0].row == L.nrows - 1)
        L.align = args[1]
        return PaddingM(args[0].row)
    return NotImplemented


def _comprehension(ip, st, e, fr):
    """`sum(x[1][1] for x in c.contents)`: the total of the width options of a row (a model field of the Columns model)."""
    import ast

    if len(e.generators) == 1 and ast.unparse(e.elt) == "x[1][1]" and ast.unparse(e.generators[0].target) == "x" and not e.generators[0].ifs:
        it = ip.eval(st, e.generators[0].iter, fr)
        if isinstance(it, ColumnsContentsM):
            L = layout(st)
            _need(ip, st, "columns-is-the-latest-row", it.row == L.nrows - 1)
            total = L.cur_sum
            r = SSeq(L.cur_len, lambda i: (_ for _ in ()).throw(Unsupported("element of the width options of a row")), None, None, "rowwidths")
            r.sum = lambda total=total: total
            return r
    return NotImplemented


COLS_SHAPE = Custom(lambda st, hint: SOpt(z3.Bool(st.fresh_name(hint + "_isnone")), ColumnsM(st.fresh_int(hint + ".row"))), "Columns model or None")
PAD_SHAPE = Custom(lambda st, hint: PaddingM(st.fresh_int(hint + ".row")), "Padding model")


def _width(s, j):
    return cell_at(s, j)[1][1]


def _cell_facts(s, L, t, maxcol):
    """What holds of a watched cell once it is placed."""
    r = L.w[t]
    j = L.idx[t]
    h = s.h_sep
    vs = s.v_sep
    return both(
        r["width"] == imin(_width(s, j), maxcol), eq(r["widget"], cell_at(s, j)[0]),
        0 <= r["row"], r["row"] < L.nrows, r["pos"] == j - r["first"], r["first"] == r["firstpos"], 0 <= r["first"], r["first"] <= j,
        r["pile"] == ite(vs != 0, 2 * r["row"] + 1, r["row"]), r["div"] == h, r["x"] >= 0, r["width"] >= 0,
        implies(r["pos"] == 0, r["x"] == 0),
    )


def _gen_inv(v):
    st = cur()
    L = layout(st)
    s = v.self
    i = v.i_
    n = n_cells(s)
    h, vs, f = s.h_sep, s.v_sep, s._contents._focus
    maxcol = v.maxcol
    yield "cells-counted", both(L.ncells == i, 0 <= L.nrows, L.nrows <= i, L.pbase == 0, L.plen == ite(vs != 0, 2 * L.nrows, L.nrows), L.divtop == ite(vs > 1, vs - 1, 0))
    c = v.c
    c_none = mk_bool(c.isnone) if isinstance(c, SOpt) else (c is None)
    yield "no-row-before-the-first-cell", implies(i == 0, both(c_none, L.nrows == 0, v.used_space == 0, L.pfocus == 0))
    if c is not None:
        crow, prow = (c.val.row if isinstance(c, SOpt) else c.row), v.pad.row
        yield "current-row", implies(i > 0, both(
            neg(c_none), crow == L.nrows - 1, prow == L.nrows - 1, L.nrows >= 1, L.cur_len >= 1, L.cur_len == i - L.cur_first, L.cur_first >= 0,
            v.used_space == L.cur_sum + h * L.cur_len, L.cur_div == h, L.cur_fp == L.cur_first, L.cur_padw == v.used_space - h,
            L.cur_pile == L.plen - 1, 0 <= L.cur_focus, L.cur_focus < L.cur_len, L.cur_sum >= 0))
    for t in WATCHES:
        r = L.w[t]
        j = L.idx[t]
        yield f"{t}-placed-iff-passed", eq(r["placed"], both(0 <= j, j < i))
        yield f"{t}-facts", implies(r["placed"], both(
            _cell_facts(s, L, t, maxcol),
            implies(r["row"] == L.nrows - 1, both(r["first"] == L.cur_first, r["padw"] == L.cur_padw, r["rfocus"] == L.cur_focus)),
            implies(r["row"] < L.nrows - 1, r["first"] < L.cur_first),
            implies(j == i - 1, both(r["row"] == L.nrows - 1, r["x"] + r["width"] + h == v.used_space))))
    yield "adjacent-cells", implies(L.w["K"]["placed"], _pair_facts(s, L, maxcol))
    fr = L.w["F"]
    yield "focus-cell", both(implies(fr["placed"], both(fr["rfocus"] == fr["pos"], L.pfocus == fr["pile"], implies(fr["row"] == L.nrows - 1, v.column_focused if i > 0 else True))),
                             implies(neg(fr["placed"]), L.pfocus == 0))
    yield "pile-item", both(eq(L.Qset, both(0 <= L.Q, L.Q < L.plen)), implies(L.Qset, _pile_item(L, vs, 0)))


def _pair_facts(s, L, maxcol):
    """Cell K relative to cell K - 1 (reading order, and the row break exactly when K does not fit)."""
    a, b = L.w["Km"], L.w["K"]
    K = L.idx["K"]
    h = s.h_sep
    edge = a["x"] + a["width"] + h  # the column at which the next cell of the row would start
    fits = neg(maxcol - edge < _width(s, K))
    return both(
        implies(K == 0, both(b["row"] == 0, b["x"] == 0, b["first"] == 0)),
        implies(K >= 1, both(a["placed"], ite(fits,
                                             both(b["row"] == a["row"], b["x"] == edge, b["first"] == a["first"]),
                                             both(b["row"] == a["row"] + 1, b["x"] == 0, b["first"] == K, a["padw"] == a["x"] + a["width"])))))


def _pile_item(L, vs, off):
    """The pile item at physical index Q (off items deleted from the front)."""
    Qi = L.Q
    return ite(vs != 0,
               ite(Qi % 2 == 0, L.Qkind == 0, both(L.Qkind == 1, 2 * L.Qrow + 1 == Qi)),
               both(L.Qkind == 1, L.Qrow == Qi))


def _setup(st, self_obj, vals):
    L = layout(st)
    L.idx["F"] = self_obj._contents._focus


@contract(GF + "GridFlow.generate_display_widget", property=("C19", "C08"), replayable=False,
          inline=GINL + (GF + "GridFlow._get_maxcol", GF + "GridFlow.focus_position"),
          notes="verified against the real loop over an API model of Divider / Pile / Columns / Padding (module docstring): the model "
                "(constructors, contents.append, del contents[:1], options(), focus_position setters, Pile._contents_modified, the extra "
                "attributes first_position / width / top) is ASSUMED to describe the four classes; a variable first bound inside the loop "
                "(pad, column_focused) starts the arbitrary iteration with an arbitrary value of its shape")
class gf_generate:
    self_shape = GRIDFLOW
    params = dict(size=GSIZE)
    result = DISPLAY
    invariant = staticmethod(gf_ri)
    raises = ()
    setup = staticmethod(_setup)
    call_real = staticmethod(_construct)
    comprehension = staticmethod(_comprehension)

    def requires(s, a):
        return gf_wf(s)

    def ensures(old, s, a, result):
        st = cur()
        L = layout(st)
        n = n_cells(old)
        maxcol = maxcol_of(old, a.size)
        vs, h = old.v_sep, old.h_sep
        if n == 0:
            yield "empty-gridflow-shows-one-blank-row", both(isinstance(result, DividerM), L.divtop == 0, not L.pile_made)
            return
        yield "a-pile-of-rows", isinstance(result, PileM)
        K = L.idx["K"]
        k, km, f = L.w["K"], L.w["Km"], L.w["F"]
        inr = both(0 <= K, K < n)
        off = L.pbase
        # C19: every cell (K is arbitrary) ...
        yield "every-cell-is-placed-once", implies(inr, both(k["placed"], L.ncells == n))
        yield "at-the-configured-width", implies(inr, k["width"] == imin(_width(old, K), maxcol))
        yield "its-own-widget", implies(inr, eq(k["widget"], cell_at(old, K)[0]))
        # ... in reading order: rows are runs of consecutive cells, a row's Padding knows its first cell
        yield "rows-partition-the-cells", implies(inr, both(0 <= k["row"], k["row"] < L.nrows, k["pos"] == K - k["firstpos"], 0 <= k["firstpos"], k["firstpos"] <= K))
        yield "reading-order-and-row-breaks", implies(inr, _pair_facts(old, L, maxcol))
        yield "columns-divided-by-h-sep", implies(inr, k["div"] == h)
        yield "row-padding-is-as-wide-as-its-cells", implies(both(inr, K == n - 1), k["padw"] == k["x"] + k["width"])
        yield "rows-never-wider-than-the-cells-allow", implies(inr, either(k["pos"] == 0, k["x"] + _width(old, K) <= maxcol))
        # rows separated by v_sep blank rows
        yield "pile-length", L.plen - off == ite(vs != 0, 2 * L.nrows - 1, L.nrows)
        yield "row-r-is-pile-item", implies(inr, k["pile"] - off == ite(vs != 0, 2 * k["row"], k["row"]))
        yield "blank-rows-between-rows", implies(both(off <= L.Q, L.Q < L.plen), both(L.Qset, _pile_item(L, vs, off)))
        yield "divider-is-v-sep-rows-high", implies(vs >= 1, L.divtop + 1 == vs)
        # C08: the focus of the display widget is the GridFlow's focus position
        yield "display-focus-is-the-focus-cell", both(f["placed"], L.pfocus == f["pile"] - off, f["rfocus"] == f["pos"])
        yield "pile-selectable-flag-refreshed-last", neg(L.stale)
        yield "gridflow-untouched", both(n_cells(s) == n, s._contents._focus == old._contents._focus, len([e for e in st.trace if e[0] == "write"]) == 0)

    def ensures_callee(old, s, a, result):
        yield "built-from-the-current-cells", _display_cells(result) == n_cells(old)

    def effects(old, s, a, result):
        cur().event("generate", a.size, result)

    loops = {0: Loop(invariant=_gen_inv, modifies=("p",), shapes={"c": COLS_SHAPE, "pad": PAD_SHAPE, "column_focused": Bool})}


# ------------------------------------------------------------------------------------------------ cross-checks against CPython / the real classes
def _xc_model_vs_real():
    """The API model and the layout clauses, read off REAL display widgets: for small GridFlows the real
    generate_display_widget is run and the real Pile / Padding / Columns / Divider objects are compared with what the
    clauses above say (widths, rows, row breaks by the geometric rule, first_position, Padding width, dividers, focus)."""
    import warnings

    bad = []
    n_cases = 0
    with warnings.catch_warnings():
        warnings.simplefilter("ignore")
        for n in range(0, 5):
            for cw in (1, 3):
                for h in (0, 1, 2):
                    for vs in (0, 1, 3):
                        for maxcol in (1, 2, 4, 7, 8, 11):
                            for f in range(max(n, 1)):
                                cells = [urwid.Text(str(j)) if j % 2 else urwid.SelectableIcon(str(j)) for j in range(n)]
                                g = urwid.GridFlow(cells, cw, h, vs, "left", focus=f if n else None)
                                d = g.generate_display_widget((maxcol,))
                                n_cases += 1
                                case = (n, cw, h, vs, maxcol, f)
                                if n == 0:
                                    if not (isinstance(d, urwid.Divider) and d.rows((maxcol,)) == 1):
                                        bad.append((case, "empty"))
                                    continue
                                rows, x, prev = [], 0, None
                                for k in range(n):
                                    w = min(cw, maxcol)
                                    if prev is None or maxcol - (prev[0] + prev[1] + h) < cw:
                                        rows.append([])
                                        x = 0
                                    else:
                                        x = prev[0] + prev[1] + h
                                    rows[-1].append((k, w, x))
                                    prev = (x, w)
                                items = list(d.contents)
                                want_len = 2 * len(rows) - 1 if vs else len(rows)
                                ok = isinstance(d, urwid.Pile) and len(items) == want_len and all(o == ("weight", 1) for _w, o in items)
                                for r, row in enumerate(rows):
                                    if not ok:
                                        break
                                    pad = items[2 * r if vs else r][0]
                                    ok = ok and isinstance(pad, urwid.Padding) and pad.first_position == row[0][0] and pad.width == row[-1][2] + row[-1][1]
                                    c = pad.original_widget
                                    ok = ok and isinstance(c, urwid.Columns) and c.dividechars == h and len(c.contents) == len(row)
                                    ok = ok and all(cc[0] is cells[k] and cc[1] == ("given", w, False) for cc, (k, w, _x) in zip(c.contents, row))
                                    if any(k == f for k, _w, _x in row):
                                        ok = ok and d.focus_position == (2 * r if vs else r) and c.focus_position == f - row[0][0]
                                    if vs and r > 0:
                                        dv = items[2 * r - 1][0]
                                        ok = ok and isinstance(dv, urwid.Divider) and dv.rows((maxcol,)) == vs
                                ok = ok and d.selectable() == any(c.selectable() for c in cells)
                                if not ok:
                                    bad.append((case, "layout"))
    # the MonitoredFocusList rules the Pile model uses
    p = urwid.Pile([])
    a, b = urwid.Divider(), urwid.Divider()
    p.contents.append((a, p.options()))
    p.contents.append((b, p.options()))
    ok2 = p.focus_position == 0 and p.options() == ("weight", 1) and urwid.Columns([], 2).options("given", 5) == ("given", 5, False)
    p.focus_position = 1
    del p.contents[:1]
    ok2 = ok2 and p.focus_position == 0 and p.focus is b
    del p.contents[:1]
    ok2 = ok2 and len(p.contents) == 0
    if not ok2:
        bad.append(("pile", "focus rules"))
    return "api-model-and-clauses-agree-with-the-real-widgets", not bad, f"{n_cases} real GridFlows; mismatches: {bad[:5]}"


def _xc_engine():
    """The engine rules added with these contracts, against CPython: truth of an object whose class defines __len__;
    the closure cell of a method of a function-local class; operator.attrgetter."""
    import operator

    bad = []
    for obj, want in ((urwid.Pile([]), False), (urwid.Pile([urwid.Text("a")]), True), (urwid.GridFlow([], 1, 0, 0, "left"), False),
                      (urwid.GridFlow([urwid.Text("a")], 1, 0, 0, "left"), True), (urwid.Columns([]), False), (urwid.Text(""), True), (urwid.Divider(), True)):
        rule = (len(obj) != 0) if hasattr(type(obj), "__len__") else True
        if bool(obj) is not want or rule is not want:
            bad.append(("truth", type(obj).__name__))
    import inspect

    for name in ("keypress", "render", "rows", "pack", "mouse_event", "get_cursor_coords"):
        raw = inspect.getattr_static(urwid.WidgetWrap.__mro__[1], name)
        raw = raw.fget if isinstance(raw, property) else raw
        while "get_delegate" not in getattr(getattr(raw, "__code__", None), "co_freevars", ()) and hasattr(raw, "__wrapped__"):
            raw = raw.__wrapped__
        cell = raw.__closure__[raw.__code__.co_freevars.index("get_delegate")].cell_contents
        if not (isinstance(cell, operator.attrgetter) and cell.__reduce__()[1] == ("_wrapped_widget",)):
            bad.append(("closure", name))
    w = urwid.WidgetWrap(urwid.Text("x"))
    if operator.attrgetter("_wrapped_widget")(w) is not w._wrapped_widget or operator.attrgetter("_w.align", "_w")(w) != (w._w.align, w._w):
        bad.append(("attrgetter",))
    if urwid.WidgetWrap.__mro__[1].__qualname__ != "delegate_to_widget_mixin.<locals>.DelegateToWidgetMixin":
        bad.append(("qualname",))
    return "engine-rules-agree-with-cpython", not bad, f"mismatches: {bad}"


gf_generate.static_checks = [_xc_model_vs_real, _xc_engine]
