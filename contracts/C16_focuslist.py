"""C16 — MonitoredFocusList: contracts on the real methods of urwid/widget/monitored_list.py."""
from pyvc.api import *
from pyvc.values import cur, is_none, mk_bool
from pyvc import seqs as Q
from spec.focus import focus_after
from pyvc.seqs import range_len as range_count

from urwid.widget import monitored_list as _ml

ML = "urwid/widget/monitored_list.py:"
ITEM = Opaque("Item")
MFL = Obj(_ml.MonitoredFocusList, dict(items=ListOf(ITEM), _focus=Int), base_list="items")


def length(x):
    return Q.seq_len(x) if isinstance(x, Sym) else len(x)


def RI(s):
    n = length(s.items)
    return either(both(n == 0, s._focus == 0), both(0 <= s._focus, s._focus < n))


def slice_parts(slc):
    """(start, stop, step) as slice.indices would give — through the builtin model (dual use)."""
    return slc


def make_mfl(selfvals, keep_items=False):
    n = len(selfvals["items"])
    ml = _ml.MonitoredFocusList(list(selfvals["items"]) if keep_items else list(range(n)), focus=selfvals["_focus"] if n else 0)
    ml._trace = []
    ml.set_modified_callback(lambda: ml._trace.append(("_modified", list(ml))))
    ml.set_focus_changed_callback(lambda i: ml._trace.append(("_focus_changed", i)))
    return ml


def observe_mfl(ml):
    final = list(ml)
    trace = []
    for ev in getattr(ml, "_trace", []):
        if ev[0] == "_modified":
            trace.extend([("list-op",), ("_modified",)] if ev[1] == final else [("_modified",), ("list-op",)])
        else:
            trace.append(ev)
    return dict(items=final, _focus=ml._focus, trace=trace)


# ---- assumed contracts for the monkey-patchable callbacks (defaults do nothing; user callbacks are opaque)

@contract(ML + "MonitoredList._modified", property=(), assumed=True, notes="user 'modified' callback: opaque, logged in the ghost trace")
class _modified:
    self_shape = MFL
    log_event = "_modified"


@contract(ML + "MonitoredFocusList._focus_changed", property=(), assumed=True, notes="user 'focus changed' callback: opaque, logged")
class _focus_changed:
    self_shape = MFL
    log_event = "_focus_changed"


@contract(ML + "MonitoredFocusList._validate_contents_modified", property=(), assumed=True,
          notes="default validator returns None (Pile/Columns validators also return None)")
class _validate:
    self_shape = MFL
    pure_spec = staticmethod(lambda old, a: None)


# ---- the focus arithmetic

@contract(ML + "MonitoredFocusList._adjust_focus_on_contents_modified", property="C16")
class adjust_focus:
    self_shape = MFL
    params = dict(slc=Slice(), new_items=TupleOf(ITEM))
    result = Int
    raises = (ValueError,)  # slice step 0: the same error the list operation itself raises
    raises_iff = {ValueError: lambda s, a: (not is_none(a.slc.step)) and (a.slc.step == 0)}
    invariant = staticmethod(RI)

    def on_raise(old, s, a, exc):
        yield "only-step-zero", (not is_none(a.slc.step)) and (a.slc.step == 0)
        yield "unchanged", both(s._focus == old._focus, length(s.items) == length(old.items))

    def requires(s, a):
        return True

    def ensures(old, s, a, result):
        n = length(old.items)
        k = length(a.new_items)
        start, stop, step = Q.slice_indices(a.slc, n)
        cnt = range_count(start, stop, step)
        removed = ite(step == 1, imax(stop, start) - start, cnt)  # what the list operation removes/replaces
        n2 = ite(either(step == 1, k == 0), n + k - removed, n)
        yield "frame", both(s._focus == old._focus, length(s.items) == n)
        if n > 0:
            if either(step == 1, k == 0, k == cnt):
                yield "focus-follows-item", result == focus_after(n, old._focus, start, stop, step, k)
        yield "in-range", implies(both(n2 > 0, either(step == 1, k == 0, k == cnt)), both(0 <= result, result < n2))

    def make_self(selfvals):
        return make_mfl(selfvals)

    def observe(ml):
        return observe_mfl(ml)

    def native_call(fn, kwargs):
        return fn(kwargs["slc"], [None] * len(kwargs["new_items"]))


# ---- focus property

@contract(ML + "MonitoredFocusList.focus", property="C16")
class focus_get:
    self_shape = MFL
    result = Opt(Int)
    invariant = staticmethod(RI)

    def ensures(old, s, a, result):
        n = length(old.items)
        if n == 0:
            yield "none-iff-empty", is_none(result)
        else:
            yield "none-iff-empty", neg(is_none(result))
            yield "value", result == old._focus
        yield "frame", both(s._focus == old._focus, length(s.items) == n, len(s.trace) == 0)

    make_self = staticmethod(make_mfl)
    observe = staticmethod(observe_mfl)


@contract(ML + "MonitoredFocusList.focus.setter", property="C16")
class focus_set:
    self_shape = MFL
    params = dict(index=Int)
    raises = (IndexError,)
    raises_iff = {IndexError: lambda s, a: both(length(s.items) > 0, either(a.index < 0, a.index >= length(s.items)))}
    modifies = ("_focus",)
    invariant = staticmethod(RI)
    # the mutators call the setter while the invariant is broken (list already changed, focus not yet adjusted):
    # its body is verified for ANY stored focus, and it must establish the invariant (empty list: focus 0)
    establishes_invariant = True

    def ensures(old, s, a, result):
        n = length(old.items)
        yield "list-untouched", both(length(s.items) == n, count_ev(s.trace, "list-op") == 0, count_ev(s.trace, "_modified") == 0)
        if n == 0:
            yield "empty", both(s._focus == 0, count_ev(s.trace, "_focus_changed") == 0)
        else:
            yield "stored", s._focus == a.index
            if a.index != old._focus:
                yield "changed-once", both(count_ev(s.trace, "_focus_changed") == 1, eq(ev_args(s.trace, "_focus_changed")[0][0], a.index) if count_ev(s.trace, "_focus_changed") == 1 else False)
            else:
                yield "not-changed", count_ev(s.trace, "_focus_changed") == 0

    def on_raise(old, s, a, exc):
        n = length(old.items)
        yield "only-when-invalid", both(n > 0, either(a.index < 0, a.index >= n))
        yield "unchanged", both(s._focus == old._focus, len(s.trace) == 0)

    def effects(old, s, a, result):
        if length(old.items) > 0:
            if a.index != old._focus:
                s.trace.append(("_focus_changed", a.index))

    make_self = staticmethod(make_mfl)
    observe = staticmethod(observe_mfl)


# ---- mutators

from pyvc.seqs import SSlice  # noqa: E402

INLINE = (ML + "_call_modified",) + tuple(ML + "MonitoredList." + m for m in (
    "__delitem__", "__setitem__", "__imul__", "__iadd__", "append", "extend", "pop", "insert", "remove", "reverse", "sort", "clear"))


def is_slice(x):
    return isinstance(x, (SSlice, slice))


def norm_int_index(i, n):
    return ite(i < 0, i + n, i)


def op_named(ops, name):
    """The first recorded list operation is `name` (replay: the native trace records that an operation ran, not its name)."""
    if not ops:
        return False
    return ops[0][0] == name if ops[0] else True


def is_walker(s):
    """The receiver is a list walker (contracts/C16_walkers.py verifies the same mutator bodies for a SimpleFocusListWalker):
    its `_modified` is ListWalker._modified -- the 'modified' SIGNAL, ghost event "modified-signal" -- and its
    `_focus_changed` is whatever the walker class defines, executed (inlined), so it leaves no event of its own."""
    cls = getattr(s, "cls", None)
    return isinstance(cls, type) and any(c.__name__ == "ListWalker" for c in cls.__mro__)


def modified_event(s):
    return "modified-signal" if is_walker(s) else "_modified"


def modified_once_after(s):
    """The modified callback / signal fires exactly once per call, after the built-in list operation."""
    ev = modified_event(s)
    return both(count_ev(s.trace, ev) == 1, ev_before(s.trace, "list-op", ev))


def focus_changed_clauses(old, s):
    if is_walker(s):
        return
    fc = ev_args(s.trace, "_focus_changed")
    if s._focus != old._focus:
        yield "focus-changed-fires", both(len(fc) == 1, eq(fc[0][0], s._focus) if len(fc) == 1 else False)
    else:
        yield "focus-changed-silent", len(fc) == 0


def mutator_post(old, s, touched, k, opname, opargs):
    """Common postcondition of a successful mutator; touched = (start, stop, step) per list semantics."""
    n = length(old.items)
    start, stop, step = touched
    cnt = range_count(start, stop, step)
    removed = ite(step == 1, imax(stop, start) - start, cnt)
    n2 = n + k - removed
    ops = ev_args(s.trace, "list-op")
    yield "one-list-op", both(len(ops) == 1, op_named(ops, opname))
    yield "length", length(s.items) == n2
    yield "modified-once-after", modified_once_after(s)
    if n2 > 0:
        if n > 0:
            yield "focus-follows-item", s._focus == focus_after(n, old._focus, start, stop, step, k)
            yield from focus_changed_clauses(old, s)


def unchanged_on_raise(old, s):
    yield "unchanged", both(length(s.items) == length(old.items), s._focus == old._focus,
                            count_ev(s.trace, modified_event(s)) == 0, count_ev(s.trace, "list-op") == 0, count_ev(s.trace, "_focus_changed") == 0)


class _MutBase:
    self_shape = MFL
    invariant = staticmethod(RI)
    inline = INLINE
    make_self = staticmethod(make_mfl)
    observe = staticmethod(observe_mfl)


@contract(ML + "MonitoredFocusList.__delitem__", property="C16")
class delitem(_MutBase):
    self_shape = MFL
    invariant = staticmethod(RI)
    inline = INLINE
    make_self = staticmethod(make_mfl)
    observe = staticmethod(observe_mfl)
    params = dict(y=Union(Int, Slice()))
    raises = (IndexError, ValueError)

    def ensures(old, s, a, result):
        n = length(old.items)
        if is_slice(a.y):
            touched = Q.slice_indices(a.y, n)
        else:
            i = norm_int_index(a.y, n)
            yield "index-was-valid", both(0 <= i, i < n)
            touched = (i, i + 1, 1)
        yield from mutator_post(old, s, touched, 0, "__delitem__", (a.y,))

    def on_raise(old, s, a, exc):
        yield from unchanged_on_raise(old, s)
        if not is_slice(a.y):
            i = norm_int_index(a.y, length(old.items))
            yield "only-when-invalid", either(i < 0, i >= length(old.items))


@contract(ML + "MonitoredFocusList.__setitem__", property="C16")
class setitem:
    self_shape = MFL
    invariant = staticmethod(RI)
    inline = INLINE
    make_self = staticmethod(make_mfl)
    observe = staticmethod(observe_mfl)
    params = dict(i=Union(Int, Slice()), y=Union(ITEM, TupleOf(ITEM)))
    raises = (IndexError, ValueError)

    def requires(s, a):
        return (not is_slice(a.i)) or isinstance(a.y, (Q.SSeq, tuple, list))

    def ensures(old, s, a, result):
        n = length(old.items)
        if is_slice(a.i):
            touched = Q.slice_indices(a.i, n)
            k = length(a.y)
            if touched[2] != 1:
                yield "extended-size-matches", k == range_count(*touched)
                # in-place replacement: list semantics keep the length
                yield "length", length(s.items) == n
                yield "focus-kept", implies(n > 0, s._focus == old._focus)
                yield "modified-once-after", modified_once_after(s)
                yield "focus-changed-silent", count_ev(s.trace, "_focus_changed") == 0
                return
        else:
            j = norm_int_index(a.i, n)
            yield "index-was-valid", both(0 <= j, j < n)
            touched = (j, j + 1, 1)
            k = 1
        yield from mutator_post(old, s, touched, k, "__setitem__", (a.i, a.y))

    def on_raise(old, s, a, exc):
        yield from unchanged_on_raise(old, s)

    def native_call(fn, kwargs):
        return fn(kwargs["i"], list(kwargs["y"]) if isinstance(kwargs["i"], slice) else kwargs["y"])


@contract(ML + "MonitoredFocusList.__imul__", property="C16")
class imul:
    self_shape = MFL
    invariant = staticmethod(RI)
    inline = INLINE
    make_self = staticmethod(make_mfl)
    observe = staticmethod(observe_mfl)
    params = dict(n=Int)

    def ensures(old, s, a, result):
        ln = length(old.items)
        if a.n > 0:
            yield from mutator_post(old, s, (ln, ln, 1), ln * (a.n - 1), "__imul__", (a.n,))
        else:
            yield from mutator_post(old, s, (0, ln, 1), 0, "__imul__", (a.n,))


@contract(ML + "MonitoredFocusList.append", property="C16")
class append:
    self_shape = MFL
    invariant = staticmethod(RI)
    inline = INLINE
    make_self = staticmethod(make_mfl)
    observe = staticmethod(observe_mfl)
    params = dict(item=ITEM)

    def ensures(old, s, a, result):
        ln = length(old.items)
        yield from mutator_post(old, s, (ln, ln, 1), 1, "append", (a.item,))


@contract(ML + "MonitoredFocusList.extend", property="C16")
class extend:
    self_shape = MFL
    invariant = staticmethod(RI)
    inline = INLINE
    make_self = staticmethod(make_mfl)
    observe = staticmethod(observe_mfl)
    params = dict(items=TupleOf(ITEM))

    def ensures(old, s, a, result):
        ln = length(old.items)
        yield from mutator_post(old, s, (ln, ln, 1), length(a.items), "extend", (a.items,))

    def native_call(fn, kwargs):
        return fn(list(kwargs["items"]))


@contract(ML + "MonitoredFocusList.insert", property="C16")
class insert:
    self_shape = MFL
    invariant = staticmethod(RI)
    inline = INLINE
    make_self = staticmethod(make_mfl)
    observe = staticmethod(observe_mfl)
    params = dict(index=Int, item=ITEM)

    def ensures(old, s, a, result):
        ln = length(old.items)
        i = ite(a.index < 0, imax(a.index + ln, 0), imin(a.index, ln))  # list.insert clamps
        yield from mutator_post(old, s, (i, i, 1), 1, "insert", (a.index, a.item))


@contract(ML + "MonitoredFocusList.pop", property="C16")
class pop:
    self_shape = MFL
    invariant = staticmethod(RI)
    inline = INLINE
    make_self = staticmethod(make_mfl)
    observe = staticmethod(observe_mfl)
    params = dict(index=Int)
    raises = (IndexError,)

    def ensures(old, s, a, result):
        n = length(old.items)
        i = norm_int_index(a.index, n)
        yield "index-was-valid", both(0 <= i, i < n)
        yield from mutator_post(old, s, (i, i + 1, 1), 0, "pop", (a.index,))

    def on_raise(old, s, a, exc):
        yield from unchanged_on_raise(old, s)
        i = norm_int_index(a.index, length(old.items))
        yield "only-when-invalid", either(i < 0, i >= length(old.items))


@contract(ML + "MonitoredFocusList.reverse", property="C16")
class reverse:
    self_shape = MFL
    invariant = staticmethod(RI)
    inline = INLINE
    make_self = staticmethod(make_mfl)
    observe = staticmethod(observe_mfl)

    def ensures(old, s, a, result):
        n = length(old.items)
        ops = ev_args(s.trace, "list-op")
        yield "one-list-op", both(len(ops) == 1, op_named(ops, "reverse"))
        yield "length", length(s.items) == n
        yield "modified-once-after", modified_once_after(s)
        if n > 0:
            yield "focus-follows-item", s._focus == n - 1 - old._focus
            yield from focus_changed_clauses(old, s)


@contract(ML + "MonitoredFocusList.clear", property="C16")
class clear:
    self_shape = MFL
    invariant = staticmethod(RI)
    inline = INLINE
    make_self = staticmethod(make_mfl)
    observe = staticmethod(observe_mfl)

    def ensures(old, s, a, result):
        ops = ev_args(s.trace, "list-op")
        yield "one-list-op", both(len(ops) == 1, op_named(ops, "clear"))
        yield "empty", length(s.items) == 0
        yield "modified-once-after", modified_once_after(s)


def first_index(old, s, value):
    """Index of the first item equal to `value` in the old list (dual use)."""
    if isinstance(old.items, (list, tuple)):
        return list(old.items).index(value)
    ops = [ev for ev in s.trace if ev[0] == "list-op"]
    return ops[0][2]


def item_at(items, i):
    return Q.seq_get(items, i) if isinstance(items, Sym) else items[i]


@contract(ML + "MonitoredFocusList.remove", property="C16")
class remove:
    self_shape = MFL
    invariant = staticmethod(RI)
    inline = INLINE
    make_self = staticmethod(make_mfl)
    observe = staticmethod(observe_mfl)
    params = dict(value=ITEM)
    raises = (ValueError,)

    def ensures(old, s, a, result):
        n = length(old.items)
        i = first_index(old, s, a.value)
        if i is None:
            # the body did not perform `list.remove(value)` (the ghost trace records no removed index): the clauses below
            # cannot be stated -- an obligation that fails, not a crash of the contract
            yield "one-list-remove-of-the-callers-value", False
            return
        yield "removed-an-equal-item", both(0 <= i, i < n, eq(item_at(old.items, i), a.value))
        yield from mutator_post(old, s, (i, i + 1, 1), 0, "remove", (a.value,))

    def on_raise(old, s, a, exc):
        yield from unchanged_on_raise(old, s)

    def make_self(selfvals):
        return make_mfl(selfvals, keep_items=True)


@contract(ML + "MonitoredFocusList.sort", property="C16")
class sort:
    self_shape = MFL
    invariant = staticmethod(RI)
    inline = INLINE
    observe = staticmethod(observe_mfl)
    assume_index_found = True  # sorting permutes: the old focus item is still in the list (assumption on list.sort)

    def ensures(old, s, a, result):
        n = length(old.items)
        yield "length", length(s.items) == n
        if n > 0:
            ops = ev_args(s.trace, "list-op")
            yield "one-list-op", both(len(ops) == 1, op_named(ops, "sort"))
            yield "modified-once-after", modified_once_after(s)
            yield "focus-follows-item", eq(item_at(s.items, s._focus), item_at(old.items, old._focus))
            yield from focus_changed_clauses(old, s)
        else:
            yield "noop-on-empty", len(s.trace) == 0

    def make_self(selfvals):
        return make_mfl(selfvals, keep_items=True)
