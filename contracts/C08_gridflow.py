"""C08 / C09 / C06 / C19 — GridFlow: the entry points around its display widget.

A GridFlow keeps its cells in `contents` (a MonitoredFocusList of `(widget, ('given', width))`) and draws them through a
*display widget* `self._w`: a Pile of Padding(Columns(cells of one row)) built by `generate_display_widget` for ONE
width `maxcol`.  Every entry point that takes a size must first make `self._w` the display widget for that size
(`get_display_widget(size)`), then delegate to it, and -- where the display widget may have moved its own focus
(keypress, mouse_event, move_cursor_to_coords) -- copy the focus of the display widget back into `contents.focus`.

Model.  The display widget is an opaque object of kind "DisplayWidget": it honours the widget protocol
(contracts/proto_widget.py) and exposes the three things `_set_focus_from_display_widget` reads:
    d.focus                      the focused Pile item: None (no item) or a row (kind "DisplayRow")
    row.base_widget              the Columns of that row (kind "DisplayColumns");  row.first_position  the index of its first cell
    cols.focus / cols.focus_position
How the display widget is built (which cells, which widths, which row breaks) is the contract of
`generate_display_widget` (contracts/C19_gridflow.py), verified there against the real loop; callers see its
result as a display widget "built from the current cells".
"""
import z3

from pyvc import seqs as Q
from pyvc import shapes as S
from pyvc import values as V
from pyvc.api import *
from pyvc.api import PROTOCOLS
from pyvc.protocol import PMethod, Protocol
from pyvc.values import cur, is_none, mk_bool, mk_int
from contracts.proto_widget import *
from contracts.proto_widget import WidgetProtocol
from contracts.C16_focuslist import RI as LIST_RI
from contracts.C09_geometry import calls, opt_eq_shift, opt_same

from urwid.widget import grid_flow as _gf
from urwid.widget import monitored_list as _mlmod

GF = "urwid/widget/grid_flow.py:"
WW = "urwid/widget/widget.py:"


def widget_truthy(st, w):
    """bool(w) of an opaque widget: True unless its class defines __len__ (an empty Pile / Columns / GridFlow / ListBox
    is falsy) -- an uninterpreted predicate, as in contracts/C09_frame.py."""
    f = z3.Function("Widget.truthy", w.e.sort(), z3.BoolSort())
    return mk_bool(f(w.e))


WIDGET = Opaque("Widget", truth=widget_truthy)
GITEM = Tup(WIDGET, Tup(Atom("given"), Int(0, 2**22 - 1)))  # width options are sane screen dimensions (DESIGN 3.6)
GCONTENTS = Obj(_mlmod.MonitoredFocusList, dict(items=ListOf(GITEM), _focus=Int), base_list="items")
DISPLAY = Opaque("DisplayWidget")
GRIDFLOW = Obj(_gf.GridFlow, dict(_contents=GCONTENTS, _cell_width=Int, h_sep=Int, v_sep=Int, align=Opaque("Align"),
                                  _cache_maxcol=Opt(Int), _wrapped_widget=DISPLAY))
GINL = (GF + "GridFlow.contents", WW + "WidgetWrap._w", GF + "GridFlow.cell_width", GF + "GridFlow.__len__")
PROTOCOLS.setdefault("Align", type("AlignProtocol", (Protocol,), {"kind": "Align", "methods": {}})())


def n_cells(s):
    return Q.seq_len(s._contents.items)


def cell_at(s, i):
    return Q.seq_get(s._contents.items, i)


def gf_ri(s):
    """C08: the focus position is a valid position (0 in an empty GridFlow)."""
    return LIST_RI(s._contents)


# ------------------------------------------------------------------------------------------------ the display widget
def _display_cells(d):
    """Ghost: the number of cells the display widget `d` was built from (fixed at construction)."""
    f = z3.Function("DisplayWidget.cells", d.e.sort(), z3.IntSort())
    return mk_int(f(d.e))


def display_focus_cell(st, d):
    """Ghost reading of the display widget: the cell position its focus designates --
    `d.focus.first_position + (d.focus.base_widget.focus_position if d.focus.base_widget.focus else 0)` -- or None when
    the display Pile has no focus item.  (contract-side: no events, no forks beyond the Opt cases)"""
    P = PROTOCOLS
    row = P["DisplayWidget"].getattr(None, st, d, "focus")
    if is_none(row):
        return None
    row = val(row)
    cols = P["DisplayRow"].getattr(None, st, row, "base_widget")
    first = P["DisplayRow"].getattr(None, st, row, "first_position")
    cf = P["DisplayColumns"].getattr(None, st, cols, "focus")
    if is_none(cf):
        return first
    return first + P["DisplayColumns"].getattr(None, st, cols, "focus_position")


class DisplayWidgetProtocol(WidgetProtocol):
    """The Pile built by generate_display_widget (or the lone Divider of an empty GridFlow): a widget, plus `.focus`."""
    kind = "DisplayWidget"
    attrs = {"focus": Opt(Opaque("DisplayRow"))}

    def uf_value(self, st, name, recv, argterms, shape, ver):
        # one family of uninterpreted functions with the widget protocol (its assumed clauses name PROTOCOLS["Widget"])
        from pyvc.protocol import uf_shape_value

        return uf_shape_value(st, f"Widget.{name}", [recv.e, z3.IntVal(ver)] + list(argterms), shape)

    def getattr(self, ip, st, obj, name):
        r = Protocol.getattr(self, ip, st, obj, name)
        if name == "focus":
            # (protocol axiom, a consequence of generate_display_widget's contract "rows-partition-the-cells" and of the
            #  focus validity of Pile / Columns, contracts/C08_focus.py: in every state of a display widget built from n
            #  cells its focus path designates one of these n cells; a display widget built from no cells has no focus)
            n = _display_cells(obj)
            st.assume(n >= 0)
            st.assume(implies(n == 0, mk_bool(r.isnone)))
            if not st.ghost.get("display_axiom_busy"):
                st.ghost["display_axiom_busy"] = True
                try:
                    row = r.val
                    cols = PROTOCOLS["DisplayRow"].getattr(ip, st, row, "base_widget")
                    first = PROTOCOLS["DisplayRow"].getattr(ip, st, row, "first_position")
                    cpos = PROTOCOLS["DisplayColumns"].getattr(ip, st, cols, "focus_position")
                    cf = PROTOCOLS["DisplayColumns"].getattr(ip, st, cols, "focus")
                    st.assume(implies(neg(mk_bool(r.isnone)), both(0 <= first, 0 <= cpos, first + cpos < n, neg(mk_bool(cf.isnone)))))
                finally:
                    st.ghost["display_axiom_busy"] = False
        return r


class DisplayRowProtocol(Protocol):
    """A Padding around the Columns of one row; `first_position` is the extra attribute generate_display_widget sets."""
    kind = "DisplayRow"
    methods = {}
    attrs = {"base_widget": Opaque("DisplayColumns"), "first_position": Int}


class DisplayColumnsProtocol(Protocol):
    kind = "DisplayColumns"
    methods = {}
    attrs = {"focus": Opt(WIDGET), "focus_position": Int}


PROTOCOLS["DisplayWidget"] = DisplayWidgetProtocol()
PROTOCOLS["DisplayRow"] = DisplayRowProtocol()
PROTOCOLS["DisplayColumns"] = DisplayColumnsProtocol()


def display_inv(s):
    """A cached display widget was built from the cells the GridFlow has now (their number, at least)."""
    if is_none(s._cache_maxcol):
        return True
    return _display_cells(s._wrapped_widget) == n_cells(s)


def gf_inv(s):
    return both(gf_ri(s), display_inv(s))


def display_calls(name=None):
    """Protocol calls made on a display widget (ghost trace)."""
    return [ev for ev in calls(name) if getattr(ev[1], "kind", None) == "DisplayWidget"]


def maxcol_of(s, size):
    """GridFlow._get_maxcol: the width the cells are arranged for."""
    if len(size) == 1:
        return size[0]
    n = n_cells(s)
    return ite(n > 0, n * s._cell_width + (n - 1) * s.h_sep, 0)


# ------------------------------------------------------------------------------------------------ focus position (C08)
@contract(GF + "GridFlow.focus_position", property="C08", inline=GINL, replayable=False)
class gf_fp_get:
    self_shape = GRIDFLOW
    result = Int
    raises = (IndexError,)
    invariant = staticmethod(gf_ri)  # (read by generate_display_widget while the display widget in place is the stale one)
    raises_iff = {IndexError: lambda s, a: n_cells(s) == 0}

    def ensures(old, s, a, result):
        yield "non-empty", n_cells(old) > 0
        yield "a-valid-position", both(0 <= result, result < n_cells(old), result == old._contents._focus)
        yield "nothing-written", len([e for e in cur().trace if e[0] == "write"]) == 0

    def on_raise(old, s, a, exc):
        yield "only-when-empty", n_cells(old) == 0

    def pure_spec(old, a):
        return old._contents._focus


@contract(GF + "GridFlow.focus_position.setter", property="C08", inline=GINL, replayable=False)
class gf_fp_set:
    self_shape = GRIDFLOW
    params = dict(position=Int)
    raises = (IndexError,)
    invariant = staticmethod(gf_ri)
    raises_iff = {IndexError: lambda s, a: either(a.position < 0, a.position >= n_cells(s))}
    # a focus change fires the list's focus-changed callback, which __init__ wires to GridFlow._invalidate (the cached
    # display widget is dropped): callers may not rely on `_cache_maxcol` afterwards
    modifies = ("_cache_maxcol",)

    def ensures(old, s, a, result):
        yield "was-a-valid-position", both(0 <= a.position, a.position < n_cells(old))
        yield "focus-is-that-child", s._contents._focus == a.position
        yield "contents-untouched", n_cells(s) == n_cells(old)
        fc = ev_args(s._contents.trace, "_focus_changed")
        yield "focus-change-announced-iff-changed", (both(len(fc) == 1, fc[0][0] == a.position if fc else False) if a.position != old._contents._focus else len(fc) == 0)

    def on_raise(old, s, a, exc):
        yield "only-for-an-invalid-position", either(a.position < 0, a.position >= n_cells(old))
        yield "nothing-written", both(s._contents._focus == old._contents._focus, n_cells(s) == n_cells(old), len(s._contents.trace) == 0)

    def effects(old, s, a, result):
        s._contents.fields["_focus"] = a.position
        s.fields["_wrapped_widget"] = old._wrapped_widget


@contract(GF + "GridFlow.focus", property="C08", inline=GINL, replayable=False)
class gf_focus:
    self_shape = GRIDFLOW
    result = Opt(WIDGET)
    invariant = staticmethod(gf_inv)
    raises = ()

    def ensures(old, s, a, result):
        if n_cells(old) == 0:
            yield "no-focus-when-empty", is_none(result)
        else:
            yield "focus-is-the-child-at-the-focus-position", both(neg(is_none(result)), eq(val(result), cell_at(old, old._contents._focus)[0]) if not is_none(result) else False)


@contract(GF + "GridFlow.selectable", property="C08", inline=GINL, replayable=False)
class gf_selectable:
    self_shape = GRIDFLOW
    result = Bool
    invariant = staticmethod(gf_inv)
    raises = ()

    def ensures(old, s, a, result):
        W = PROTOCOLS["Widget"]
        st = cur()
        n = n_cells(old)
        sel = lambda j: W.call_quiet(st, cell_at(old, j)[0], "selectable", {})  # noqa: E731
        # the statement: selectable exactly when one of its children is -- whatever display widget is cached
        if result:
            yield "selectable-only-if-a-child-is", neg(forall(0, n, lambda j: neg(sel(j))))
        else:
            yield "unselectable-only-if-no-child-is", forall(0, n, lambda j: neg(sel(j)))
        yield "display-widget-not-consulted", len(display_calls()) == 0


@contract(GF + "GridFlow._invalidate", property=("C06", "C08"), inline=GINL, replayable=False)
class gf_invalidate:
    self_shape = GRIDFLOW
    invariant = staticmethod(gf_inv)
    raises = ()
    modifies = ("_cache_maxcol",)

    def ensures(old, s, a, result):
        yield "cached-display-widget-dropped", is_none(s._cache_maxcol)
        yield "canvases-invalidated", count_ev(s.trace, "_invalidate") == 1
        yield "contents-untouched", both(n_cells(s) == n_cells(old), s._contents._focus == old._contents._focus)

    def effects(old, s, a, result):
        s.fields["_cache_maxcol"] = None
        s.trace.append(("_invalidate",))


# ------------------------------------------------------------------------------------------------ the display-widget cache
GSIZE = Union(Tup(Dim), Tup())     # a GridFlow is a flow widget; () asks for its natural width (FIXED)


def gf_wf(s, size=None):
    """Sane numbers (DESIGN 3.6) and non-negative separators / widths."""
    r = both(0 <= s._cell_width, s._cell_width < PARTMAX, 0 <= s.h_sep, s.h_sep < PARTMAX, 0 <= s.v_sep, s.v_sep < PARTMAX, n_cells(s) < 2**16)
    return r


def _same_cells(old, s):
    return both(n_cells(s) == n_cells(old), s._contents._focus == old._contents._focus)


def _gdw_state(old, s, a, result):
    """get_display_widget: what holds of the state afterwards (callers see exactly this)."""
    m = maxcol_of(old, a.size)
    yield "result-is-the-display-widget", eq(result, s._wrapped_widget)
    yield "built-from-the-current-cells", _display_cells(s._wrapped_widget) == n_cells(old)
    if (not is_none(old._cache_maxcol)) and val(old._cache_maxcol) == m:
        yield "cache-hit-keeps-the-display-widget", both(eq(s._wrapped_widget, old._wrapped_widget), (not is_none(s._cache_maxcol)) and val(s._cache_maxcol) == m)
    else:
        # (`self._w = ...` runs WidgetWrap's setter, whose self._invalidate() is GridFlow._invalidate: the key just
        #  stored is dropped again, so on the tree as it is the cache never hits after the first rebuild -- a performance
        #  matter only; what C06 needs is that the key never names ANOTHER width than the one `_w` was built for)
        yield "cache-key-names-no-other-width", (True if is_none(s._cache_maxcol) else val(s._cache_maxcol) == m)
    yield "cells-untouched", _same_cells(old, s)


@contract(GF + "GridFlow.get_display_widget", property=("C06", "C08", "C09"), replayable=False,
          inline=GINL + (GF + "GridFlow._get_maxcol", WW + "WidgetWrap._w.setter"))
class gf_get_display_widget:
    self_shape = GRIDFLOW
    params = dict(size=GSIZE)
    result = DISPLAY
    invariant = staticmethod(gf_inv)
    raises = ()
    modifies = ("_wrapped_widget", "_cache_maxcol")

    def requires(s, a):
        return gf_wf(s)

    def ensures(old, s, a, result):
        yield from _gdw_state(old, s, a, result)
        m = maxcol_of(old, a.size)
        gen = [e for e in cur().trace if e[0] == "generate"]
        if (not is_none(old._cache_maxcol)) and val(old._cache_maxcol) == m:
            yield "cache-hit-builds-nothing", both(len(gen) == 0, count_ev(s.trace, "_invalidate") == 0)
        else:
            yield "rebuilt-once-for-this-width", both(len(gen) == 1, (len(gen[0][1]) == 1 and gen[0][1][0] == m) if gen else False)
            yield "the-new-display-widget-is-installed", eq(s._wrapped_widget, gen[0][2]) if gen else False
            yield "canvases-invalidated", count_ev(s.trace, "_invalidate") == 1
        yield "display-widget-not-consulted", len(display_calls()) == 0

    def ensures_callee(old, s, a, result):
        yield from _gdw_state(old, s, a, result)

    def effects(old, s, a, result):
        s._contents.fields["_focus"] = old._contents._focus
        s.fields["_wrapped_widget"] = result  # one name for the display widget in place (its state versions are per name)
        cur().event("refresh", a.size, result)


# ------------------------------------------------------------------------------------------------ focus written back (C08)
def display_ok(s):
    """The display widget in place was built from the cells the GridFlow has now."""
    return _display_cells(s._wrapped_widget) == n_cells(s)


@contract(GF + "GridFlow._set_focus_from_display_widget", property="C08", inline=GINL, replayable=False)
class gf_set_focus_from_dw:
    self_shape = GRIDFLOW
    invariant = staticmethod(gf_ri)
    raises = ()
    modifies = ("_cache_maxcol",)

    def requires(s, a):
        return display_ok(s)

    def ensures(old, s, a, result):
        want = display_focus_cell(cur(), old._wrapped_widget)
        if want is None:
            yield "display-widget-without-focus-changes-nothing", s._contents._focus == old._contents._focus
        else:
            # the statement: the focus position is the position of the cell focused in the display widget
            # (failed before fix: commit e2a8602 for a focus cell that is falsy -- an empty container, whose class defines
            #  __len__: `if c.focus:` made the position first_position + 0; the truthiness of a cell stays an uninterpreted predicate here)
            row = val(PROTOCOLS["DisplayWidget"].getattr(None, cur(), old._wrapped_widget, "focus"))
            cols = PROTOCOLS["DisplayRow"].getattr(None, cur(), row, "base_widget")
            cf = PROTOCOLS["DisplayColumns"].getattr(None, cur(), cols, "focus")
            first = PROTOCOLS["DisplayRow"].getattr(None, cur(), row, "first_position")
            cpos = PROTOCOLS["DisplayColumns"].getattr(None, cur(), cols, "focus_position")
            yield "focus-is-the-cell-focused-in-the-display-widget", s._contents._focus == first + cpos
            yield "a-valid-position", both(0 <= s._contents._focus, s._contents._focus < n_cells(old))
        yield "cells-and-display-widget-untouched", both(n_cells(s) == n_cells(old), eq(s._wrapped_widget, old._wrapped_widget))
        yield "display-widget-not-called", len(display_calls()) == 0

    def effects(old, s, a, result):
        s.fields["_wrapped_widget"] = old._wrapped_widget


# ------------------------------------------------------------------------------------------------ entry points that take a size
def _at_exit(fn):
    """Evaluate a ghost reading of an opaque object in its state at the exit of the function under verification
    (postconditions otherwise read the children as they were at entry, pyvc/api.py VerifyTask.body)."""
    st = cur()
    saved = st.ghost.get("ver")
    post = st.ghost.get("ver_post")
    if post is not None:
        st.ghost["ver"] = dict(post)
    try:
        return fn()
    finally:
        st.ghost["ver"] = saved


def _display_has(obj, name):
    """A display Pile has the cursor protocol; the lone Divider of an empty GridFlow has not (its class does not define
    get_cursor_coords / move_cursor_to_coords / get_pref_col); both have keypress, mouse_event, rows, render, pack."""
    if name in ("get_cursor_coords", "move_cursor_to_coords", "get_pref_col"):
        return _display_cells(obj) > 0
    return True


DisplayWidgetProtocol.hasattr = lambda self, ip, st, obj, name: _display_has(obj, name)
DisplayWidgetProtocol.has = dict(WidgetProtocol.has, mouse_event=True)


def _events():
    """The ghost trace restricted to what matters here: display-widget refreshes and calls on a display widget."""
    return [e for e in cur().trace if e[0] == "refresh" or (e[0] == "call" and getattr(e[1], "kind", None) == "DisplayWidget")]


def _refreshed_then(name, a, argnames):
    """(clauses, the call event or None): the display widget was made current for a.size FIRST, and then `name` was
    called exactly once, on that very display widget, with the caller's own arguments."""
    ev = _events()
    ok_refresh = len(ev) >= 1 and ev[0][0] == "refresh" and eq(ev[0][1], a.size)
    call = ev[1] if len(ev) == 2 and ev[1][0] == "call" and ev[1][2] == name else None
    clauses = [("display-widget-made-current-for-this-size-first", ok_refresh)]
    if call is None:
        clauses.append((f"then-{name}-delegated-once", False))
    else:
        clauses.append((f"then-{name}-delegated-once-to-that-display-widget", both(eq(call[1], ev[0][2]), *[eq(call[3][k], getattr(a, k)) for k in argnames])))
    return clauses, call, (ev[0][2] if ev and ev[0][0] == "refresh" else None)


ENTRY_INL = GINL
SUPER = "urwid/widget/widget.py:delegate_to_widget_mixin.<locals>.DelegateToWidgetMixin."


def _entry(name, **kw):
    inl = ENTRY_INL + tuple(SUPER + m for m in ("render", "keypress", "rows", "pack", "get_cursor_coords", "move_cursor_to_coords", "mouse_event", "get_pref_col"))
    return contract(GF + "GridFlow." + name, replayable=False, inline=inl, **kw)


@_entry("keypress", property=("C08", "C09"))
class gf_keypress:
    self_shape = GRIDFLOW
    params = dict(size=GSIZE, key=Opaque("Key"))
    result = Opt(Opaque("Key"))
    invariant = staticmethod(gf_inv)
    raises = ()
    modifies = ("_wrapped_widget", "_cache_maxcol")

    def requires(s, a):
        return gf_wf(s)

    def ensures(old, s, a, result):
        clauses, call, d = _refreshed_then("keypress", a, ("size", "key"))
        yield from clauses
        if call is None:
            return
        # C08: the key goes to the display widget only (whose own focus path is Pile / Columns', contracts/C08_focus.py);
        # what it does not handle comes back as the display widget returned it
        yield "result-is-the-display-widgets", opt_same(result, call[4])
        if is_none(result):
            want = _at_exit(lambda: display_focus_cell(cur(), d))
            yield "handled-key-focus-follows-the-display-widget", (s._contents._focus == want if want is not None else s._contents._focus == old._contents._focus)
        else:
            yield "unhandled-key-leaves-the-focus", s._contents._focus == old._contents._focus
        yield "cells-untouched", n_cells(s) == n_cells(old)


def _size_ok(a):
    return True


def _after_refresh_state(old, s):
    """What callers of an entry point know of the GridFlow afterwards: the cells are as before."""
    return n_cells(s) == n_cells(old)


@_entry("rows", property=("C06", "C09", "C01"))
class gf_rows:
    self_shape = GRIDFLOW
    params = dict(size=Tup(Dim), focus=Bool)
    result = Dim
    invariant = staticmethod(gf_inv)
    raises = ()
    modifies = ("_wrapped_widget", "_cache_maxcol")

    def requires(s, a):
        return gf_wf(s)

    def ensures(old, s, a, result):
        clauses, call, d = _refreshed_then("rows", a, ("size", "focus"))
        yield from clauses
        if call is None:
            return
        yield "rows-of-the-display-widget-for-this-size", result == call[4]
        yield "focus-and-cells-untouched", _same_cells(old, s)

    def ensures_callee(old, s, a, result):
        W = PROTOCOLS["Widget"]
        yield "rows-of-the-display-widget-in-place", result == W.call_quiet(cur(), s._wrapped_widget, "rows", dict(size=a.size, focus=a.focus))
        yield "built-from-the-current-cells", _display_cells(s._wrapped_widget) == n_cells(old)
        yield "focus-and-cells-untouched", _same_cells(old, s)

    def effects(old, s, a, result):
        s._contents.fields["_focus"] = old._contents._focus
        cur().event("refresh", a.size, s._wrapped_widget)


@_entry("render", property=("C06", "C09", "C01"))
class gf_render:
    self_shape = GRIDFLOW
    params = dict(size=GSIZE, focus=Bool)
    result = CCANVAS
    invariant = staticmethod(gf_inv)
    raises = ()
    modifies = ("_wrapped_widget", "_cache_maxcol")

    def requires(s, a):
        return gf_wf(s)

    def ensures(old, s, a, r):
        clauses, call, d = _refreshed_then("render", a, ("size", "focus"))
        yield from clauses
        if call is None:
            return
        child = call[4]
        yield "canvas-is-the-display-widgets", both(r.ncols == child.ncols, r.nrows == child.nrows, opt_eq_shift(r.cursor, child.cursor, 0, 0))
        yield "focus-and-cells-untouched", _same_cells(old, s)


@_entry("pack", property=("C09", "C01"))
class gf_pack:
    self_shape = GRIDFLOW
    params = dict(size=GSIZE, focus=Bool)
    result = Tup(Int, Int)
    invariant = staticmethod(gf_inv)
    raises = ()
    modifies = ("_wrapped_widget", "_cache_maxcol")

    def requires(s, a):
        return gf_wf(s)

    def ensures(old, s, a, result):
        W = PROTOCOLS["Widget"]
        if len(a.size) == 1:
            # (failed before fix: commit b256678: pack((maxcol,)) measured whatever display widget was left in place)
            clauses, call, d = _refreshed_then("pack", a, ("size", "focus"))
            yield from clauses
            if call is not None:
                yield "measure-of-the-display-widget-for-this-size", both(result[0] == call[4][0], result[1] == call[4][1])
        else:
            # natural size: all cells on one row, and the rows the display widget for exactly that width has
            n = n_cells(old)
            cols = ite(n > 0, n * old._cell_width + (n - 1) * old.h_sep, 0)
            ev = _events()
            yield "natural-width-is-all-cells-on-one-row", result[0] == cols
            yield "display-widget-made-current-for-the-natural-width", both(len(ev) == 1, (ev[0][0] == "refresh" and len(ev[0][1]) == 1 and ev[0][1][0] == cols) if ev else False)
            if ev and ev[0][0] == "refresh":
                yield "rows-of-that-display-widget", result[1] == W.call_quiet(cur(), ev[0][2], "rows", dict(size=(cols,), focus=a.focus))
        yield "focus-and-cells-untouched", _same_cells(old, s)


def _focus_follows(old, s, d):
    want = _at_exit(lambda: display_focus_cell(cur(), d))
    return s._contents._focus == want if want is not None else s._contents._focus == old._contents._focus


def _cursor_query(method, result_shape, prop):
    @_entry(method, property=prop)
    class _q:
        self_shape = GRIDFLOW
        params = dict(size=GSIZE)
        result = result_shape
        invariant = staticmethod(gf_inv)
        # an empty GridFlow's display widget is a lone Divider, whose class has no cursor protocol: reading the
        # delegating property raises AttributeError, which is how hasattr(gridflow, method) comes out False
        raises = (AttributeError,)
        modifies = ("_wrapped_widget", "_cache_maxcol")

        def requires(s, a):
            return gf_wf(s)

        def ensures(old, s, a, result):
            W = PROTOCOLS["Widget"]
            yield "has-cells", n_cells(old) > 0
            clauses, call, d = _refreshed_then(method, a, ("size",))
            yield from clauses
            if call is None:
                return
            yield "answer-of-the-display-widget-for-this-size", opt_same(result, call[4])
            if method == "get_cursor_coords":
                # C09: the cursor reported without rendering is the cursor of the focused rendering (of what render() draws:
                # the display widget for this size)
                canv = W.call_quiet(cur(), d, "render", dict(size=a.size, focus=True))
                yield "equals-the-cursor-of-the-focused-rendering", opt_eq_shift(result, canv.cursor, 0, 0)
            yield "focus-and-cells-untouched", _same_cells(old, s)

        def on_raise(old, s, a, exc):
            yield "only-an-empty-gridflow-lacks-the-cursor-protocol", n_cells(old) == 0
            yield "focus-and-cells-untouched", _same_cells(old, s)

    _q.__name__ = f"gf_{method}"
    return _q


gf_gcc = _cursor_query("get_cursor_coords", Opt(Tup(Int, Int)), ("C09", "C06"))
gf_gpc = _cursor_query("get_pref_col", Opt(Int), "C09")


@_entry("move_cursor_to_coords", property=("C09", "C08"))
class gf_mctc:
    self_shape = GRIDFLOW
    params = dict(size=GSIZE, col=Int, row=Int)
    result = Bool
    invariant = staticmethod(gf_inv)
    raises = (AttributeError,)
    modifies = ("_wrapped_widget", "_cache_maxcol")

    def requires(s, a):
        return gf_wf(s)

    def ensures(old, s, a, result):
        yield "has-cells", n_cells(old) > 0
        clauses, call, d = _refreshed_then("move_cursor_to_coords", a, ("size", "col", "row"))
        yield from clauses
        if call is None:
            return
        # C09: succeeds exactly when the (display) widget accepts the same cell -- nothing is translated
        yield "answer-of-the-display-widget-for-this-size", eq(result, call[4])
        yield "focus-follows-the-display-widget", _focus_follows(old, s, d)
        yield "cells-untouched", n_cells(s) == n_cells(old)

    def on_raise(old, s, a, exc):
        yield "only-an-empty-gridflow-lacks-the-cursor-protocol", n_cells(old) == 0
        yield "focus-and-cells-untouched", _same_cells(old, s)


@_entry("mouse_event", property=("C09", "C08"))
class gf_mouse:
    self_shape = GRIDFLOW
    params = dict(size=GSIZE, event=Opaque("Key"), button=Int, col=Int, row=Int, focus=Bool)
    result = Bool
    invariant = staticmethod(gf_inv)
    raises = ()
    modifies = ("_wrapped_widget", "_cache_maxcol")

    def requires(s, a):
        return gf_wf(s)

    def ensures(old, s, a, result):
        clauses, call, d = _refreshed_then("mouse_event", a, ("size", "event", "button", "col", "row", "focus"))
        yield from clauses
        if call is None:
            return
        yield "always-handled", result == True  # noqa: E712
        yield "focus-follows-the-display-widget", _focus_follows(old, s, d)
        yield "cells-untouched", n_cells(s) == n_cells(old)


# ------------------------------------------------------------------------------------------------ contents validation (C08)
NEWITEM = Tup(WIDGET, Tup(Atom("given", "pack", "weight"), Opt(Int)))


def _all_given(items, upto):
    return forall(0, upto, lambda j: Q.seq_get(items, j)[1][0] == "given")


@contract(GF + "GridFlow._contents_modified", property="C08", inline=GINL, replayable=False)
class gf_contents_modified:
    """The validator the contents list runs BEFORE it changes (set_validate_contents_modified): only `(widget, ('given', n))`
    items may enter a GridFlow.  Items are modelled as well-formed (widget, (type, amount)) pairs; the TypeError /
    ValueError handler for items of another form is not exercised."""
    self_shape = GRIDFLOW
    params = dict(_slc=Tup(Int, Int, Int), new_items=TupleOf(NEWITEM))
    invariant = staticmethod(gf_inv)
    raises = (_gf.GridFlowError,)

    def ensures(old, s, a, result):
        yield "accepted-only-when-every-new-item-has-a-given-width", _all_given(a.new_items, Q.seq_len(a.new_items))
        yield "nothing-written", len([e for e in cur().trace if e[0] == "write"]) == 0
        yield "returns-none", result is None

    def on_raise(old, s, a, exc):
        yield "rejected-only-when-some-new-item-has-no-given-width", neg(_all_given(a.new_items, Q.seq_len(a.new_items)))
        yield "nothing-written", len([e for e in cur().trace if e[0] == "write"]) == 0

    loops = {0: Loop(invariant=lambda v: _all_given(v.new_items, v.i_))}


# the container shortcut `gridflow[p]` (contracts/C08_focus.py): the body of WidgetContainerMixin.__getitem__ verified for a GridFlow receiver
from contracts.C08_focus import _getitem_contract  # noqa: E402

container_getitem_gridflow = _getitem_contract(GRIDFLOW, GINL, alias="gridflow")
