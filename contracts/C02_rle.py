"""C02/C17 — run-length kernel of urwid/util.py against the expansion view:
RP(R,k) = total length of the first k runs; at(R,p) = attribute of the run covering position p."""
import z3

from pyvc import seqs as Q
from pyvc import shapes as S
from pyvc import values as V
from pyvc.api import *
from pyvc.values import cur, mk_bool, mk_int

UT = "urwid/util.py:"
ATTR = Opaque("Attr")
RUN = Tup(ATTR, Int(0, 2**30))
RLE = ListOf(RUN)
_IDS = {}


def _seq(r):
    return r.seq if hasattr(r, "seq") else r


def n_runs(r):
    return Q.seq_len(_seq(r))


def run_at(r, j):
    return Q.seq_get(_seq(r), j)


def RP(r, k):
    """Sum of the lengths of the first k runs of r (uninterpreted, one function per sequence value;
    the defining equation is instantiated by `rp_step`)."""
    s = _seq(r)
    f = z3.Function(f"RP${id(s)}", z3.IntSort(), z3.IntSort())
    _IDS[id(s)] = s  # keep alive
    cur().assume(f(0) == 0)
    return mk_int(f(V._z(k)))


def rp_step(r, j):
    """Definitional instance: RP(j+1) = RP(j) + run_j and run_j >= 0 (for 0 <= j < len)."""
    s = _seq(r)
    n = Q.seq_len(s)
    j = imax(0, imin(j, n - 1))
    if isinstance(n, int) and n == 0:
        return True
    cur().assume(implies(n > 0, both(RP(r, j + 1) == RP(r, j) + run_at(r, j)[1], RP(r, j + 1) >= RP(r, j))))
    return True


def rp_monotone(r):
    """Runs are non-negative, so RP is monotone (stated as a quantified fact: its proof needs induction)."""
    s = _seq(r)
    f = z3.Function(f"RP${id(s)}", z3.IntSort(), z3.IntSort())
    i, j = z3.Ints("rp_i rp_j")
    return mk_bool(z3.ForAll([i, j], z3.Implies(z3.And(0 <= i, i <= j), f(i) <= f(j))))


@contract(UT + "rle_len", property=("C02", "C17"), replayable=False)
class rle_len:
    params = dict(rle=RLE)
    result = Int

    def ensures(a, result):
        yield "total-of-the-runs", result == RP(a.rle, n_runs(a.rle))

    loops = {0: Loop(invariant=lambda v: both(v.run == RP(v.rle, v.i_), rp_step(v.rle, v.i_)))}


@contract(UT + "rle_get_at", property=("C02", "C17"), replayable=False)
class rle_get_at:
    params = dict(rle=RLE, pos=Int)
    result = Opt(ATTR)

    def requires(a):
        return rp_monotone(a.rle)

    def ensures(a, result):
        n = n_runs(a.rle)
        if is_none(result):
            yield "none-only-outside-the-covered-range", either(a.pos < 0, a.pos >= RP(a.rle, n))
        else:
            k = cur().fresh_int("k")
            yield "attribute-of-the-covering-run", neg(forall(0, n, lambda j: neg(both(RP(a.rle, j) <= a.pos, a.pos < RP(a.rle, j) + run_at(a.rle, j)[1], eq(val(result), run_at(a.rle, j)[0])))))

    loops = {0: Loop(invariant=lambda v: both(v.x == RP(v.rle, v.i_), v.x <= v.pos, v.pos >= 0, rp_step(v.rle, v.i_)))}


def same_prefix(new, old, k):
    """The first k runs of `new` are the first k runs of `old`."""
    return forall(0, k, lambda j: both(eq(run_at(new, j)[0], run_at(old, j)[0]), run_at(new, j)[1] == run_at(old, j)[1]))


@contract(UT + "rle_append_modify", property=("C02", "C17"), replayable=False)
class rle_append_modify:
    params = dict(rle=RLE, a_r=RUN)
    modifies_args = ("rle",)

    def ensures(a, result):
        old = a.old.rle
        new = a.rle
        n = n_runs(old)
        at, r = a.a_r
        merged = (n > 0) and bool(eq(run_at(old, imax(n - 1, 0))[0], at))
        if merged:
            yield "merged-into-the-last-run", both(n_runs(new) == n, same_prefix(new, old, n - 1), eq(run_at(new, n - 1)[0], at), run_at(new, n - 1)[1] == run_at(old, n - 1)[1] + r)
        else:
            yield "appended-as-a-new-run", both(n_runs(new) == n + 1, same_prefix(new, old, n), eq(run_at(new, n)[0], at), run_at(new, n)[1] == r)


@contract(UT + "rle_prepend_modify", property=("C02", "C17"), replayable=False)
class rle_prepend_modify:
    params = dict(rle=RLE, a_r=RUN)
    modifies_args = ("rle",)

    def ensures(a, result):
        old = a.old.rle
        new = a.rle
        n = n_runs(old)
        at, r = a.a_r
        merged = (n > 0) and bool(eq(run_at(old, 0)[0], at))
        if merged:
            yield "merged-into-the-first-run", both(n_runs(new) == n, eq(run_at(new, 0)[0], at), run_at(new, 0)[1] == run_at(old, 0)[1] + r,
                                                   forall(1, n, lambda j: both(eq(run_at(new, j)[0], run_at(old, j)[0]), run_at(new, j)[1] == run_at(old, j)[1])))
        else:
            yield "prepended-as-a-new-run", both(n_runs(new) == n + 1, eq(run_at(new, 0)[0], at), run_at(new, 0)[1] == r,
                                                forall(0, n, lambda j: both(eq(run_at(new, j + 1)[0], run_at(old, j)[0]), run_at(new, j + 1)[1] == run_at(old, j)[1])))
