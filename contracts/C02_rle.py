"""C02/C17/C01 — run-length kernel of urwid/util.py against the *expansion view*:

    rle_len(R)   = RP(R, n)    the total of the runs (RP(R, k) = total of the first k runs)
    at(R, p)     = the attribute of the run covering position p (0 <= p < rle_len(R))

RP and at are model fields of the list theory (pyvc/seqs.py: `cpsum[1]`, `expand`): uninterpreted functions for a
fresh list, derived structurally for every list the code builds from it (append, slice store, item store, +=).
The link between the two for a fresh list is the definitional axiom `run_link(R, j)`: every position of run j
expands to run j's attribute; it is instantiated at the run indices in play (DESIGN 3.7).  The one inductive fact
used, "RP never decreases (grows by >= 1 per run when all runs are positive)", is the lemma at the end, instantiated
groundly by `rp_mono`.

Attributes are arbitrary values *including None* (Opt(Opaque)) or tuples of them (rle_product / rle_factor)."""
import z3

from pyvc import seqs as Q
from pyvc import shapes as S
from pyvc import values as V
from pyvc.api import *
from pyvc.seqs import LRef, SSeq
from pyvc.values import cur, mk_bool, mk_int

UT = "urwid/util.py:"


def forall(lo, hi, fn):  # noqa: F811 - no "is the range empty" solver query (see pyvc.values.forall)
    return V.forall(lo, hi, fn, check_empty=False)


ATTR = Opt(Opaque("Attr"))
RMAX = 2**30
CVT = 15000  # reachability queries of the vacuity guards (see pyvc.engine.State.cover)
QBT = 250  # feasibility checks at branches: the path conditions carry quantified facts; `unknown` keeps the branch (sound)


def RUNS(lo=0, attr=ATTR):
    """A run-length list [(attr, run), ...] whose runs are all >= lo (lo=None: any integer)."""
    return ListOf(Tup(attr, Int(lo, RMAX) if lo is not None else Int))


RUN = Tup(ATTR, Int(0, RMAX))
RLE = RUNS(0)
RLE1 = RUNS(1)  # precondition "all runs positive" as a shape (also stated as `all_runs_at_least(r, 1)` in requires)
PAIR = Tup(ATTR, ATTR)


def _seq(r):
    return r.seq if isinstance(r, LRef) else r


def n_runs(r):
    return Q.seq_len(_seq(r))


def run_at(r, j):
    return Q.seq_get(_seq(r), j)


def RP(r, k):
    """Total length of the first k runs of r."""
    f = Q.seq_cpsum(_seq(r), 1)
    if f is None:
        raise Unsupported("RP of a list without a run-length model")
    return f(k)


def total(r):
    return RP(r, n_runs(r))


def at(r, p):
    """Expansion view: the attribute at position p."""
    s = _seq(r)
    if isinstance(s, (tuple, list)):
        if not s:
            return None
        s = Q.to_sseq(s)
    if s.expand is None:
        raise Unsupported("at() of a list without a run-length model")
    return s.expand(p)


def aeq(x, y):
    """Equality of attribute values (None, opaque, tuples of those) as a formula; never forks."""
    if isinstance(x, tuple) and isinstance(y, tuple):
        return both(*[aeq(p, q) for p, q in zip(x, y)]) if len(x) == len(y) else False
    if isinstance(x, tuple) or isinstance(y, tuple):
        return False
    return opt_eq(x, y)


def attr_shape(v, lref=None):
    """Shape of the attribute component: from the list when it is known there, else from a value."""
    if lref is not None:
        s = _seq(lref)
        if isinstance(s, SSeq) and isinstance(s.shape, S.Tup):
            return s.shape.items[0]
        if isinstance(s, tuple) and s:
            return attr_shape(s[0][0])
    if isinstance(v, tuple):
        return Tup(*[attr_shape(x) for x in v])
    return ATTR


def all_runs_at_least(r, lo):
    """forall j: run_j >= lo (one formula object per list value and path, so that it is the same atom in
    `requires` and in `rp_mono`)."""
    s = _seq(r)
    memo = cur().ghost.setdefault("runs_at_least", {})
    key = (id(s), lo)
    if key not in memo:
        memo[key] = (s, forall(0, n_runs(s), lambda j: run_at(s, j)[1] >= lo))
    return memo[key][1]


def rp_mono(r, i, j, lo):
    """Instance of the lemma `rle-prefix-sums-monotone`: all runs >= lo and 0 <= i <= j <= n give
    RP(j) >= RP(i) + lo*(j - i)."""
    assert lo in (0, 1)
    n = n_runs(r)
    cur().assume(implies(both(all_runs_at_least(r, lo), 0 <= i, i <= j, j <= n), RP(r, j) >= RP(r, i) + lo * (j - i)))
    return True


def link(r, j):
    Q.run_link(_seq(r), j)
    return True


def unchanged(a, name):
    """The list argument `name` still holds the very contents object it had at entry (no store of any kind)."""
    return getattr(a, name).seq is getattr(a.old, name).seq


# ------------------------------------------------------------------------------------------------ rle_len / rle_get_at


@contract(UT + "rle_len", property=("C02", "C17"), replayable=False)
class rle_len:
    params = dict(rle=RLE)
    result = Int
    raises = ()

    def ensures(a, result):
        yield "total-of-the-runs", result == total(a.rle)
        yield "operand-unchanged", unchanged(a, "rle")

    loops = {0: Loop(invariant=lambda v: v.run == RP(v.rle, v.i_))}


@contract(UT + "rle_get_at", property=("C02", "C17"), replayable=False)
class rle_get_at:
    params = dict(rle=RLE, pos=Int)
    result = ATTR
    raises = ()

    def ensures(a, result):
        L = total(a.rle)
        inside = both(0 <= a.pos, a.pos < L)
        yield "none-outside-the-covered-range", implies(neg(inside), opt_isnone(result))
        yield "attribute-at-that-position", implies(inside, aeq(result, at(a.rle, a.pos)))
        yield "operand-unchanged", unchanged(a, "rle")

    def requires(a):
        return all_runs_at_least(a.rle, 0)

    loops = {0: Loop(invariant=lambda v: both(v.x == RP(v.rle, v.i_), v.x <= v.pos, v.pos >= 0, link(v.rle, v.i_), rp_mono(v.rle, v.i_ + 1, n_runs(v.rle), 0)))}


# ------------------------------------------------------------------------------------------------ append / prepend


def same_runs(new, old, lo, hi, shift=0):
    """Runs lo..hi-1 of `old` are runs lo+shift..hi+shift-1 of `new`."""
    return forall(lo, hi, lambda j: both(aeq(run_at(new, j + shift)[0], run_at(old, j)[0]), run_at(new, j + shift)[1] == run_at(old, j)[1]))


def _keeps_bounds(new, old, r):
    for lo in (0, 1):
        yield f"runs-stay-at-least-{lo}", implies(both(r >= lo, all_runs_at_least(old, lo)), all_runs_at_least(new, lo))


def _modified_shape(name, lref, vals):
    return RUNS(None, attr_shape(vals["a_r"][0], lref))


@contract(UT + "rle_append_modify", property=("C02", "C17"), replayable=False)
class rle_append_modify:
    params = dict(rle=RLE, a_r=RUN)
    modifies_args = ("rle",)
    modifies_arg_shape = _modified_shape
    raises = ()

    def setup(st, self_obj, vals):
        link(vals["rle"], n_runs(vals["rle"]) - 1)

    def ensures(a, result):
        old, new = a.old.rle, a.rle
        n = n_runs(old)
        at_, r = a.a_r
        L = total(old)
        yield "returns-none", result is None
        yield "length-grows-by-the-run", total(new) == L + r
        yield "old-positions-keep-their-attribute", forall(0, L, lambda p: aeq(at(new, p), at(old, p)))
        yield "new-positions-carry-the-attribute", forall(L, L + r, lambda p: aeq(at(new, p), at_))
        merged = (n > 0) and bool(aeq(run_at(old, imax(n - 1, 0))[0], at_))
        if merged:
            yield "merged-into-the-last-run", both(n_runs(new) == n, same_runs(new, old, 0, n - 1), aeq(run_at(new, n - 1)[0], at_), run_at(new, n - 1)[1] == run_at(old, n - 1)[1] + r)
        else:
            yield "appended-as-a-new-run", both(n_runs(new) == n + 1, same_runs(new, old, 0, n), aeq(run_at(new, n)[0], at_), run_at(new, n)[1] == r)
        yield from _keeps_bounds(new, old, r)


@contract(UT + "rle_prepend_modify", property=("C02", "C17"), replayable=False)
class rle_prepend_modify:
    params = dict(rle=RLE, a_r=RUN)
    modifies_args = ("rle",)
    modifies_arg_shape = _modified_shape
    raises = ()

    def setup(st, self_obj, vals):
        link(vals["rle"], 0)

    def ensures(a, result):
        old, new = a.old.rle, a.rle
        n = n_runs(old)
        at_, r = a.a_r
        L = total(old)
        yield "returns-none", result is None
        yield "length-grows-by-the-run", total(new) == L + r
        yield "new-positions-carry-the-attribute", forall(0, r, lambda p: aeq(at(new, p), at_))
        yield "old-positions-move-right-with-their-attribute", forall(0, L, lambda p: aeq(at(new, r + p), at(old, p)))
        merged = (n > 0) and bool(aeq(run_at(old, 0)[0], at_))
        if merged:
            yield "merged-into-the-first-run", both(n_runs(new) == n, aeq(run_at(new, 0)[0], at_), run_at(new, 0)[1] == run_at(old, 0)[1] + r, same_runs(new, old, 1, n))
        else:
            yield "prepended-as-a-new-run", both(n_runs(new) == n + 1, aeq(run_at(new, 0)[0], at_), run_at(new, 0)[1] == r, same_runs(new, old, 0, n, shift=1) if n_runs(new) != 1 else True)
        yield from _keeps_bounds(new, old, r)


# ------------------------------------------------------------------------------------------------ rle_join_modify


@contract(UT + "rle_join_modify", property=("C02", "C17"), replayable=False, branch_timeout_ms=QBT, cover_timeout_ms=CVT)
class rle_join_modify:
    """Precondition (from the call sites): `rle` and `rle2` are two distinct list objects."""

    params = dict(rle=RLE, rle2=RLE)
    modifies_args = ("rle",)
    raises = ()

    def modifies_arg_shape(name, lref, vals):
        return RUNS(None, attr_shape(None, lref))

    def setup(st, self_obj, vals):
        link(vals["rle2"], 0)

    def ensures(a, result):
        old, new, r2 = a.old.rle, a.rle, a.rle2
        L1, L2 = total(old), total(r2)
        yield "returns-none", result is None
        yield "length-adds-up", total(new) == L1 + L2
        yield "first-list-keeps-its-positions", forall(0, L1, lambda p: aeq(at(new, p), at(old, p)))
        yield "second-list-follows", forall(0, L2, lambda p: aeq(at(new, L1 + p), at(r2, p)))
        yield "second-argument-untouched", unchanged(a, "rle2")
        if n_runs(r2) == 0:
            yield "empty-second-list-changes-nothing", unchanged(a, "rle")
        else:
            n, n2 = n_runs(old), n_runs(r2)
            merged = (n > 0) and bool(aeq(run_at(old, imax(n - 1, 0))[0], run_at(r2, 0)[0]))
            yield "runs-merged-only-at-the-seam", n_runs(new) == n + n2 - (1 if merged else 0)
        for lo in (0, 1):
            yield f"runs-stay-at-least-{lo}", implies(both(all_runs_at_least(old, lo), all_runs_at_least(r2, lo)), all_runs_at_least(new, lo))


# ------------------------------------------------------------------------------------------------ rle_subseg


def _subseg_inv(v):
    r, sub, i = v.rle, v.sub_segment, v.i_
    s0, e = v.old.start, v.end
    n, m = n_runs(r), n_runs(sub)
    P = RP(sub, m)
    link(r, i)
    rp_mono(r, i, n, 1)
    yield "still-to-skip", v.start == imax(s0 - RP(r, i), 0)
    yield "nothing-kept-while-skipping", implies(m == 0, both(v.x == RP(r, i), RP(r, i) <= s0))
    yield "kept-up-to-x", implies(m > 0, both(v.x == imin(RP(r, i), e), v.x > s0, s0 + P == v.x))
    yield "no-zero-length-run", forall(0, m, lambda j: run_at(sub, j)[1] >= 1)
    yield "expansion", forall(0, P, lambda p: aeq(at(sub, p), at(r, s0 + p)))


def _empty_list_witness(st):
    """Witness scenario for the vacuity guards (pyvc.engine.State.cover): the run list is empty.  `pc AND witness`
    satisfiable implies `pc` satisfiable, so it can only turn an `unknown` into `covered`.  Without it the model search
    over the quantified path condition ran into its 15 s limit in about one process out of five (z3's search order
    varies from process to process), and now and then on every path -> `uncovered`."""
    r = (st.ex.inputs or {}).get("rle")
    c = n_runs(r) == 0 if r is not None else True
    return () if isinstance(c, bool) else [c]


@contract(UT + "rle_subseg", property=("C02", "C17"), replayable=False, branch_timeout_ms=QBT, cover_timeout_ms=CVT, cover_witness=_empty_list_witness)
class rle_subseg:
    """Zero-length runs in the input: a zero-length run met after the skipping is over is copied into the result
    as a zero-length run, one met while skipping is dropped; the expansion is the same either way, but the clause
    `no-zero-length-run` needs the precondition stated here: all runs positive.  A negative `start` makes the
    code lengthen the first run (rle_subseg([(a, 3)], -2, 5) == [(a, 5)]): start >= 0 is required."""

    params = dict(rle=RLE1, start=Int, end=Int)
    result = RLE1
    raises = ()

    def result_shape(vals):
        return RUNS(1, attr_shape(None, vals["rle"]))

    def requires(a):
        return both(a.start >= 0, all_runs_at_least(a.rle, 1))

    def ensures(a, result):
        r, s, e = a.rle, a.start, a.end
        m = n_runs(result)
        yield "length", total(result) == imax(0, imin(e, total(r)) - s)
        yield "expansion", forall(0, total(result), lambda p: aeq(at(result, p), at(r, s + p)))
        yield "no-zero-length-run", all_runs_at_least(result, 1)
        yield "operand-unchanged", unchanged(a, "rle")

    loops = {0: Loop(invariant=_subseg_inv, shapes={"sub_segment": RUNS(None)})}


# ------------------------------------------------------------------------------------------------ rle_product / rle_factor


def _product_inv(v):
    r1, r2, res = v.rle1, v.rle2, v.result
    n1, n2, m = n_runs(r1), n_runs(r2), n_runs(res)
    i1, i2 = v.i1, v.i2
    P = RP(res, m)
    link(r1, i1 - 1)
    link(r2, i2 - 1)
    rp_mono(r1, i1, n1, 1)
    rp_mono(r2, i2, n2, 1)
    yield "indexes", both(1 <= i1, i1 <= n1, 1 <= i2, i2 <= n2)
    c1, c2 = run_at(r1, i1 - 1), run_at(r2, i2 - 1)
    yield "current-run-of-the-first", both(aeq(v.a1, c1[0]), 0 <= v.r1, v.r1 <= c1[1], P + v.r1 == RP(r1, i1))
    yield "current-run-of-the-second", both(aeq(v.a2, c2[0]), 0 <= v.r2, v.r2 <= c2[1], P + v.r2 == RP(r2, i2))
    yield "used-up-only-at-the-end", both(implies(v.r1 == 0, i1 == n1), implies(v.r2 == 0, i2 == n2))
    yield "expansion", forall(0, P, lambda p: aeq(at(res, p), (at(r1, p), at(r2, p))))
    yield "no-zero-length-run", all_runs_at_least(res, 1)


@contract(UT + "rle_product", property=("C02", "C17"), replayable=False, branch_timeout_ms=QBT, cover_timeout_ms=4000)
class rle_product:
    """Zero-length runs in the inputs: the loop `while r1 and r2` stops at the first zero-length run it loads,
    so the product is cut short there (rle_product([(a,0),(b,2)], [(c,2)]) == []); negative runs never terminate.
    Precondition: all runs positive."""

    params = dict(rle1=RLE1, rle2=RLE1)
    result = RUNS(1, PAIR)
    raises = ()

    def requires(a):
        return both(all_runs_at_least(a.rle1, 1), all_runs_at_least(a.rle2, 1))

    def setup(st, self_obj, vals):
        # totals are non-negative (lemma instance; needed on the early exit for an empty operand)
        for k in ("rle1", "rle2"):
            rp_mono(vals[k], 0, n_runs(vals[k]), 1)

    def ensures(a, result):
        r1, r2 = a.rle1, a.rle2
        yield "length-is-the-shorter-operand", total(result) == imin(total(r1), total(r2))
        yield "expansion-is-the-pair-of-expansions", forall(0, total(result), lambda p: aeq(at(result, p), (at(r1, p), at(r2, p))))
        yield "no-zero-length-run", all_runs_at_least(result, 1)
        yield "operands-unchanged", both(unchanged(a, "rle1"), unchanged(a, "rle2"))

    loops = {0: Loop(invariant=_product_inv, decreases=lambda v: total(v.rle1) - total(v.result), modifies=("result",), shapes={"result": RUNS(None, PAIR)})}


def _factor_inv(v):
    r, f1, f2, i = v.rle, v.rle1, v.rle2, v.i_
    P = RP(r, i)
    link(r, i)
    yield "lengths", both(total(f1) == P, total(f2) == P)
    yield "first-components", forall(0, P, lambda p: aeq(at(f1, p), at(r, p)[0]))
    yield "second-components", forall(0, P, lambda p: aeq(at(f2, p), at(r, p)[1]))
    for lo in (0, 1):
        yield f"runs-at-least-{lo}", implies(all_runs_at_least(r, lo), both(all_runs_at_least(f1, lo), all_runs_at_least(f2, lo)))


@contract(UT + "rle_factor", property=("C02", "C17"), replayable=False, branch_timeout_ms=QBT, cover_timeout_ms=CVT)
class rle_factor:
    """Inverse of rle_product in the expansion view: with rle = rle_product(a, b) the two results expand to a and b
    over the product's length (compose `expansion-is-the-pair-of-expansions` with the two clauses here)."""

    params = dict(rle=RUNS(0, PAIR))
    result = Tup(RLE, RLE)
    raises = ()

    def ensures(a, result):
        r = a.rle
        f1, f2 = result
        L = total(r)
        yield "same-lengths", both(total(f1) == L, total(f2) == L)
        yield "first-components", forall(0, L, lambda p: aeq(at(f1, p), at(r, p)[0]))
        yield "second-components", forall(0, L, lambda p: aeq(at(f2, p), at(r, p)[1]))
        for lo in (0, 1):
            yield f"runs-at-least-{lo}", implies(all_runs_at_least(r, lo), both(all_runs_at_least(f1, lo), all_runs_at_least(f2, lo)))
        yield "operand-unchanged", unchanged(a, "rle")

    loops = {0: Loop(invariant=_factor_inv, modifies=("rle1", "rle2"), shapes={"rle1": RUNS(None), "rle2": RUNS(None)})}


# ------------------------------------------------------------------------------------------------ the inductive fact


@lemma("rle-prefix-sums-monotone", property=("C02", "C17"))
class rle_prefix_sums_monotone:
    """P(j) := RP(j) >= RP(i) + lo*(j - i) for i <= j <= n, when every run is >= lo (lo = 0 and lo = 1).
    Base j = i; step from the defining equation RP(j+1) = RP(j) + run_j with run_j >= lo.  Instantiated by `rp_mono`."""

    params = dict(i=Int, j=Int, ri=Int, rj=Int, t=Int)

    def requires(x):
        return x.i <= x.j

    def claim(x):
        yield "base", x.ri >= x.ri + 0 * (x.i - x.i)
        yield "step-lo-0", implies(both(x.t >= 0, x.rj >= x.ri), x.rj + x.t >= x.ri)
        yield "step-lo-1", implies(both(x.t >= 1, x.rj >= x.ri + (x.j - x.i)), x.rj + x.t >= x.ri + (x.j + 1 - x.i))
