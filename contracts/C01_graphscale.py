"""C01 — GraphVScale.render: a box widget's canvas has exactly the columns and rows asked for, on every path.

The labels are opaque children honouring the widget protocol (urwid makes them `Text` widgets: flow widgets, whose
canvas at width `maxcol` is `maxcol` columns wide and as many rows high as the label needs -- one or many: a label
that wraps at a narrow width).  The positions `scale_bar_values` computes are arbitrary integers as far as the size
clause is concerned: whatever they are (off the scale, on the last row with a label of several rows, in the rows a
previous label already covers), the result is `maxrow` rows high -- padded at the bottom when the labels stop short,
cut when the last label runs past the bottom edge, a blank canvas when no label is drawn.

The list handed to CanvasCombine is built in the loop; it carries the prefix sums of its canvases' rows (the shape
`SCALE_LIST`, the same protocol contract of CanvasCombine that Pile.render uses)."""
from pyvc import seqs as Q
from pyvc import values as V
from pyvc.api import *
from contracts.proto_widget import *
from contracts.proto_widget import canvas_item_rows

from urwid.widget import bar_graph as _bg

BG = "urwid/widget/bar_graph.py:"

WIDGET = Opaque("Widget")
GVS = Obj(_bg.GraphVScale, dict(pos=ListOf(Int), txt=ListOf(WIDGET), top=Int))
# (canvas, position = None, focus = False) items, with the prefix sums of the canvases' rows
SCALE_LIST = ListOf(Tup(CANVAS, Const(None), Bool), measure=canvas_item_rows)


@contract(BG + "scale_bar_values", property="C01")
class scale_bar_values:
    """One integer row per value (which row is C19's business; the size clause of C01 needs none of it)."""

    params = dict(bar=ListOf(Int), top=Int, maxrow=Int)
    result = ListOf(Int)
    raises = ()

    def requires(a):
        return both(1 <= a.top, 0 <= a.maxrow, a.maxrow < DIMMAX, a.top < DIMMAX,
                    forall(0, Q.seq_len(a.bar), lambda j: both(-DIMMAX < Q.seq_get(a.bar, j), Q.seq_get(a.bar, j) < DIMMAX)))

    def ensures(a, result):
        yield "one-row-per-value", Q.seq_len(result) == Q.seq_len(a.bar)


def _render_loop(v):
    """`rows` is the height of what has been collected; every collected canvas has the width asked for."""
    cl = v.combinelist.seq
    m = Q.seq_len(cl)
    k = V.arbitrary("CanvasCombine.k")
    yield "rows-is-the-height-collected", v.rows == Q.to_sseq(cl).psum(m)
    yield "rows-nonnegative", v.rows >= 0
    yield "nothing-collected-nothing-counted", 0 <= m
    if not isinstance(cl, tuple):
        yield "every-canvas-has-the-width-asked-for", implies(both(0 <= k, k < m), Q.seq_get(cl, k)[0].ncols == v.maxcol)
        yield "the-first-canvas-has-the-width-asked-for", implies(0 < m, Q.seq_get(cl, 0)[0].ncols == v.maxcol)


@contract(BG + "GraphVScale.render", property="C01", replayable=False)
class gvs_render:
    """C01 (box sizing): exactly the requested columns and rows, whatever the labels and their positions."""

    self_shape = GVS
    params = dict(size=Tup(Int, Int), focus=Bool)
    result = CANVAS
    raises = ()

    def requires(s, a):
        # (set_scale keeps one label widget per position; render only zips the two lists, so nothing is asked of their lengths)
        return both(1 <= a.size[0], a.size[0] < DIMMAX, 1 <= a.size[1], a.size[1] < DIMMAX, 1 <= s.top, s.top < DIMMAX,
                    forall(0, Q.seq_len(s.pos), lambda j: both(-DIMMAX < Q.seq_get(s.pos, j), Q.seq_get(s.pos, j) < DIMMAX)))

    def ensures(old, s, a, r):
        yield "width-is-the-width-asked-for", r.ncols == a.size[0]
        yield "height-is-the-height-asked-for", r.nrows == a.size[1]

    loops = {0: Loop(invariant=_render_loop, shapes={"combinelist": SCALE_LIST})}
