"""C19 — Pile / Columns space partition: the real loops of Pile.get_item_rows and Columns.column_widths
against prefix-sum spec functions over the (immutable) contents list, children abstract."""
import z3

from pyvc import seqs as Q
from pyvc import values as V
from pyvc.api import *
from pyvc.api import PROTOCOLS
from pyvc.values import cur, mk_bool, mk_int
from contracts.proto_widget import *
from contracts.C08_focus import PI, PILE, PINL, item_at, n_items, pile_ri

import urwid
from urwid.widget import pile as _pile

B = 2**26  # float-as-rational bound (DESIGN §3.6)


# --------------------------------------------------------------------------------------------- Pile (box)
#
# Spec functions over the contents (recursive definitions, instantiated groundly where used):
#   FIX(k) = sum over j<k of the rows of the given / packed / zero-weighted items
#   WT(k)  = sum over j<k of the weights of the positively weighted items
# Monotonicity of WT (a prefix sum of non-negative terms) is the lemma `prefix-sum-monotone` below.

_FIX = z3.Function("pile$FIX", z3.IntSort(), z3.IntSort())
_WT = z3.Function("pile$WT", z3.IntSort(), z3.IntSort())


def _focus_widget(p):
    return item_at(p, p._contents._focus)[0]


def pile_item_fixed(p, j, maxcol, focus):
    """Rows of item j if it is not positively weighted (given: its height; pack: what the child reports;
    zero weight: 0), else 0 — as a formula."""
    st = cur()
    W = PROTOCOLS["Widget"]
    w, (f, h) = item_at(p, j)
    foc = both(focus, eq(_focus_widget(p), w))
    rows = W.call_quiet(st, w, "rows", dict(size=(maxcol,), focus=foc))
    # a packed child that is fixed-only is handed the size () by get_rows_sizes: it takes the rows it packs to
    flowish = either(sizing_has(w, urwid.Sizing.FLOW), neg(sizing_has(w, urwid.Sizing.FIXED)))
    rows = ite(flowish, rows, W.call_quiet(st, w, "pack", dict(size=(), focus=foc))[1])
    return ite(f == "pack", rows, ite(f == "given", h.val, 0))


def pile_item_weight(p, j):
    w, (f, h) = item_at(p, j)
    return ite(both(f == "weight", neg(mk_bool(h.isnone))), h.val, 0)


def pile_unfold(p, j, maxcol, focus):
    """Definitional axioms of FIX / WT at index j (0 <= j < n)."""
    st = cur()
    n = n_items(p)
    zj = V._z(j)
    ok = z3.And(zj >= 0, zj < V._z(n))
    st.assume(_FIX(z3.IntVal(0)) == 0)
    st.assume(_WT(z3.IntVal(0)) == 0)
    st.assume(z3.Implies(ok, _FIX(zj + 1) == _FIX(zj) + V._z(pile_item_fixed(p, j, maxcol, focus))))
    st.assume(z3.Implies(ok, _WT(zj + 1) == _WT(zj) + V._z(pile_item_weight(p, j))))
    # lemma prefix-sum-monotone, instantiated: WT(j) <= WT(j+1) <= WT(n)
    st.assume(z3.Implies(ok, z3.And(_WT(zj) <= _WT(zj + 1), _WT(zj + 1) <= _WT(V._z(n)), _WT(zj) >= 0)))


def FIX(k):
    return mk_int(_FIX(V._z(k)))


def WT(k):
    return mk_int(_WT(V._z(k)))


def pile_wf(s):
    """Options as Pile.options() produces them: ('pack', None), ('given', n >= 0), ('weight', w >= 0)."""
    n = n_items(s)

    def ok(j):
        w, (f, h) = item_at(s, j)
        return both(
            implies(f == "pack", mk_bool(h.isnone)),
            implies(neg(f == "pack"), both(neg(mk_bool(h.isnone)), h.val >= 0, h.val < PARTMAX)),
        )

    return both(pile_ri(s), forall(0, n, ok), n < 2**20)


ROWS = ListOf(Opt(Int))


# --------------------------------------------------------------------------------------------- Pile: the shared geometry
#
# One description of "which rows child j occupies and which size it is handed", used by every entry point
# (C09/C01): child j is handed the size SA(j) and occupies the rows [PH(j), PH(j) + HS(j)).
#   HS(j)  = rows of item j:  given: its height;  a weighted item of a box Pile: its share (get_item_rows);
#            otherwise what the child itself reports for the size it is handed (flow: (maxcol,), a fixed-only
#            packed child: ()) -- i.e. the rows of its rendering (widget protocol)
#   PH(k)  = sum over j<k of HS(j)        (recursive definition, instantiated groundly: ph_unfold)

_PH = z3.Function("pile$PH", z3.BoolSort(), z3.IntSort(), z3.IntSort())


def PH(focus, k):
    return mk_int(_PH(V._zb(focus), V._z(k)))


def child_focus(p, j, focus):
    return both(focus, eq(_focus_widget(p), item_at(p, j)[0]))


def pile_item_rows_spec(p, size, focus):
    """The rows a box Pile gives its items: the value of get_item_rows (a deterministic function)."""
    st = cur()
    key = ("pile-IR", str(V._zb(focus)))
    if key not in st.ghost:
        st.ghost[key] = pile_get_item_rows.spec_value(p, size=size, focus=focus)
    r = st.ghost[key]
    return r.seq if hasattr(r, "seq") else r


def pile_item_kind(p, j, size):
    """(given, share, fixed, flow): which of the four ways item j is sized (formulas, exactly one holds)."""
    w, (f, h) = item_at(p, j)
    given = f == "given"
    packlike = either(f == "pack", len(size) == 1)
    has_flow, has_fixed = sizing_has(w, _pile.Sizing.FLOW), sizing_has(w, _pile.Sizing.FIXED)
    fixed = both(neg(given), packlike, neg(has_flow), has_fixed, f == "pack")
    share = both(neg(given), neg(packlike))
    flow = both(neg(given), packlike, neg(fixed))
    return given, share, fixed, flow


def pile_item_height(p, j, size, focus):
    """HS(j) as a formula (never forks)."""
    W = PROTOCOLS["Widget"]
    st = cur()
    w, (f, h) = item_at(p, j)
    given, share, fixed, flow = pile_item_kind(p, j, size)
    foc = child_focus(p, j, focus)
    as_fixed = W.call_quiet(st, w, "pack", dict(size=(), focus=foc))[1]
    as_flow = W.call_quiet(st, w, "pack", dict(size=(size[0],), focus=foc))[1]
    r = ite(fixed, as_fixed, as_flow)
    if len(size) == 2:
        r = ite(share, Q.seq_get(pile_item_rows_spec(p, size, focus), j), r)
    return ite(given, h.val, r)


def pile_item_size_is(sa, p, j, size, focus):
    """`sa` is SA(j), the size child j is handed (formula)."""
    w, (f, h) = item_at(p, j)
    given, share, fixed, flow = pile_item_kind(p, j, size)
    maxcol = size[0]
    alts = [both(given, V.struct_eq(sa, (maxcol, h.val))), both(fixed, V.struct_eq(sa, ())), both(flow, V.struct_eq(sa, (maxcol,)))]
    if len(size) == 2:
        alts.append(both(share, V.struct_eq(sa, (maxcol, Q.seq_get(pile_item_rows_spec(p, size, focus), j)))))
    return either(*alts)


def ph_unfold(p, j, size, focus):
    """Definitional axioms of PH at index j (0 <= j < n)."""
    st = cur()
    zj = V._z(j)
    ok = z3.And(zj >= 0, zj < V._z(n_items(p)))
    zf = V._zb(focus)
    st.assume(_PH(zf, z3.IntVal(0)) == 0)
    st.assume(z3.Implies(ok, _PH(zf, zj + 1) == _PH(zf, zj) + V._z(pile_item_height(p, j, size, focus))))


def _entry_ok(p, rn, j, maxcol, focus, done):
    """Entry j of rows_numbers: a positively weighted item is still None (or, once `done`, a non-negative
    share); every other item has exactly its own rows."""
    e = Q.seq_get(rn, j)
    wt = pile_item_weight(p, j)
    fx = pile_item_fixed(p, j, maxcol, focus)
    isn = mk_bool(e.isnone) if isinstance(e, V.SOpt) else (e is None)
    ev = e.val if isinstance(e, V.SOpt) else e
    if done:
        return both(neg(isn), implies(wt == 0, ev == fx), ev >= 0)
    return both(implies(wt > 0, isn), implies(wt == 0, both(neg(isn), ev == fx)))


def _gir_loop0(v):
    p = v.self
    maxcol, focus = v.maxcol, v.focus
    i = v.i_
    rn = v.rows_numbers.seq
    pile_unfold(p, i - 1, maxcol, focus)
    yield "one-entry-per-item-so-far", Q.seq_len(rn) == i
    yield "remaining-is-what-fixed-items-leave", v.remaining == v.size[1] - FIX(i)
    yield "weights-summed", both(v.wtotal == WT(i), v.wtotal >= 0)
    yield "entries", forall(0, i, lambda j: _entry_ok(p, rn, j, maxcol, focus, False))


def _gir_loop1(v):
    p = v.self
    maxcol, focus = v.maxcol, v.focus
    i = v.i_
    n = n_items(p)
    rn = v.rows_numbers.seq
    pile_unfold(p, i - 1, maxcol, focus)
    pile_unfold(p, i, maxcol, focus)
    r0 = imax(v.size[1] - FIX(n), 0)
    yield "length-kept", Q.seq_len(rn) == n
    yield "done-entries", forall(0, i, lambda j: _entry_ok(p, rn, j, maxcol, focus, True))
    yield "pending-entries", forall(i, n, lambda j: _entry_ok(p, rn, j, maxcol, focus, False))
    yield "suffix-weight", both(v.wtotal == WT(n) - WT(i), v.wtotal >= 0)
    yield "remaining-nonneg", v.remaining >= 0
    yield "all-handed-out-with-the-last-weight", implies(v.wtotal == 0, v.remaining == 0)
    yield "conservation", rn.psum(i) + v.remaining - FIX(i) == r0
    # the share just handed out is its weight's proportion of what was left, to within rounding (local form
    # of the statement's proportionality clause): |share - left*weight/weights_left| <= 1/2
    hp = pile_item_weight(p, i - 1)
    e = Q.seq_get(rn, i - 1)
    r = e.val if isinstance(e, V.SOpt) else e
    wp, rp = v.wtotal + hp, v.remaining + r
    d = 2 * wp * r - 2 * rp * hp
    yield "share-proportional-to-weight", implies(both(i > 0, hp > 0), both(-wp <= d, d <= wp))


def reads_only(target, allowed):
    """Static check backing `deterministic_reads`: the body of `target` reads no attribute of `self` other than
    `allowed` (properties over the contents list) and calls no method of `self` outside `allowed`."""
    import ast

    from pyvc import source as SRC

    node = SRC.resolve(target).node
    selfname = node.args.args[0].arg
    seen = {n.attr for n in ast.walk(node) if isinstance(n, ast.Attribute) and isinstance(n.value, ast.Name) and n.value.id == selfname}
    stores = {n.attr for n in ast.walk(node) if isinstance(n, ast.Attribute) and isinstance(n.value, ast.Name) and n.value.id == selfname and isinstance(n.ctx, (ast.Store, ast.Del))}
    extra = sorted(seen - set(allowed))
    return ("reads-only-" + "-".join(sorted(allowed)), not extra and not stores, f"self attributes used: {sorted(seen)}; written: {sorted(stores)}")


def register_per_item(n, clause):
    """A verified postcondition of the form `for all 0 <= j < n: clause(j)` is not asserted at the call site as a
    quantified fact; it is kept here and instantiated at the indices in play by `pile_at` (DESIGN 3.7)."""
    cur().ghost.setdefault("per_item", []).append((n, clause))


def pile_at(*indices):
    """Instantiate the registered per-item postconditions (of get_item_rows / get_rows_sizes calls made so far on
    this path) at the given indices."""
    st = cur()
    for n, clause in list(st.ghost.get("per_item", [])):
        for j in indices:
            st.assume(implies(both(0 <= j, j < n), clause(j)))


def psum_of(seq, k):
    """Sum of the first k elements of a list value (concrete or symbolic)."""
    return Q.to_sseq(seq).psum(k)


def entry_is(e, x):
    """List entry e (possibly an optional value) is the integer x (formula, never forks)."""
    if isinstance(e, V.SOpt):
        return both(neg(mk_bool(e.isnone)), e.val == x)
    return False if e is None else e == x


def pile_size_ok(size):
    return both(*[both(0 <= d, d < DIMMAX) for d in size])


def _gir_flow_loop(v):
    """Flow Pile: one entry per item so far, each the rows of that item (HS), and their sum is PH."""
    p = v.self
    i = v.i_
    size, focus = v.size, v.focus
    rn = v.rows_numbers.seq
    ph_unfold(p, i - 1, size, focus)
    yield "one-entry-per-item-so-far", Q.seq_len(rn) == i
    yield "entries-are-the-items-rows", forall(0, i, lambda j: entry_is(Q.seq_get(rn, j), pile_item_height(p, j, size, focus)))
    yield "summed", psum_of(rn, i) == PH(focus, i)


@contract(PI + "Pile.get_item_rows", property=("C19", "C01"), inline=PINL, replayable=False, deterministic=True)
class pile_get_item_rows:
    """Box case (size = (maxcol, maxrow)): every entry >= 0, given/packed items get exactly their rows,
    and the weighted items share exactly what is left: sum = fixed + max(maxrow - fixed, 0).
    Flow case (size = (maxcol,)): every item gets the rows of the shared geometry (HS): its given height, or
    what the child reports for the size it is rendered at."""

    self_shape = PILE
    params = dict(size=Union(Tup(Int, Int), Tup(Int)), focus=Bool)
    result = ListOf(Int)  # no entry is None on return (clauses `entries...` below)
    raises = (_pile.PileError,)
    # normal return <=> a positive weight (box): `had-a-weighted-item` / `only-without-a-positive-weight` below
    raises_iff = {_pile.PileError: lambda s, a: both(len(a.size) == 2, WT(n_items(s)) <= 0)}
    deterministic_reads = ("_contents",)
    static_checks = [lambda: reads_only(PI + "Pile.get_item_rows", {"contents", "focus"})]

    def requires(s, a):
        return both(pile_wf(s), pile_size_ok(a.size))

    def ensures(old, s, a, result):
        n = n_items(old)
        rn = result.seq if hasattr(result, "seq") else result
        yield "one-entry-per-item", Q.seq_len(rn) == n
        if len(a.size) == 1:
            ph_unfold(old, n - 1, a.size, a.focus)
            # (failed on the tree until fix 8cbf681: the flow branch took w.pack((), focused)[0], the width, as the rows of
            #  a fixed-only packed child: Pile([('pack', BigText("123", Thin3x3Font())), Text('x')]).get_item_rows((12,), False) -> [9, 1])
            yield "every-item-gets-the-rows-it-is-rendered-with", forall(0, n, lambda j: entry_is(Q.seq_get(rn, j), pile_item_height(old, j, a.size, a.focus)))
            yield "sum-is-the-total-height", rn.psum(n) == PH(a.focus, n)
            return
        maxcol, maxrow = a.size
        pile_unfold(old, n - 1, maxcol, a.focus)
        fixed = FIX(n)
        yield "entries-non-negative-own-rows-for-given-and-pack", forall(0, n, lambda j: _entry_ok(old, rn, j, maxcol, a.focus, True))
        yield "weighted-items-fill-the-rest-exactly", rn.psum(n) == fixed + imax(maxrow - fixed, 0)
        yield "had-a-weighted-item", WT(n) > 0

    def ensures_callee(old, s, a, result):
        """At call sites: the quantifier-free clauses; the per-item clause is instantiated on demand (`pile_at`)."""
        n = n_items(old)
        rn = result.seq if hasattr(result, "seq") else result
        yield "one-entry-per-item", Q.seq_len(rn) == n
        if len(a.size) == 1:
            per_item = lambda j: entry_is(Q.seq_get(rn, j), pile_item_height(old, j, a.size, a.focus))  # noqa: E731
            yield "sum-is-the-total-height", rn.psum(n) == PH(a.focus, n)
        else:
            per_item = lambda j: _entry_ok(old, rn, j, a.size[0], a.focus, True)  # noqa: E731
            fixed = FIX(n)
            yield "weighted-items-fill-the-rest-exactly", rn.psum(n) == fixed + imax(a.size[1] - fixed, 0)
            yield "had-a-weighted-item", WT(n) > 0
        register_per_item(n, per_item)

    def on_raise(old, s, a, exc):
        n = n_items(old)
        yield "only-a-box-pile-without-a-positive-weight", both(len(a.size) == 2, WT(n) == 0)

    loops = {
        0: Loop(invariant=_gir_flow_loop, shapes={"rows_numbers": ListOf(Int)}),
        1: Loop(invariant=_gir_loop0, shapes={"rows_numbers": ROWS}),
        2: Loop(invariant=_gir_loop1, shapes={"rows_numbers": ROWS}),
    }


pile_get_item_rows_box = pile_get_item_rows


@lemma("prefix-sum-monotone", property="C19")
class prefix_sum_monotone:
    """Induction step + base for: a prefix sum of non-negative terms never decreases (used, instantiated,
    for WT above).  P(b) := S(a) <= S(b) for a <= b; base b = a; step from the defining equation."""

    params = dict(a=Int, b=Int, t=Int, sa=Int, sb=Int)

    def requires(x):
        # S(b+1) = S(b) + t with t >= 0, induction hypothesis S(a) <= S(b)
        return both(x.a <= x.b, x.t >= 0, x.sa <= x.sb)

    def claim(x):
        yield "base", x.sa <= x.sa
        yield "step", x.sa <= x.sb + x.t
