"""C19 — Pile / Columns space partition: the real loops of Pile.get_item_rows and Columns.column_widths
against prefix-sum spec functions over the (immutable) contents list, children abstract."""
import z3

from pyvc import seqs as Q
from pyvc import values as V
from pyvc.api import *
from pyvc.api import PROTOCOLS
from pyvc.values import cur, mk_bool, mk_int
from contracts.proto_widget import *
from contracts.C08_focus import PI, PILE, PINL, item_at, n_items, pile_ri

import urwid
from urwid.widget import pile as _pile

B = 2**26  # float-as-rational bound (DESIGN §3.6)


# --------------------------------------------------------------------------------------------- Pile (box)
#
# Spec functions over the contents (recursive definitions, instantiated groundly where used):
#   FIX(k) = sum over j<k of the rows of the given / packed / zero-weighted items
#   WT(k)  = sum over j<k of the weights of the positively weighted items
# Monotonicity of WT (a prefix sum of non-negative terms) is the lemma `prefix-sum-monotone` below.

_FIX = z3.Function("pile$FIX", z3.IntSort(), z3.IntSort())
_WT = z3.Function("pile$WT", z3.IntSort(), z3.IntSort())


def _focus_widget(p):
    return item_at(p, p._contents._focus)[0]


def pile_item_fixed(p, j, maxcol, focus):
    """Rows of item j if it is not positively weighted (given: its height; pack: what the child reports;
    zero weight: 0), else 0 — as a formula."""
    st = cur()
    W = PROTOCOLS["Widget"]
    w, (f, h) = item_at(p, j)
    foc = both(focus, eq(_focus_widget(p), w))
    rows = W.call_quiet(st, w, "rows", dict(size=(maxcol,), focus=foc))
    # a packed child that is fixed-only is handed the size () by get_rows_sizes: it takes the rows it packs to
    flowish = either(sizing_has(w, urwid.Sizing.FLOW), neg(sizing_has(w, urwid.Sizing.FIXED)))
    rows = ite(flowish, rows, W.call_quiet(st, w, "pack", dict(size=(), focus=foc))[1])
    return ite(f == "pack", rows, ite(f == "given", h.val, 0))


def pile_item_weight(p, j):
    w, (f, h) = item_at(p, j)
    return ite(both(f == "weight", neg(mk_bool(h.isnone))), h.val, 0)


def pile_unfold(p, j, maxcol, focus):
    """Definitional axioms of FIX / WT at index j (0 <= j < n)."""
    st = cur()
    n = n_items(p)
    zj = V._z(j)
    ok = z3.And(zj >= 0, zj < V._z(n))
    st.assume(_FIX(z3.IntVal(0)) == 0)
    st.assume(_WT(z3.IntVal(0)) == 0)
    st.assume(z3.Implies(ok, _FIX(zj + 1) == _FIX(zj) + V._z(pile_item_fixed(p, j, maxcol, focus))))
    st.assume(z3.Implies(ok, _WT(zj + 1) == _WT(zj) + V._z(pile_item_weight(p, j))))
    # lemma prefix-sum-monotone, instantiated: WT(j) <= WT(j+1) <= WT(n)
    st.assume(z3.Implies(ok, z3.And(_WT(zj) <= _WT(zj + 1), _WT(zj + 1) <= _WT(V._z(n)), _WT(zj) >= 0)))


def FIX(k):
    return mk_int(_FIX(V._z(k)))


def WT(k):
    return mk_int(_WT(V._z(k)))


def pile_wf(s):
    """Options as Pile.options() produces them: ('pack', None), ('given', n >= 0), ('weight', w >= 0)."""
    n = n_items(s)

    def ok(j):
        w, (f, h) = item_at(s, j)
        return both(
            implies(f == "pack", mk_bool(h.isnone)),
            implies(neg(f == "pack"), both(neg(mk_bool(h.isnone)), h.val >= 0, h.val < PARTMAX)),
        )

    return both(pile_ri(s), forall(0, n, ok), n < 2**20)


ROWS = ListOf(Opt(Int))


def _entry_ok(p, rn, j, maxcol, focus, done):
    """Entry j of rows_numbers: a positively weighted item is still None (or, once `done`, a non-negative
    share); every other item has exactly its own rows."""
    e = Q.seq_get(rn, j)
    wt = pile_item_weight(p, j)
    fx = pile_item_fixed(p, j, maxcol, focus)
    isn = mk_bool(e.isnone) if isinstance(e, V.SOpt) else (e is None)
    ev = e.val if isinstance(e, V.SOpt) else e
    if done:
        return both(neg(isn), implies(wt == 0, ev == fx), ev >= 0)
    return both(implies(wt > 0, isn), implies(wt == 0, both(neg(isn), ev == fx)))


def _gir_loop0(v):
    p = v.self
    maxcol, focus = v.maxcol, v.focus
    i = v.i_
    rn = v.rows_numbers.seq
    pile_unfold(p, i - 1, maxcol, focus)
    yield "one-entry-per-item-so-far", Q.seq_len(rn) == i
    yield "remaining-is-what-fixed-items-leave", v.remaining == v.size[1] - FIX(i)
    yield "weights-summed", both(v.wtotal == WT(i), v.wtotal >= 0)
    yield "entries", forall(0, i, lambda j: _entry_ok(p, rn, j, maxcol, focus, False))


def _gir_loop1(v):
    p = v.self
    maxcol, focus = v.maxcol, v.focus
    i = v.i_
    n = n_items(p)
    rn = v.rows_numbers.seq
    pile_unfold(p, i - 1, maxcol, focus)
    pile_unfold(p, i, maxcol, focus)
    r0 = imax(v.size[1] - FIX(n), 0)
    yield "length-kept", Q.seq_len(rn) == n
    yield "done-entries", forall(0, i, lambda j: _entry_ok(p, rn, j, maxcol, focus, True))
    yield "pending-entries", forall(i, n, lambda j: _entry_ok(p, rn, j, maxcol, focus, False))
    yield "suffix-weight", both(v.wtotal == WT(n) - WT(i), v.wtotal >= 0)
    yield "remaining-nonneg", v.remaining >= 0
    yield "all-handed-out-with-the-last-weight", implies(v.wtotal == 0, v.remaining == 0)
    yield "conservation", rn.psum(i) + v.remaining - FIX(i) == r0
    # the share just handed out is its weight's proportion of what was left, to within rounding (local form
    # of the statement's proportionality clause): |share - left*weight/weights_left| <= 1/2
    hp = pile_item_weight(p, i - 1)
    e = Q.seq_get(rn, i - 1)
    r = e.val if isinstance(e, V.SOpt) else e
    wp, rp = v.wtotal + hp, v.remaining + r
    d = 2 * wp * r - 2 * rp * hp
    yield "share-proportional-to-weight", implies(both(i > 0, hp > 0), both(-wp <= d, d <= wp))


@contract(PI + "Pile.get_item_rows", property=("C19", "C01"), inline=PINL, replayable=False)
class pile_get_item_rows_box:
    """Box case (size = (maxcol, maxrow)): every entry >= 0, given/packed items get exactly their rows,
    and the weighted items share exactly what is left: sum = fixed + max(maxrow - fixed, 0)."""

    self_shape = PILE
    params = dict(size=Tup(Int, Int), focus=Bool)
    result = ROWS
    raises = (_pile.PileError,)

    def requires(s, a):
        return both(pile_wf(s), 0 <= a.size[0], a.size[0] < DIMMAX, 0 <= a.size[1], a.size[1] < DIMMAX)

    def ensures(old, s, a, result):
        n = n_items(old)
        maxcol, maxrow = a.size
        rn = result.seq if hasattr(result, "seq") else result
        pile_unfold(old, n - 1, maxcol, a.focus)
        fixed = FIX(n)
        yield "one-entry-per-item", Q.seq_len(rn) == n
        yield "entries-non-negative-own-rows-for-given-and-pack", forall(0, n, lambda j: _entry_ok(old, rn, j, maxcol, a.focus, True))
        yield "weighted-items-fill-the-rest-exactly", rn.psum(n) == fixed + imax(maxrow - fixed, 0)
        yield "had-a-weighted-item", WT(n) > 0

    def on_raise(old, s, a, exc):
        n = n_items(old)
        yield "only-without-a-positive-weight", WT(n) == 0

    loops = {
        1: Loop(invariant=_gir_loop0, shapes={"rows_numbers": ROWS}),
        2: Loop(invariant=_gir_loop1, shapes={"rows_numbers": ROWS}),
    }


@lemma("prefix-sum-monotone", property="C19")
class prefix_sum_monotone:
    """Induction step + base for: a prefix sum of non-negative terms never decreases (used, instantiated,
    for WT above).  P(b) := S(a) <= S(b) for a <= b; base b = a; step from the defining equation."""

    params = dict(a=Int, b=Int, t=Int, sa=Int, sb=Int)

    def requires(x):
        # S(b+1) = S(b) + t with t >= 0, induction hypothesis S(a) <= S(b)
        return both(x.a <= x.b, x.t >= 0, x.sa <= x.sb)

    def claim(x):
        yield "base", x.sa <= x.sa
        yield "step", x.sa <= x.sb + x.t
