"""C14 — the library's own connect / disconnect pairs: `ListBox.body = walker` (urwid/widget/listbox.py).

Statement: "Handlers already disconnected when the emit starts ... are never called"; "each emit invokes every handler
that stays connected ... exactly once".  A ListBox listens to its walker's 'modified' signal with its own `_invalidate`
method; for the statement to hold for that handler the body setter must keep the connection discipline:

  * the walker that WAS the body is disconnected -- exactly when there was one (the first assignment, made by
    `__init__`, finds no `_body` attribute at all), WHATEVER ITS TRUTH VALUE: SimpleListWalker / SimpleFocusListWalker
    are list subclasses, an empty one is falsy, and it is as connected as a full one;
  * the walker that BECOMES the body is connected exactly once, after that disconnect, with the same handler
    (`self._invalidate`, no user arguments): one connection = one call per emit, two = two.

Model.  Walkers are opaque individuals (kind "SigWalker"): truth value, "has a get_focus attribute" and "its class
registers 'modified'" are uninterpreted predicates of the individual.  `signals.connect_signal` /
`signals.disconnect_signal` (bound methods of the module's `Signals` instance; their bodies are verified in
contracts/C14_signals.py / C14_disconnect.py: connect raises NameError iff the name is not registered for the sender's
class, disconnect never raises) are seen here as ghost events ("connect" | "disconnect", sender, name, callback,
#extra arguments) in the ListBox's trace, next to the "_invalidate" events of Widget._invalidate."""
import z3

from pyvc import shapes as S
from pyvc import values as V
from pyvc.api import *
from pyvc.api import PROTOCOLS
from pyvc.engine import PyRaise, SExc
from pyvc.interp import FnVal
from pyvc.protocol import PMethod, Protocol
from pyvc.values import cur, mk_bool
from contracts.proto_widget import w_invalidate  # noqa: F401  (assumed: Widget._invalidate, logged as "_invalidate")

from urwid import signals as _sig
from urwid.widget import listbox as _lbmod

LBX = "urwid/widget/listbox.py:"


def _uf(name, w):
    return mk_bool(z3.Function(f"SigWalker.{name}", w.e.sort(), z3.BoolSort())(w.e))


def truthy(st, w):
    """bool(walker): unknown (`__len__` of a list-like walker)."""
    return _uf("truthy", w)


def registers_modified(w):
    """'modified' is a registered signal name of the walker's class (decided by MetaSignals / register_signal)."""
    return _uf("registers_modified", w)


class SigWalkerProtocol(Protocol):
    """What the body setter may ask of the object it is given: whether it has a `get_focus` attribute (a list walker)
    or not (any iterable of widgets, to be wrapped in a SimpleListWalker)."""

    kind = "SigWalker"
    methods = {"get_focus": PMethod(Tup(Opt(Opaque("Widget")), Int), params=[])}
    has = {"get_focus": "uf"}


PROTOCOLS["SigWalker"] = SigWalkerProtocol()
WALKER = Opaque("SigWalker", truth=truthy)


class _ListBoxShape(Obj):
    """A ListBox before (`_body` not yet assigned: the call made by __init__) or after its first body assignment."""

    def fresh(self, st, hint):
        o = super().fresh(st, hint)
        if st.fork(2) == 1:
            del o.fields["_body"]
        return o


LISTBOX = _ListBoxShape(_lbmod.ListBox, dict(_body=WALKER))


def _same_method(cb, obj, name):
    """cb is the bound method obj.<name> (a FnVal bound to the very object)."""
    return isinstance(cb, FnVal) and cb.bound is obj and cb.ref.node.name == name


def _body_real(ip, st, f, args, kwargs):
    me = st.ghost["listbox"]
    if f == _sig.disconnect_signal:
        # Signals.disconnect: raises=() ("disconnecting something that is not connected does nothing")
        me.trace.append(("disconnect", args[0], args[1], args[2], len(args) - 3 + len(kwargs)))
        return None
    if f == _sig.connect_signal:
        # Signals.connect: NameError iff the name is not registered for the sender's class, and then nothing is written
        w = args[0]
        ok = st.branch(registers_modified(w).e) if isinstance(w, V.SOpaque) else True
        me.trace.append(("connect", args[0], args[1], args[2], len(args) - 3 + len(kwargs), ok))
        if not ok:
            raise PyRaise(SExc(NameError, ("<no such signal for the class>",), site="callee Signals.connect"))
        return V.SOpaque("SigKey", z3.Const(st.fresh_name("key"), S.opaque_sort("SigKey")))
    if f is _lbmod.SimpleListWalker:
        # SimpleListWalker(contents): a NEW walker (no other object) of a class that registers 'modified'
        w = WALKER.fresh(st, "made_walker")
        w.meta["made_from"] = args[0]
        st.assume(registers_modified(w))
        for other in (me.fields.get("_body"), args[0]):
            if isinstance(other, V.SOpaque) and other.kind == "SigWalker":
                st.assume(mk_bool(w.e != other.e))
        return w
    if f is _lbmod.nocache_widget_render_instance:
        return V.SOpaque("NoCacheRender", z3.Const(st.fresh_name("nocache_render"), S.opaque_sort("NoCacheRender")), {"of": args[0]})
    return NotImplemented


def _setup(st, self_obj, vals):
    st.ghost["listbox"] = self_obj


@contract(LBX + "ListBox.body.setter", property="C14", replayable=False)
class listbox_set_body:
    self_shape = LISTBOX
    params = dict(body=WALKER)
    raises = ()
    modifies = ("_body", "render")
    setup = staticmethod(_setup)
    call_real = staticmethod(_body_real)

    def ensures(old, s, a, result):
        had = "_body" in old.fields
        disc = [ev for ev in s.trace if ev[0] == "disconnect"]
        conn = [ev for ev in s.trace if ev[0] == "connect"]
        order = [ev[0] for ev in s.trace]
        if had:
            yield "old-body-disconnected-whatever-its-truth-value", len(disc) == 1
            if len(disc) == 1:
                _e, w, name, cb, extra = disc[0]
                yield "disconnect-names-the-old-body-and-our-handler", both(
                    isinstance(w, V.SOpaque) and mk_bool(w.e == old._body.e), name == "modified", _same_method(cb, s, "_invalidate"), extra == 0)
        else:
            yield "no-old-body-nothing-disconnected", len(disc) == 0
        new = s.fields.get("_body")
        yield "a-body-is-stored", isinstance(new, V.SOpaque)
        # a walker (has get_focus) is used as it is; anything else is wrapped in a new SimpleListWalker
        is_walker = PROTOCOLS["SigWalker"].hasattr(None, cur(), a.body, "get_focus")
        yield "walker-stored-as-is-else-wrapped", ite(is_walker, mk_bool(new.e == a.body.e),
                                                       new.meta.get("made_from") is a.body)
        yield "new-body-connected-exactly-once", len(conn) == 1
        if len(conn) == 1:
            _e, w, name, cb, extra, ok = conn[0]
            yield "connect-names-the-new-body-and-our-handler", both(w is new, name == "modified", _same_method(cb, s, "_invalidate"), extra == 0)
            yield "connected-iff-the-class-has-the-signal", eq(ok, registers_modified(new))
            # a walker without the signal cannot tell us about changes: then (and only then) rendering is uncached
            r = s.fields.get("render")
            yield "no-signal-no-cache", (isinstance(r, V.SOpaque) and r.kind == "NoCacheRender" and r.meta["of"] is s) if not ok else r is None
        yield "disconnect-before-connect", order.index("disconnect") < order.index("connect") if had and "disconnect" in order and "connect" in order else True
        yield "invalidated-last", len(order) > 0 and order[-1] == "_invalidate" and order.count("_invalidate") == 1
        yield "returns-None", result is None
