"""C01 / C19 — Columns at its natural size: the real body of `Columns._get_fixed_column_sizes` (four loops over three dicts
keyed by the column index, a dict of lists of (widget, index, is_box, focused) keyed by the weight, and the work list
`box`), `Columns.get_column_sizes(())` and `Columns.pack`.

Specified like contracts/C01_pilefixed.py (schemas proved for arbitrary indices, used at the index terms in play).  Where an
element sits in a work list is a GHOST of the loops -- `posBox[x]` / `posGrp[x]`: the position at which column x was
appended to `box` / to the list of its weight group -- an array that the invariant is existentially quantified over: at the
loop head it is an unknown (a fresh constant), and when the invariant is re-established after the body the contract supplies
the witness (the old array updated at the column just appended)."""
import z3

from pyvc import seqs as Q
from pyvc import values as V
from pyvc.api import *
from pyvc.api import PROTOCOLS
from pyvc.fmap import MapOf, xcheck_intmap
from pyvc.seqs import View
from pyvc.values import cur, mk_bool, mk_int
from contracts.proto_widget import *
from contracts.C08_focus import CINL, CO, COLUMNS, CSIZE, GRS_RESULT, item_at, n_items, pile_ri
from contracts.C19_containers import pile_at, psum_of, reads_only, register_per_item
from contracts.C01_packs import BOX, FIXED, FLOW, CF, child_index, col_flags, col_unsupported, csz_unfold, csz_unsupported_stays, _setup_child
from contracts.C01_pilefixed import _memo, _mv, _rel, _sget, _tid, arb

from urwid.widget import columns as _columns

ColumnsError = _columns.ColumnsError
GROUP = ListOf(Tup(Opaque("Widget"), Int, Bool, Bool))
COL_FIXED_LOCALS = dict(widths=MapOf(Int, Int), heights=MapOf(Int, Int), w_h_args=MapOf(Int, CSIZE), weighted=MapOf(Int, GROUP), weight_max_sizes=MapOf(Int, Int))
WMAX = 2**16


def remember(name, fn):
    cur().ghost.setdefault("cf_schemas", {})[name] = fn


def recall(name, *args):
    st = cur()
    fn = st.ghost.get("cf_schemas", {}).get(name)
    if fn is None:
        return
    for _label, f in fn(*args):
        st.assume(f)


def sel(arr, x):
    return mk_int(z3.Select(arr, V._z(x)))


def fresh_arr(name):
    return z3.Array(cur().fresh_name(name), z3.IntSort(), z3.IntSort())


def arrs():
    return cur().ghost.setdefault("cf_arr", {})


# --------------------------------------------------------------------------------------------- the columns, by class


def Col(c, x, focus):
    return _memo("col", (id(c), _tid(x), _tid(focus)), lambda: _Col(c, x, focus))


class _Col:
    """Formulas about column x of Columns c at focus flag `focus` (x any integer term; uses are guarded by the caller)."""

    def __init__(self, c, x, focus):
        st = cur()
        W = PROTOCOLS["Widget"]
        self.x = x
        self.w, (kind, amt, is_box) = item_at(c, x)
        self.kind, self.amt, self.is_box = kind, amt.val, is_box
        self.amt_none = mk_bool(amt.isnone)
        self.cb, self.cf, self.cx = sizing_has(self.w, BOX), sizing_has(self.w, FLOW), sizing_has(self.w, FIXED)
        self.foc = both(focus, x == c._contents._focus)
        self.pw, self.ph = W.call_quiet(st, self.w, "pack", dict(size=(), focus=self.foc))
        pk, gv, wt = kind == "pack", kind == "given", kind == "weight"
        self.pk, self.gv, self.wt = pk, gv, wt
        cb, cf, cx, ib = self.cb, self.cf, self.cx, is_box
        self.pos, self.zero = both(wt, self.amt > 0), both(wt, self.amt <= 0)
        self.raises = either(both(gv, neg(ib), neg(cf)), both(self.pos, neg(cf), neg(ib)))  # ColumnsError 'Unsupported combination'
        self.type_error = both(pk, neg(both(cx, neg(ib))))  # `size_weight <= 0` with the None amount of a packed column
        self.g_box, self.g_flow = both(gv, ib), both(gv, neg(ib), cf)
        self.p_fix = both(pk, cx, neg(ib))
        self.z_box, self.z_flow = both(self.zero, ib), both(self.zero, neg(ib))
        self.grp = both(self.pos, either(cf, ib))  # shares the width of its weight group
        self.grp_box, self.grp_flow = both(self.grp, ib), both(self.grp, neg(ib))
        self.seg1box = either(self.g_box, self.z_box)  # put on the `box` list by the first loop
        self.boxdest = either(self.seg1box, self.grp_box)  # as tall as the tallest other column
        self.own_height = either(self.g_flow, self.p_fix, self.zero, self.grp_flow)  # has a height before the last loop
        # first loop
        self.w0has = either(gv, self.p_fix, self.zero)
        self.w0 = ite(gv, self.amt, ite(self.zero, 0, self.pw))
        self.h0has = either(self.g_flow, self.p_fix, self.zero)
        self.a0has = either(self.g_flow, self.p_fix, self.z_flow)

    def rows_at(self, cols):
        return PROTOCOLS["Widget"].call_quiet(cur(), self.w, "rows", dict(size=(cols,), focus=self.foc))

    def h0(self):
        return ite(self.g_flow, self.rows_at(self.amt), ite(self.zero, 1, self.ph))

    def a0_is(self, a):
        return either(both(self.g_flow, V.struct_eq(a, (self.amt,))), both(self.p_fix, V.struct_eq(a, ())), both(self.z_flow, V.struct_eq(a, (0,))))

    def entry_is(self, e):
        """`e` is this column's entry (widget, index, is_box, focused) of its weight group."""
        return both(eq(e[0], self.w), e[1] == self.x, eq(e[2], self.is_box), eq(e[3], self.foc))


def col_fixed_wf(s):
    """Options as Columns.options() produces them: ('pack', None, b), ('given', g >= 0, b), ('weight', w >= 0, b) with
    integer amounts (zero weights included); columns in box_columns hold box widgets -- stated for the columns in play."""
    n = n_items(s)
    return both(pile_ri(s), n < 2**10, 0 <= s.dividechars, s.dividechars < PARTMAX, 0 <= s.min_width, s.min_width < 2**12,
                forall(0, n, lambda x: col_opts_ok(s, x)))


def col_opts_ok(c, x):
    w, (kind, amt, is_box) = item_at(c, x)
    return implies(both(0 <= x, x < n_items(c)), both(
        eq(kind == "pack", mk_bool(amt.isnone)),
        implies(kind == "given", both(amt.val >= 0, amt.val < PARTMAX)), implies(kind == "weight", both(amt.val >= 0, amt.val < WMAX)),
        implies(is_box, sizing_has(w, BOX))))


def assume_opts(c, *xs):
    """The well-formedness of the options (the quantified conjunct of `col_fixed_wf`, a precondition), instantiated at the
    columns in play so that the proofs do not depend on the solver instantiating it."""
    for x in xs:
        _memo("opts", _tid(x), lambda x=x: cur().assume(col_opts_ok(c, x)) or True)


GDUMMY = lambda c: (item_at(c, 0)[0], 0, False, False)  # noqa: E731


# --------------------------------------------------------------------------------------------- loop 0: classify the columns


def _c0_schemas(v, i, posBox, posGrp):
    c, focus = v.self, v.focus
    Wm, Hm, Am, Gm, Mm = _mv(v.widths), _mv(v.heights), _mv(v.w_h_args), _mv(v.weighted), _mv(v.weight_max_sizes)
    box = _mv(v.box)
    gd = GDUMMY(c)

    def per_col(x):
        it = Col(c, x, focus)
        assume_opts(c, x)
        seen = both(0 <= x, x < i)
        yield "widths-so-far", both(eq(Wm.has(x), both(seen, it.w0has)), implies(Wm.has(x), Wm.val(x) == it.w0))
        yield "heights-so-far", both(eq(Hm.has(x), both(seen, it.h0has)), implies(Hm.has(x), Hm.val(x) == it.h0()))
        yield "size-arguments-so-far", both(eq(Am.has(x), both(seen, it.a0has)), implies(Am.has(x), it.a0_is(Am.val(x))))
        yield "no-column-so-far-is-unsupported", implies(seen, both(neg(it.raises), neg(it.type_error)))
        pb = sel(posBox, x)
        yield "box-columns-are-listed", implies(both(seen, it.seg1box), both(0 <= pb, pb < Q.seq_len(box), _sget(box, pb, 0) == x))
        pg = sel(posGrp, x)
        grp = Gm.val(it.amt)
        yield "weighted-columns-are-grouped-by-weight", implies(both(seen, it.grp), both(Gm.has(it.amt), 0 <= pg, pg < Q.seq_len(grp), it.entry_is(_sget(grp, pg, gd))))

    def per_box_pos(q):
        t = _sget(box, q, 0)
        it = Col(c, t, focus)
        yield "box-entries", implies(both(0 <= q, q < Q.seq_len(box)), both(0 <= t, t < i, it.seg1box, sel(posBox, t) == q))

    def per_weight(u):
        yield "one-maximum-per-weight-group", eq(Mm.has(u), Gm.has(u))
        yield "weights-of-groups-are-positive", implies(Gm.has(u), u > 0)

    def per_group_pos(u, q):
        grp = Gm.val(u)
        e = _sget(grp, q, gd)
        t = e[1]
        it = Col(c, t, focus)
        yield "group-entries", implies(both(Gm.has(u), 0 <= q, q < Q.seq_len(grp)), both(0 <= t, t < i, it.grp, it.amt == u, sel(posGrp, t) == q, it.entry_is(e)))

    def weight_of_col(x):
        yield from per_weight(Col(c, x, focus).amt)

    return dict(col=per_col, boxpos=per_box_pos, weight=per_weight, grouppos=per_group_pos, weight_of_col=weight_of_col)


def _glen(m, u):
    """len(d[u]) if u in d else 0, for a dict of lists."""
    return ite(m.has(u), Q.seq_len(m.val(u)), 0)


def _c0(v):
    st = cur()
    c, focus, i = v.self, v.focus, v.i_
    A = arrs()
    if isinstance(i, int):  # inv-init: nothing appended yet, any arrays do
        A.setdefault("posBox", fresh_arr("posBox"))
        A.setdefault("posGrp", fresh_arr("posGrp"))
    elif st.ghost.get("inv_assuming"):
        A["posBox"], A["posGrp"] = fresh_arr("posBox"), fresh_arr("posGrp")  # the ghosts of the arbitrary iteration: unknowns
        st.ghost["cf_head0"] = View(dict(i=i, box_len=Q.seq_len(_mv(v.box)), Gm=_mv(v.weighted), posBox=A["posBox"], posGrp=A["posGrp"]))
    else:  # inv-preserve: the witnesses -- the head's arrays updated at the column just handled
        h = st.ghost["cf_head0"]
        it = Col(c, h.i, focus)
        A["posBox"] = z3.If(V._zb(Q.seq_len(_mv(v.box)) > h.box_len), z3.Store(h.posBox, V._z(h.i), V._z(h.box_len)), h.posBox)
        A["posGrp"] = z3.If(V._zb(it.grp), z3.Store(h.posGrp, V._z(h.i), V._z(_glen(h.Gm, it.amt))), h.posGrp)
    S = _c0_schemas(v, i, A["posBox"], A["posGrp"])
    j = child_index()
    x, qb, u, qg = arb("cx"), arb("cqb"), arb("cu"), arb("cqg")
    assume_opts(c, i - 1, i, x, j)
    csz_unfold(c, i - 1)
    if st.ghost.get("inv_assuming"):
        for name, fn in S.items():
            remember("C0:" + name, fn)
        Mm, Hm = _mv(v.weight_max_sizes), _mv(v.heights)

        def hook(seq, w):
            m = getattr(seq, "map_src", None)
            if m is None:  # max(width / weight for weight, width in weight_max_sizes.items()): every key is positive
                recall("C0:weight", Mm.key(w))
                return
            # max(heights.values()): the column that is the tallest, and which of the recorded max() bounds is this one's
            kh = m.key(w)
            st.ghost["cf_kh"] = kh
            st.ghost["cf_mh_lf"] = len(st.ghost.get("lazy_forall", []))
            st.ghost["cf_heights_at_max"] = m
            assume_opts(c, kh)
            _recall_cols(kh)

        st.ghost.setdefault("witness_hooks", []).append(hook)
    for xx in (x, j):
        yield from S["col"](xx)
    yield from S["boxpos"](qb)
    for uu in (u, Col(c, i - 1, focus).amt, Col(c, x, focus).amt, Col(c, j, focus).amt):
        yield from S["weight"](uu)
    yield from S["grouppos"](u, qg)


# ---- loops 1 and 2: the weight groups get their width; their flow columns a height, their box columns go on `box`


def _c1_schema(v, k1, posBox):
    c, focus = v.self, v.focus
    n = n_items(c)
    E = v.at_entry
    EW, EH, EA = _mv(E.widths), _mv(E.heights), _mv(E.w_h_args)
    Wm, Hm, Am = _mv(v.widths), _mv(v.heights), _mv(v.w_h_args)
    Mm = _mv(v.weight_max_sizes)
    box = _mv(v.box)
    minw = c.min_width

    def per_col(x):
        it = Col(c, x, focus)
        pos = Mm.idx(it.amt)
        done = both(0 <= x, x < n, it.grp, Mm.has(it.amt), 0 <= pos, pos < k1)
        yield _rel("widths-of-the-groups-handled", Wm, EW, x, done, lambda nv: nv >= minw)
        yield _rel("heights-of-the-flow-columns-of-the-groups-handled", Hm, EH, x, both(done, it.grp_flow), lambda nv: nv == it.rows_at(Wm.val(x)))
        yield _rel("size-arguments-of-the-flow-columns-of-the-groups-handled", Am, EA, x, both(done, it.grp_flow), lambda nv: V.struct_eq(nv, (Wm.val(x),)))
        pb = sel(posBox, x)
        listed = either(both(0 <= x, x < n, it.seg1box), both(done, it.grp_box))
        yield "box-columns-are-listed", implies(listed, both(0 <= pb, pb < Q.seq_len(box), _sget(box, pb, 0) == x))

    def per_box_pos(q):
        t = _sget(box, q, 0)
        it = Col(c, t, focus)
        pos = Mm.idx(it.amt)
        yield "box-entries", implies(both(0 <= q, q < Q.seq_len(box)), both(0 <= t, t < n, sel(posBox, t) == q,
                                                                             either(it.seg1box, both(it.grp_box, Mm.has(it.amt), 0 <= pos, pos < k1))))

    return dict(col=per_col, boxpos=per_box_pos)


def _c1(v):
    st = cur()
    c, focus, k1 = v.self, v.focus, v.i_
    A = arrs()
    Mm = _mv(v.weight_max_sizes)
    if not isinstance(k1, int) and st.ghost.get("inv_assuming"):
        A["posBox"] = fresh_arr("posBox")  # (the inner loop appends to `box`: the arbitrary iteration starts with an unknown ghost)
    S = _c1_schema(v, k1, A["posBox"])
    if st.ghost.get("inv_assuming"):
        for name, fn in S.items():
            remember("C1:" + name, fn)
    for q in (k1, k1 - 1):
        recall("C0:weight", Mm.key(q))
    j = child_index()
    for x in (arb("cx"), j):
        assume_opts(c, x)
        recall("C0:col", x)
        recall("C0:weight_of_col", x)
        yield from S["col"](x)
    qb = arb("cqb")
    recall("C0:boxpos", qb)
    yield from S["boxpos"](qb)


def _c2(v):
    """The inner loop: q entries of the group of `weight` handled."""
    st = cur()
    c, focus, q2 = v.self, v.focus, v.i_
    n = n_items(c)
    E = v.at_entry
    EW, EH, EA = _mv(E.widths), _mv(E.heights), _mv(E.w_h_args)
    Wm, Hm, Am = _mv(v.widths), _mv(v.heights), _mv(v.w_h_args)
    Mm, Gm = _mv(v.weight_max_sizes), _mv(v.weighted)
    box, ebox = _mv(v.box), _mv(E.box)
    weight, width = v.weight, v.width
    A = arrs()
    posGrp = A["posGrp"]
    grp = Gm.val(weight)
    if isinstance(q2, int):
        st.ghost["cf_entry2"] = View(dict(posBox=A["posBox"]))  # the ghost when the inner loop is reached
    elif st.ghost.get("inv_assuming"):
        A["posBox"] = fresh_arr("posBox")
        st.ghost["cf_head2"] = View(dict(q=q2, box_len=Q.seq_len(box), posBox=A["posBox"]))
    else:
        h = st.ghost["cf_head2"]
        e = _sget(grp, h.q, GDUMMY(c))
        A["posBox"] = z3.If(V._zb(e[2]), z3.Store(h.posBox, V._z(e[1]), V._z(h.box_len)), h.posBox)
    posBox, posBox0 = A["posBox"], st.ghost["cf_entry2"].posBox
    for q in (q2, q2 - 1):
        recall("C0:grouppos", weight, q)
    recall("C0:weight", weight)
    kpos = Mm.idx(weight)

    def per_col(x):
        it = Col(c, x, focus)
        cur_ = both(0 <= x, x < n, it.grp, it.amt == weight, sel(posGrp, x) < q2)
        yield _rel("widths-of-this-group-so-far", Wm, EW, x, cur_, lambda nv: nv == width)
        yield _rel("heights-of-the-flow-columns-of-this-group-so-far", Hm, EH, x, both(cur_, it.grp_flow), lambda nv: nv == it.rows_at(width))
        yield _rel("size-arguments-of-the-flow-columns-of-this-group-so-far", Am, EA, x, both(cur_, it.grp_flow), lambda nv: V.struct_eq(nv, (width,)))
        pb, pb0 = sel(posBox, x), sel(posBox0, x)
        recall("C1:boxpos", pb0)  # (what the outer loop knows of the entry at that position: not a column of this group)
        yield "earlier-box-entries-stay", implies(both(0 <= pb0, pb0 < Q.seq_len(ebox), _sget(ebox, pb0, 0) == x), both(pb == pb0, pb < Q.seq_len(box), _sget(box, pb, 0) == x))
        yield "box-columns-of-this-group-are-listed", implies(both(cur_, it.grp_box), both(0 <= pb, pb < Q.seq_len(box), _sget(box, pb, 0) == x))

    def per_box_pos(qb):
        t = _sget(box, qb, 0)
        it = Col(c, t, focus)
        old_entry = both(qb < Q.seq_len(ebox), t == _sget(ebox, qb, 0), sel(posBox0, t) == qb)
        new_entry = both(qb >= Q.seq_len(ebox), 0 <= t, t < n, it.grp_box, it.amt == weight, sel(posGrp, t) < q2)
        yield "box-entries", implies(both(0 <= qb, qb < Q.seq_len(box)), both(sel(posBox, t) == qb, either(old_entry, new_entry)))
        yield "box-only-grows", Q.seq_len(ebox) <= Q.seq_len(box)

    for x in (arb("cx"), child_index()):
        assume_opts(c, x)
        recall("C0:col", x)
        recall("C0:weight_of_col", x)
        yield from per_col(x)
    yield from per_box_pos(arb("cqb"))


# ---- loop 3: the box columns become as tall as the tallest other column


def _c3_schema(v, k3, posBox):
    c, focus = v.self, v.focus
    n = n_items(c)
    E = v.at_entry
    EH, EA = _mv(E.heights), _mv(E.w_h_args)
    Hm, Am, Wm = _mv(v.heights), _mv(v.w_h_args), _mv(v.widths)
    mh = v.max_height

    def per_col(x):
        it = Col(c, x, focus)
        done = both(0 <= x, x < n, it.boxdest, sel(posBox, x) < k3)
        st = cur()
        lf = st.ghost.get("lazy_forall", [])
        k = st.ghost.get("cf_mh_lf")
        if k is not None and k < len(lf):
            lo, hi, fn = lf[k]  # the bound of max(heights.values()), at the position of x among the heights
            pos = st.ghost["cf_heights_at_max"].idx(x)
            st.assume(implies(both(lo <= pos, pos < hi), fn(pos)))
        yield "no-own-height-exceeds-the-maximum", implies(EH.has(x), EH.val(x) <= mh)
        yield _rel("heights-of-the-box-columns-handled", Hm, EH, x, done, lambda nv: nv == mh)
        yield _rel("size-arguments-of-the-box-columns-handled", Am, EA, x, done, lambda nv: V.struct_eq(nv, (Wm.val(x), mh)))

    return per_col


def _recall_cols(x):
    for name in ("C0:col", "C0:weight_of_col", "C1:col"):
        recall(name, x)


def _c3(v):
    st = cur()
    c, focus, k3 = v.self, v.focus, v.i_
    n = n_items(c)
    A = arrs()
    S = _c3_schema(v, k3, A["posBox"])
    if st.ghost.get("inv_assuming"):
        remember("C3:col", S)
    box = _mv(v.box)
    terms = [arb("cx"), child_index()]
    for q in (k3, k3 - 1):
        recall("C1:boxpos" if "C1:boxpos" in st.ghost.get("cf_schemas", {}) else "C0:boxpos", q)
        t = _sget(box, q, 0)
        assume_opts(c, t)
        _recall_cols(t)  # (widths[idx] is read: a column on the box list has its width)
    if st.ghost.get("inv_assuming"):
        for m in (_mv(v.widths), _mv(v.heights), _mv(v.w_h_args)):
            terms.append(m.card_range_axiom(0, n))
    if "cf_kh" in st.ghost:
        terms.append(st.ghost["cf_kh"])
    for x in terms:
        assume_opts(c, x)
        _recall_cols(x)
        yield from S(x)


# ---------------------------------------------------------------------------------------------------------- the contract


def col_geometry_clauses(c, focus, result, mh, kh, j):
    """The geometry of a Columns at its natural size, for an arbitrary column j (0 <= j < n): `mh` is the height of the
    tallest column that has a height of its own, column `kh`."""
    Wt, Ht, At = result
    n = n_items(c)
    yield "one-width-per-column", Q.seq_len(Wt) == n
    yield "one-height-per-column", Q.seq_len(Ht) == n
    yield "one-size-argument-per-column", Q.seq_len(At) == n
    it = Col(c, j, focus)
    wj, hj, aj = Q.seq_get(Wt, j), Q.seq_get(Ht, j), Q.seq_get(At, j)
    is_ = lambda t: V.struct_eq(aj, t)  # noqa: E731
    yield "a-given-flow-column-has-its-width-and-the-rows-of-its-child", implies(it.g_flow, both(is_((it.amt,)), wj == it.amt, hj == it.rows_at(it.amt)))
    yield "a-given-box-column-has-its-width-and-the-common-height", implies(it.g_box, both(is_((it.amt, mh)), wj == it.amt, hj == mh))
    yield "a-packed-fixed-column-is-drawn-at-its-own-size", implies(it.p_fix, both(is_(()), wj == it.pw, hj == it.ph))
    yield "a-zero-weighted-column-gets-no-width", implies(it.zero, both(wj == 0, ite(it.is_box, both(is_((0, mh)), hj == mh), both(is_((0,)), hj == 1))))
    yield "a-weighted-flow-column-has-the-rows-of-its-child-at-its-width", implies(it.grp_flow, both(is_((wj,)), wj >= c.min_width, hj == it.rows_at(wj)))
    yield "a-weighted-box-column-has-the-common-height", implies(it.grp_box, both(is_((wj, mh)), wj >= c.min_width, hj == mh))
    yield "every-column-is-one-of-these", either(it.g_flow, it.g_box, it.p_fix, it.zero, it.grp_flow, it.grp_box)
    # C19: no child is ever handed a negative dimension
    yield "no-negative-dimension", both(wj >= 0, hj >= 0, mh >= 0)
    # box columns are as tall as the tallest column that has a height of its own
    yield "no-column-is-taller-than-the-common-height", hj <= mh
    kt = Col(c, kh, focus)
    yield "some-column-with-a-height-of-its-own-is-that-tall", both(0 <= kh, kh < n, kt.own_height, Q.seq_get(Ht, kh) == mh)
    # C01 (sizing tells the truth): a column that is drawn is handed a size of a mode its child reports
    yield "a-drawn-child-is-handed-a-size-of-a-mode-it-reports", implies(wj > 0, either(both(is_(()), it.cx), both(is_((wj,)), it.cf), both(is_((wj, mh)), it.cb)))


def _site_line(fragment):
    """Line (in the source file) of the statement of _get_fixed_column_sizes that contains `fragment`."""
    import inspect

    lines, start = inspect.getsourcelines(_columns.Columns._get_fixed_column_sizes)
    hits = [start + k for k, ln in enumerate(lines) if fragment in ln]
    return hits[0] if len(hits) == 1 else None


def csz_strict_stays(c, k):
    """Lemma `prefix-or-monotone`, instantiated for CSB: a strict box column among the first k is among all n."""
    n = n_items(c)
    cur().assume(implies(both(0 <= k, k <= n, CF("CSB", k)), CF("CSB", n)))


def columns_report_fixed(c):
    """FIXED is in Columns.sizing() (the spec functions of contracts/C01_packs.py)."""
    n = n_items(c)
    strict = CF("CSB", n)
    return both(n > 0, neg(CF("CU", n)), neg(strict), CF("CHX", n), neg(CF("CBF", n)))


CFIX_KEY = CO + "Columns._get_fixed_column_sizes"


def _col_geometry_at_call_site(old, s, a, result):
    """The natural-size geometry as a caller sees it (as contracts/C01_pilefixed.py: _geometry_at_call_site): the common
    height `mh` and the column `kh` that has it are deterministic ghost values of the call (`cf_geo`)."""
    st = cur()
    n = n_items(old)
    det = st.ghost.get("det_terms") or []
    sorts = [t.sort() for t in det]
    sig = ".".join(str(x)[0] for x in sorts)
    mh = mk_int(z3.Function("colfx$height/" + sig, *sorts, z3.IntSort())(*det)) if det else st.fresh_int("common_height")
    kh = mk_int(z3.Function("colfx$tallest/" + sig, *sorts, z3.IntSort())(*det)) if det else st.fresh_int("tallest_column")
    st.ghost["cf_geo"] = View(dict(mh=mh, kh=kh, result=result, focus=a.focus))

    def at(x):
        assume_opts(old, x)
        return list(col_geometry_clauses(old, a.focus, result, mh, kh, x))

    yield from at(child_index())
    yield "frame", both(s._contents._focus == old._contents._focus, n_items(s) == n)
    register_per_item(n, lambda x: both(*[f for _lab, f in at(x)]))


def _col_raise_at_call_site(old, s, a, exc):
    """At call sites nothing is claimed about WHY it raised (the clauses of `on_raise` that are marked FAILS-ON-TREE must
    not be assumed)."""
    return ()


# (property C01 only: three obligations of this contract fail on the tree -- see FAILS-ON-TREE -- and would make the check of
#  every property listed here report them; the C19 clause `no-negative-dimension` is discharged in C01's run)
@contract(CFIX_KEY, property="C01", inline=CINL, replayable=False, local_maps=COL_FIXED_LOCALS, setup=_setup_child,
          deterministic=True, deterministic_outcome=True)
class columns_fixed_sizes:
    """The geometry of a Columns at its natural size (widths, heights, size arguments -- one per column), from the real four
    loops.  ColumnsError only for a Columns that does not report FIXED (FAILS-ON-TREE for two classes, see on_raise); never
    any other exception (FAILS-ON-TREE: TypeError for a packed column that is not drawn at its own size)."""

    # FAILS-ON-TREE (obligation .../raises/TypeError@None): Columns([('pack', Edit('c', 'ab'))]).pack(()) -- or any packed column
    # whose child is not FIXED, or that is in box_columns -- raises TypeError("'<=' not supported between instances of 'NoneType'
    # and 'int'") from `elif size_weight <= 0`: sizing() does not report FIXED there (or does, for box_columns=[i] around a
    # FIXED child: Columns([('pack', Text('a'))], box_columns=[0])), but TypeError is not the documented error.  The only
    # TypeError site of the function: `when` = "True".
    self_shape = COLUMNS
    params = dict(focus=Bool)
    result = GRS_RESULT
    raises = (ColumnsError,)
    invariant = staticmethod(pile_ri)
    deterministic_reads = ("_contents", "min_width")
    static_checks = [lambda: reads_only(CFIX_KEY, {"contents", "focus_position", "min_width"})]
    notes = ("children: Widget protocol; options as Columns.options() makes them with integer weights 0 .. 2^16-1, given widths < 2^22, at most "
             "2^10 columns, min_width < 2^12; columns in box_columns hold box widgets (constructor doc) -- `col_fixed_wf`; `width / weight` and "
             "`int(coefficient * weight + 0.5)` read as exact rationals (DESIGN 3.6), only `>= min_width` of the group width is used; local dicts: "
             "pyvc.fmap with int keys, their len() by MapVal.card_range_axiom; positions in the work lists are ghost arrays (witnesses supplied at "
             "inv-preserve); deterministic_outcome backed by the static check that the body reads the contents, the focus position and min_width only")
    ensures_callee = staticmethod(_col_geometry_at_call_site)
    on_raise_callee = staticmethod(_col_raise_at_call_site)

    def requires(s, a):
        return col_fixed_wf(s)

    def ensures(old, s, a, result):
        st = cur()
        n = n_items(old)
        mh, kh = st.ghost["exit_locals"]["max_height"], st.ghost["cf_kh"]
        j = child_index()
        for x in (j, kh):
            assume_opts(old, x)
            _recall_cols(x)
            recall("C3:col", x)
        yield from col_geometry_clauses(old, a.focus, result, mh, kh, j)
        yield "frame", both(s._contents._focus == old._contents._focus, n_items(s) == n)

    def on_raise(old, s, a, exc):
        """ColumnsError only for a Columns that does not report FIXED -- stated for the arbitrary column: when it is the
        column the first loop gave up on, resp. (no height information) as one of the columns without a height of its own."""
        st = cur()
        n = n_items(old)
        j = child_index()
        loc = st.ghost.get("exit_locals", {})
        line = int(str(exc.site).rsplit(":", 1)[-1]) if exc.site and str(exc.site).rsplit(":", 1)[-1].isdigit() else None
        assume_opts(old, j)
        csz_unfold(old, j)
        csz_unfold(old, n - 1)
        csz_unsupported_stays(old, j + 1)
        csz_strict_stays(old, j + 1)
        if line == _site_line("No height information"):
            _recall_cols(j)
            _mv(loc["heights"]).has(j)  # (`not heights`: no key at all, in particular not j -- the dict axiom W2 at j)
            # FAILS-ON-TREE: Columns([(5, Filler(Text('a'), 'top'))], box_columns=[0]) reports FIXED (GIVEN FLOW -> FIXED), pack(()) and
            # render(()) raise ColumnsError('No height information ...'): every column is in box_columns.  `a.g_child_is_box`
            yield "no-height-information-only-for-columns-that-do-not-report-fixed", neg(columns_report_fixed(old))
        else:
            i = loc.get("i")
            # FAILS-ON-TREE: C01-KF10 -- a weighted column that is FIXED and BOX but neither FLOW nor in box_columns:
            # `both(a.g_child_kind == 'weight', neg(a.g_child_is_box), neg(a.g_child_flow))`
            yield "unsupported-column-only-for-columns-that-do-not-report-fixed", implies(i == j, neg(columns_report_fixed(old)))

    loops = {
        0: Loop(invariant=_c0, shapes=dict(box=ListOf(Int), weights=ListOf(Int))),
        1: Loop(invariant=_c1), 2: Loop(invariant=_c2), 3: Loop(invariant=_c3),
    }


# ================================================================================== Columns.get_column_sizes(()) / pack

GCS_KEY = CO + "Columns.get_column_sizes"
from contracts.C01_decor import _has, sizing_call_real  # noqa: E402
from contracts.C01_packs import col_sizing_wf, columns_sizing  # noqa: E402
from contracts.C09_columns import columns_rows, columns_wf, size_ok as col_size_ok  # noqa: E402
from urwid.widget.widget import WidgetError  # noqa: E402


@contract(GCS_KEY, property="C01", alias="fixed", inline=CINL, replayable=False, setup=_setup_child, deterministic=True, deterministic_outcome=True)
class columns_gcs_fixed:
    """get_column_sizes((), focus): the natural-size geometry -- the real body for `()`: the dispatch to
    _get_fixed_column_sizes.  (For sizes (maxcol,) / (maxcol, maxrow) the function is described by the ASSUMED contract
    contracts/C08_focus.py: col_gcs; its body for those sizes is not verified here.)"""

    self_shape = COLUMNS
    params = dict(size=Tup(), focus=Bool)
    result = GRS_RESULT
    raises = (ColumnsError,)
    invariant = staticmethod(pile_ri)
    deterministic_reads = ("_contents", "min_width")
    static_checks = [lambda: reads_only(GCS_KEY, {"contents", "focus_position", "column_widths", "_get_fixed_column_sizes"})]
    ensures_callee = staticmethod(_col_geometry_at_call_site)
    on_raise_callee = staticmethod(_col_raise_at_call_site)

    def requires(s, a):
        return col_fixed_wf(s)

    def ensures(old, s, a, result):
        g = cur().ghost["cf_geo"]
        yield from col_geometry_clauses(old, a.focus, result, g.mh, g.kh, child_index())
        yield "frame", both(s._contents._focus == old._contents._focus, n_items(s) == n_items(old))


ANYSIZE = Union(Tup(Int, Int), Tup(Int), Tup())


def col_natural(old, focus):
    """(geometry, ghost) of a Columns at its natural size: the value get_column_sizes(()) returns, where it returns."""
    G = columns_gcs_fixed.spec_value(old, size=(), focus=focus)
    return G, cur().ghost["cf_geo"]


@contract(CO + "Columns.pack", property="C01", inline=CINL + ("urwid/widget/widget.py:Widget.pack",), replayable=False, setup=_setup_child,
          call_real=sizing_call_real, contract_overrides={GCS_KEY: columns_gcs_fixed})
class columns_pack:
    """Box size: as given.  Flow size: (maxcol, own rows) for a Columns that reports FLOW, WidgetError otherwise.  No size:
    the natural size -- all column widths plus the dividers between the columns, as tall as the tallest column."""

    self_shape = COLUMNS
    params = dict(size=ANYSIZE, focus=Bool)
    result = Tup(Int, Int)
    raises = (WidgetError, ColumnsError)
    invariant = staticmethod(pile_ri)

    def requires(s, a):
        if len(a.size) == 1:
            return both(col_fixed_wf(s), col_sizing_wf(s), columns_rows.requires(s, a))  # (the flow case goes through Columns.rows: its precondition)
        return both(col_fixed_wf(s), *[both(0 <= d, d < DIMMAX) for d in a.size])

    def ensures(old, s, a, result):
        n = n_items(old)
        if len(a.size) == 2:
            yield "box-size-as-given", both(result[0] == a.size[0], result[1] == a.size[1])
        elif len(a.size) == 1:
            yield "flow-is-maxcol-and-own-rows", both(result[0] == a.size[0], result[1] == columns_rows.spec_value(old, size=a.size, focus=a.focus))
            yield "flow-only-for-a-flow-columns", _has(columns_sizing.spec_value(old), FLOW)
        else:
            G, g = col_natural(old, a.focus)
            pile_at(g.kh, *cur().ghost.get("extreme_witnesses", []))
            V.instantiate(g.kh)
            yield "fixed-width-is-all-columns-and-the-dividers-between-them", result[0] == psum_of(G[0], n) + old.dividechars * imax(n - 1, 0)
            yield "fixed-height-is-that-of-the-tallest-column", result[1] == g.mh
        yield "frame", both(s._contents._focus == old._contents._focus, n_items(s) == n)

    def on_raise(old, s, a, exc):
        if exc.cls is ColumnsError:
            yield "columns-error-only-for-the-natural-size", len(a.size) == 0
        else:
            yield "widget-error-only-for-a-flow-size-of-a-columns-that-does-not-report-flow", both(len(a.size) == 1, neg(_has(columns_sizing.spec_value(old), FLOW)))


# ===================================================================== Columns.get_column_sizes for (maxcol,) / (maxcol, maxrow)
#
# For these sizes every Columns contract of C08 / C09 / C01 uses the ASSUMED contract contracts/C08_focus.py: col_gcs (facts
# `_gcs_facts` about each entry).  Here the real body is verified against exactly those facts (second contract, alias
# `sized`): the two dicts keyed by the column index, the work lists `box` / `box_need_height` (ghost positions as above),
# `max(1, *heights.values())`, and the three result tuples.  The widths are Columns.column_widths' (contracts/C19_columns.py).
import copy as _copy  # noqa: E402

from contracts.C08_focus import _gcs_facts  # noqa: E402
from contracts.C19_columns import COLW, colw_wf, columns_column_widths  # noqa: E402

COLW_KEY = CO + "Columns.column_widths"
colw_as_callee = _copy.copy(columns_column_widths)
colw_as_callee.modifies = ("_cache_maxcol", "_cache_column_widths")  # (what the body writes; the contract was never used at a call site)


def _colw_ensures_at_call_site(old, s, a, result):
    """column_widths' verified postconditions without `cached-list-is-the-result` (an identity of Python objects that
    only makes sense inside the body)."""
    # (of the verified postconditions -- contracts/C19_columns.py: _post -- only what get_column_sizes needs: one width
    #  per kept column, none negative; the second as a fact to instantiate, not as a quantifier)
    rs = result.seq if hasattr(result, "seq") else result
    m = Q.seq_len(rs)
    yield "one-width-per-kept-column", m <= n_items(old)
    V.lazy_forall(0, m, lambda j: Q.seq_get(rs, j) >= 0)
    yield "cache-refreshed", neg(V.opt_isnone(s._cache_maxcol))


colw_as_callee.ensures_callee = _colw_ensures_at_call_site
GCS_SIZED_LOCALS = dict(heights=MapOf(Int, Int), w_h_args=MapOf(Int, CSIZE))


def _g0(v):
    st = cur()
    c, focus, size, i = v.self, v.focus, v.size, v.i_
    W = PROTOCOLS["Widget"]
    widths = v.widths
    m = imin(Q.seq_len(widths), n_items(c))
    Hm, Am = _mv(v.heights), _mv(v.w_h_args)
    box, need = _mv(v.box), _mv(v.box_need_height)
    A = arrs()
    if isinstance(i, int):
        A.setdefault("gBox", fresh_arr("gBox"))
        A.setdefault("gNeed", fresh_arr("gNeed"))
    elif st.ghost.get("inv_assuming"):
        A["gBox"], A["gNeed"] = fresh_arr("gBox"), fresh_arr("gNeed")
        st.ghost["gcs_head"] = View(dict(i=i, box_len=Q.seq_len(box), need_len=Q.seq_len(need), gBox=A["gBox"], gNeed=A["gNeed"]))
    else:
        h = st.ghost["gcs_head"]
        A["gBox"] = z3.If(V._zb(Q.seq_len(box) > h.box_len), z3.Store(h.gBox, V._z(h.i), V._z(h.box_len)), h.gBox)
        A["gNeed"] = z3.If(V._zb(Q.seq_len(need) > h.need_len), z3.Store(h.gNeed, V._z(h.i), V._z(h.need_len)), h.gNeed)
    gBox, gNeed = A["gBox"], A["gNeed"]

    def cls(x):
        w, (kind, _amt, is_box) = item_at(c, x)
        cb, cf = sizing_has(w, BOX), sizing_has(w, FLOW)
        as_box = both(len(size) == 2, cb)
        to_box = both(neg(as_box), is_box)
        as_flow = both(neg(as_box), neg(is_box), cf)
        as_pack = both(neg(as_box), neg(is_box), neg(cf), kind == "pack")
        to_need = both(neg(as_box), neg(is_box), neg(cf), neg(kind == "pack"))
        return w, as_box, to_box, as_flow, as_pack, to_need

    def per_col(x):
        w, as_box, to_box, as_flow, as_pack, to_need = cls(x)
        seen = both(0 <= x, x < i)
        wx = Q.seq_get(widths, x)
        foc = both(focus, x == c._contents._focus)
        now = either(as_box, as_flow, as_pack)
        hv = ite(as_box, size[1] if len(size) == 2 else 0, ite(wx > 0, ite(as_flow, W.call_quiet(st, w, "rows", dict(size=(wx,), focus=foc)), W.call_quiet(st, w, "pack", dict(size=(), focus=foc))[1]), 0))
        yield "heights-so-far", both(eq(Hm.has(x), both(seen, now)), implies(Hm.has(x), Hm.val(x) == hv))
        av = Am.val(x)
        a_is = either(both(as_box, V.struct_eq(av, (wx, size[1] if len(size) == 2 else 0))), both(as_flow, V.struct_eq(av, (wx,))), both(as_pack, V.struct_eq(av, ())))
        yield "size-arguments-so-far", both(eq(Am.has(x), both(seen, now)), implies(Am.has(x), a_is))
        pb, pn = sel(gBox, x), sel(gNeed, x)
        yield "box-columns-are-listed", implies(both(seen, to_box), both(0 <= pb, pb < Q.seq_len(box), _sget(box, pb, 0) == x))
        yield "columns-that-need-a-height-are-listed", implies(both(seen, to_need), both(0 <= pn, pn < Q.seq_len(need), _sget(need, pn, 0) == x))

    def per_box_pos(q):
        t = _sget(box, q, 0)
        yield "box-entries", implies(both(0 <= q, q < Q.seq_len(box)), both(0 <= t, t < i, cls(t)[2], sel(gBox, t) == q))

    def per_need_pos(q):
        t = _sget(need, q, 0)
        yield "need-entries", implies(both(0 <= q, q < Q.seq_len(need)), both(0 <= t, t < i, cls(t)[5], sel(gNeed, t) == q))

    S = dict(col=per_col, boxpos=per_box_pos, needpos=per_need_pos)
    if st.ghost.get("inv_assuming"):
        for name, fn in S.items():
            remember("G0:" + name, fn)
        st.ghost["gcs_cls"] = cls
    yield "no-more-entries-than-widths", i <= m
    for x in (arb("gx"), child_index()):
        yield from per_col(x)
    yield from per_box_pos(arb("gqb"))
    yield from per_need_pos(arb("gqn"))


def _g1(v):
    """The second loop (over box + box_need_height): k entries handled."""
    st = cur()
    c, focus, size, k = v.self, v.focus, v.size, v.i_
    widths = v.widths
    m = imin(Q.seq_len(widths), n_items(c))
    E = v.at_entry
    EH, EA = _mv(E.heights), _mv(E.w_h_args)
    Hm, Am = _mv(v.heights), _mv(v.w_h_args)
    box, need = _mv(v.box), _mv(v.box_need_height)
    A = arrs()
    gBox, gNeed = A["gBox"], A["gNeed"]
    mh = v.max_height
    cls = st.ghost["gcs_cls"]
    nb = Q.seq_len(box)
    for q in (k, k - 1):
        recall("G0:boxpos", q)
        recall("G0:needpos", q - nb)
    terms = [arb("gx"), child_index()]
    if st.ghost.get("inv_assuming"):
        for mm in (Hm, Am):
            terms.append(mm.card_range_axiom(0, m))
    for q in (k, k - 1):
        t = ite(q < nb, _sget(box, q, 0), _sget(need, q - nb, 0))
        terms.append(t)

    def per_col(x):
        w, as_box, to_box, as_flow, as_pack, to_need = cls(x)
        done = both(0 <= x, x < m, either(both(to_box, sel(gBox, x) < k), both(to_need, nb + sel(gNeed, x) < k)))
        yield _rel("heights-of-the-columns-handled", Hm, EH, x, done, lambda nv: nv == mh)
        yield _rel("size-arguments-of-the-columns-handled", Am, EA, x, done, lambda nv: V.struct_eq(nv, (Q.seq_get(widths, x), mh)))

    if st.ghost.get("inv_assuming"):
        remember("G1:col", per_col)
    for x in terms:
        recall("G0:col", x)
        yield from per_col(x)


@contract(GCS_KEY, property=("C01", "C09", "C19"), alias="sized", inline=CINL, replayable=False, local_maps=GCS_SIZED_LOCALS, setup=_setup_child,
          contract_overrides={COLW_KEY: colw_as_callee})
class columns_gcs_sized:
    """get_column_sizes((maxcol,) / (maxcol, maxrow), focus): the facts the assumed contract col_gcs states about each entry,
    proved of the real body (for an arbitrary entry `g_child`)."""

    self_shape = COLW
    params = dict(size=Union(Tup(Int), Tup(Int, Int)), focus=Bool)
    result = GRS_RESULT
    raises = ()
    invariant = staticmethod(pile_ri)

    def requires(s, a):
        return both(colw_wf(s), *[both(0 <= d, d < DIMMAX) for d in a.size], mk_bool(s._cache_maxcol.isnone))

    def ensures(old, s, a, result):
        st = cur()
        n = n_items(old)
        Wt, Ht, At = result
        m = Q.seq_len(Wt)
        j = child_index()
        recall("G0:col", j)
        recall("G1:col", j)
        yield "aligned-with-the-children", both(m <= n, Q.seq_len(Ht) == m, Q.seq_len(At) == m)
        inr = both(0 <= j, j < m)
        W = PROTOCOLS["Widget"]
        child = item_at(old, j)[0]
        foc = both(a.focus, old._contents._focus == j)
        if not st.branch(inr):
            return
        w_j, h_j, a_j = Q.seq_get(Wt, j), Q.seq_get(Ht, j), Q.seq_get(At, j)
        V.instantiate(j)  # (column_widths: no negative width, at j)
        aj = st.force(a_j)  # (the arity of the entry's size argument: a three-way case split)
        yield "non-negative", both(w_j >= 0, h_j >= 0)
        if len(aj) >= 1:
            yield "size-argument-carries-the-column-width", aj[0] == w_j
        if len(aj) == 2 and len(a.size) == 2:
            yield "box-children-get-the-box-height", aj[1] == a.size[1]
        drawn = W.call_quiet(st, child, "pack", dict(size=(), focus=foc))[1] if len(aj) == 0 else (W.call_quiet(st, child, "rows", dict(size=aj, focus=foc)) if len(aj) == 1 else aj[1])
        yield "height-is-what-the-child-renders-at-that-size", implies(w_j > 0, h_j == drawn)

    loops = {0: Loop(invariant=_g0, shapes=dict(box=ListOf(Int), box_need_height=ListOf(Int))), 1: Loop(invariant=_g1)}
