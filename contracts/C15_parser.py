"""C15 — terminal emulator: the byte-level parser of urwid/vterm.py:TermCanvas (UTF-8 assembly, escape state
machine, CSI parameter parsing and the dispatch through the real CSI_COMMANDS table) under the parser invariant
PI = grid invariant GI (contracts/C15_vterm.py) + parser state, with `raises = ()` for every byte in every state.

What the statement (properties.jsonl C15) demands here and where it is proved:
  * "never raises for any byte stream"          -> `raises = ()` of addstr / addbyte / process_char / parse_escape /
                                                    parse_csi / parse_noncsi / parse_osc and of everything they call;
  * "keeps a grid of height x width, cursor and scrolling region inside" -> PI is the class invariant of all of them;
  * "CSI sequences with any parameters incl. huge, zero, missing, out-of-range" -> parse_csi: the parameter list handed
    to the table's callback holds only ints >= 0, missing / empty / zero ones replaced by the command's default, at
    least as many as the command needs -- the callee preconditions (`call-pre@...`) are the callees' real ones;
  * "valid, truncated and invalid UTF-8"         -> addbyte: a lead byte always (re)starts a sequence, a non-continuation
    byte ends one, the last continuation byte hands the leniently decoded sequence on; counters stay in range.

Model: the escape buffer `escbuf` and every `char` are abstract bytes texts (pyvc/text.py); `utf8_buffer` is the
bytearray model of pyvc/textops.py; the target encoding (`util._target_encoding`) is an opaque individual.  The CSI
table is NOT abstracted: the interpreter reads the real `CSI_COMMANDS` dict of the real module and runs the AST of the
real lambda stored in the selected entry (pyvc/builtins_model.py real_lambda); grid operations called by the lambdas
are used through their contracts of C15_vterm.py."""
import ast
import inspect

import z3

from contracts import C15_vterm as G
from contracts.C15_vterm import CHARSET, CURSOR_FIELDS, GI, TERM, VT, frame, rows_of, same_value, tabstop_at
from pyvc import seqs as Q
from pyvc import values as V
from pyvc import source as SRC
from pyvc import textops as TO
from pyvc.api import *
from pyvc.api import PROTOCOLS, REGISTRY
from pyvc.engine import PyRaise, SExc
from pyvc.protocol import PMethod
from pyvc.seqs import DRef, LRef, SObj, SSeq
from pyvc.text import SConcat, SText, as_text, elem_eq, text_eq
from pyvc.values import SOpaque, SOpt, _zb, cur, mk_int
from urwid import vterm as _vt

BYTES = Text("bytes")
MODE_FLAGS = ("display_ctrl", "insert", "lfnl", "keys_decckm", "reverse_video", "constrain_scrolling", "autowrap", "visible_cursor", "bracketed_paste")
MODES2 = Obj(_vt.TermModes, {**{k: Bool for k in MODE_FLAGS}, "main_charset": Int(1, 2)})
PARSER_FIELDS = ("escbuf", "parsestate", "within_escape", "utf8_eat_bytes", "utf8_buffer")
PTERM = Obj(_vt.TermCanvas, {
    **TERM.fields, "modes": MODES2, "escbuf": BYTES, "parsestate": Int, "within_escape": Bool, "utf8_eat_bytes": Opt(Int),
    "utf8_buffer": Custom(lambda st, hint: TO.SByteArray(BYTES.fresh(st, hint)), "bytearray")})

# ---- the widget as seen from the canvas: respond (as in C15_vterm) plus beep / leds / set_title, all logged


class TermWidgetProtocol2(G.TermWidgetProtocol):
    """`respond(string)` as in C15_vterm; `beep()`, `leds(which)`, `set_title(title)`: calls into the Terminal widget
    that do not touch the canvas (Terminal.beep / leds emit a signal, set_title stores the title: ASSUMED not to
    re-enter the canvas and not to raise -- signal handlers are the application's own code); each call is logged."""

    methods = {"respond": PMethod(None, params=["string"]), "beep": PMethod(None), "leds": PMethod(None, params=["which"]), "set_title": PMethod(None, params=["title"])}

    def call(self, ip, st, recv, name, args, kwargs):
        if name == "respond":
            return super().call(ip, st, recv, name, args, kwargs)
        if name in ("beep", "leds", "set_title") and not kwargs and len(args) == len(self.methods[name].params):
            st.event("call", recv, name, dict(zip(self.methods[name].params, args)), None)
            return None
        raise Unsupported(f"Terminal.{name}")


PROTOCOLS["TermWidget"] = TermWidgetProtocol2()


def widget_calls(old, name):
    from pyvc.protocol import calls_on

    return [ev[3] for ev in calls_on(cur(), old.widget, name)]


# ---- invariants

ESC_BYTE, QMARK, SEMI = 0x1B, 0x3F, 0x3B


def is_digit(e):
    return both(e >= 0x30, e <= 0x39)


def csi_byte_ok(e, j):
    """Byte j of the CSI parameter buffer: a digit or ';', or the private-mode marker '?' in first position."""
    return either(is_digit(e), e == SEMI, both(j == 0, e == QMARK))


def tlen(t):
    return t.length if getattr(t, "is_text", False) else len(t)


def tget(t, j):
    return as_text(t).get(j)


def charset_ok(s):
    """The active charset slot is G0 or G1 (TermCharset._g has two entries) -- also in the saved copy."""
    sa = s.saved_attrs
    saved = True if is_none_const(sa) else either(opt_isnone(sa), both(0 <= val(sa)[1].active, val(sa)[1].active <= 1))
    return both(0 <= s.charset.active, s.charset.active <= 1, saved)


def is_none_const(x):
    return x is None


def utf8_ok(s):
    """UTF-8 assembly counters: no sequence pending, or between 0 and 7 continuation bytes still expected and a
    buffer holding the 1..8 bytes seen so far (never more than 8 in total)."""
    e = s.utf8_eat_bytes
    if e is None:
        return True
    n = s.utf8_buffer.text.length if not isinstance(s.utf8_buffer.text, bytes) else len(s.utf8_buffer.text)
    if not isinstance(e, SOpt):
        return both(0 <= e, e <= 7, 1 <= n, n + e <= 8)
    return either(opt_isnone(e), both(0 <= val(e), val(e) <= 7, 1 <= n, n + val(e) <= 8))


def BI(s):
    """Base invariant: the grid invariant, charset slots and UTF-8 counters (everything but the escape machine)."""
    return both(GI(s), charset_ok(s), utf8_ok(s))


def esc_ok(s):
    """The escape state machine: parsestate is 0 (ground), 1 (CSI parameters), 2 (OSC string) or 3 (two-character
    sequence); in ground state the buffer is empty; CSI parameters are digits and ';' after an optional leading '?';
    state 3 holds exactly the intermediate character."""
    p, t = s.parsestate, s.escbuf
    n = tlen(t)
    inter = either(False, *[tget(t, 0) == c for c in b"%#()"]) if not (isinstance(n, int) and n == 0) else False
    return both(0 <= p, p <= 3, implies(p == 0, n == 0),
                implies(p == 1, forall(0, n, lambda j: csi_byte_ok(tget(t, j), j))),
                implies(p == 3, both(n == 1, inter)))


def PI(s):
    return both(BI(s), esc_ok(s))


def bytes_same(a, b):
    """Two bytes values (texts / constants / bytearray models) have the same content."""
    a = a.text if isinstance(a, TO.SByteArray) else a
    b = b.text if isinstance(b, TO.SByteArray) else b
    if a is b:
        return True
    return text_eq(as_text(a), as_text(b)) if (getattr(a, "is_text", False) or getattr(b, "is_text", False)) else a == b


def psame(k, a, b):
    if k in ("escbuf", "utf8_buffer"):
        return bytes_same(a, b)
    return opt_eq(a, b)


def pframe(old, s, *modified):
    """Every field of the canvas -- grid side (C15_vterm.frame) and parser side -- outside `modified` is unchanged."""
    return both(frame(old, s, *modified), *[psame(k, s.fields[k], old.fields[k]) for k in PARSER_FIELDS if k not in modified])


def parser_untouched(old, s):
    return both(*[psame(k, s.fields[k], old.fields[k]) for k in PARSER_FIELDS])


# ---- static obligations about the real source, re-checked on every run


def _vterm_mod():
    return SRC.module("urwid/vterm.py")


def parser_state_writers():
    """The grid contracts of C15_vterm.py are verified over TERM, which has no parser fields: that they leave the
    parser state alone is this syntactic fact -- in class TermCanvas only the functions listed here assign a parser
    field (attribute store, augmented assignment or a mutating method call on it)."""
    want = {"__init__": None, "reset": None, "leave_escape": None, "parse_escape": None, "process_char": None, "addbyte": None}
    cls = SRC.find_class(_vterm_mod(), "TermCanvas")
    got = {}
    for fn in cls.body:
        if not isinstance(fn, ast.FunctionDef):
            continue
        for n in ast.walk(fn):
            tgts = []
            if isinstance(n, ast.Assign):
                tgts = n.targets
            elif isinstance(n, (ast.AugAssign, ast.AnnAssign)):
                tgts = [n.target]
            elif isinstance(n, ast.Call) and isinstance(n.func, ast.Attribute) and n.func.attr in ("append", "extend", "clear", "pop", "insert", "remove"):
                tgts = [n.func.value]
            for t in tgts:
                for x in ast.walk(t):
                    if isinstance(x, ast.Attribute) and isinstance(x.value, ast.Name) and x.value.id == "self" and x.attr in PARSER_FIELDS:
                        got.setdefault(fn.name, set()).add(x.attr)
    ok = set(got) <= set(want)
    # ... and the same for the mode flags (C15_vterm's MODES has only the flags the grid operations read): only these
    # functions assign `self.modes.<flag>` or call `self.modes.reset()`
    mode_writers = set()
    for fn in cls.body:
        if not isinstance(fn, ast.FunctionDef):
            continue
        for n in ast.walk(fn):
            tgts = n.targets if isinstance(n, ast.Assign) else [n.target] if isinstance(n, (ast.AugAssign, ast.AnnAssign)) else []
            for t in tgts:
                if isinstance(t, ast.Attribute) and isinstance(t.value, ast.Attribute) and t.value.attr == "modes":
                    mode_writers.add(fn.name)
            if isinstance(n, ast.Call) and isinstance(n.func, ast.Attribute) and isinstance(n.func.value, ast.Attribute) and n.func.value.attr == "modes":
                mode_writers.add(fn.name)
    ok = ok and mode_writers <= {"set_mode", "parse_noncsi", "sgi_to_attrspec", "csi_set_attr", "reset"}
    return "only-the-parser-functions-write-parser-state", ok, f"writers: { {k: sorted(v) for k, v in got.items()} }; mode writers: {sorted(mode_writers)}"


def textops_xcheck():
    ok, detail = TO.xcheck_textops()
    return "text-operation-models-agree-with-cpython", ok, detail


def real_lambdas_xcheck():
    """builtins_model.real_lambda: every callback of the real CSI_COMMANDS table maps to exactly one ast.Lambda, and
    compiling that node gives the same code as the real function object (CPython cross-check of the mapping)."""
    from pyvc.builtins_model import real_lambda
    from pyvc.engine import Config, Explorer, State
    from pyvc.interp import Interp

    class _T:
        name = "xcheck"
        c = None

    ip = Interp(_T())
    st = State(Explorer(Config()), [])
    bad, n = [], 0
    for key, entry in _vt.CSI_COMMANDS.items():
        if not isinstance(entry, _vt.CSICommand):
            continue
        n += 1
        fv = real_lambda(ip, st, entry.callback)
        if fv is None:
            bad.append((key, "not resolved"))
            continue
        lam = fv.ref.node.body[0].value
        src = ast.unparse(ast.Lambda(args=fv.ref.node.args, body=lam))
        code = compile(ast.Expression(ast.parse(src, mode="eval").body), "<x>", "eval")
        mine = next(c for c in code.co_consts if inspect.iscode(c))
        real = entry.callback.__code__
        if (mine.co_code, mine.co_names, mine.co_varnames, mine.co_consts) != (real.co_code, real.co_names, real.co_varnames, real.co_consts):
            bad.append((key, "code differs"))
    return "real-lambdas-map-to-their-ast", not bad and n >= 20, f"{n} callbacks of CSI_COMMANDS resolved; mismatches: {bad}"


# =================================================================================================
# TermModes / TermCharset


@contract(VT + "TermModes.reset", property="C15")
class modes_reset:
    self_shape = MODES2
    params = dict()
    modifies = tuple(k for k in MODES2.fields if k != "bracketed_paste")
    replayable = False

    def ensures(old, s, a, result):
        yield "ecma-48-modes-off", both(neg(s.display_ctrl), neg(s.insert), neg(s.lfnl))
        yield "dec-private-modes-at-their-defaults", both(neg(s.keys_decckm), neg(s.reverse_video), neg(s.constrain_scrolling), s.autowrap, s.visible_cursor)
        yield "default-character-set", s.main_charset == 1
        yield "bracketed-paste-kept", s.bracketed_paste == old.bracketed_paste


CS_NAMES = ("default", "vt100", "ibmpc", "user")
CHARSET_REAL = Obj(_vt.TermCharset, dict(_g=ListOf(Atom(*CS_NAMES), min_len=2, max_len=2), _sgr_mapping=Bool, active=Int, current=Atom(None, "0", "U")))


def _charset_missing(ip, st, obj, name):
    if name == "MAPPING" and obj.cls is _vt.TermCharset:
        return DRef(dict(_vt.TermCharset.MAPPING))  # the real class attribute (a dict of constants, read only)
    return NotImplemented


def active_ok(s):
    return both(0 <= s.active, s.active <= 1)


def mapped(name):
    """TermCharset.MAPPING[name] as a term (None / "0" / "U")."""
    r = None
    for k, v in _vt.TermCharset.MAPPING.items():
        if v is not None:
            r = ite_atom(name == k, v, r)
    return r


def ite_atom(c, a, b):
    dom = (None, "0", "U")
    from pyvc.values import SAtom, atom_code

    def code(x):
        return x.e if isinstance(x, SAtom) else z3.IntVal(atom_code(x))

    if c is True:
        return a
    if c is False:
        return b
    return SAtom(z3.If(_zb(c), code(a), code(b)), dom)


def g_at(s, g):
    return Q.seq_get(rows_of(s._g), g)


def _cs_contracts(name, params, modifies, abstract_ensures, real_ensures, requires=None, inv=True, constructs=False):
    """A TermCharset method twice: the caller-facing contract over the abstract CHARSET of C15_vterm (opaque table
    and names; ASSUMED there -- it is the abstraction of the second one) and the `#real-fields` contract over the
    concrete fields (a list of two charset names, the MAPPING table), verified against the body.  Both have the same
    requires / raises / class invariant, and the abstract clauses are among the verified ones."""
    key = VT + "TermCharset." + name
    common = dict(params=params, modifies=modifies, replayable=False, raises=())
    if requires is not None:
        common["requires"] = requires
    if inv:
        common["invariant"] = active_ok

    real = dict(common, self_shape=CHARSET_REAL, missing_field=_charset_missing, alias="real-fields")

    def ens_real(old, s, a, result):
        yield from abstract_ensures(old, s, a, result)
        yield from real_ensures(old, s, a, result)

    real["ensures"] = ens_real
    if constructs:
        real["establishes_invariant"] = True
    contract(key, property="C15", **real)(type(f"charset_{name}_real", (), {}))
    ab = dict(common, self_shape=CHARSET, ensures=abstract_ensures, assumed=True,
              notes=f"caller-facing abstraction (opaque charset table) of TermCharset.{name}; every clause, the precondition and `raises=()` are proved "
                    f"against the real body by the task `{key}#real-fields` of this file")
    if constructs:
        ab["constructs"] = CHARSET
        ab["self_shape"] = None
        ab["requires"] = lambda a: True
        ab["ensures"] = lambda old, s, a, result: abstract_ensures(old, s, a, result)
    contract(key, property="C15", **ab)(type(f"charset_{name}", (), {}))


def _g_in(s, a):
    return both(0 <= a.g, a.g <= 1)


def _activate_abs(old, s, a, result):
    yield "slot-activated", s.active == a.g
    yield "other-fields-kept", s._sgr_mapping == old._sgr_mapping


def _activate_real(old, s, a, result):
    yield "current-is-the-mapping-of-the-active-slot", eq(s.current, mapped(g_at(old, a.g)))
    yield "table-kept", both(eq(g_at(s, 0), g_at(old, 0)), eq(g_at(s, 1), g_at(old, 1)))


_cs_contracts("activate", dict(g=Int), ("active", "current"), _activate_abs, _activate_real, requires=_g_in)


def _define_abs(old, s, a, result):
    yield "active-slot-kept", both(s.active == old.active, s._sgr_mapping == old._sgr_mapping)


def _define_real(old, s, a, result):
    yield "slot-redefined", both(eq(g_at(s, a.g), a.charset), eq(g_at(s, 1 - a.g), g_at(old, 1 - a.g)))
    yield "current-follows-the-active-slot", eq(s.current, mapped(g_at(s, old.active)))


_cs_contracts("define", dict(g=Int, charset=Atom(*CS_NAMES)), ("_g", "current"), _define_abs, _define_real, requires=_g_in)


def _set_sgr_abs(old, s, a, result):
    yield "sgr-mapping-on", s._sgr_mapping == True  # noqa: E712
    yield "active-slot-kept", s.active == old.active


_cs_contracts("set_sgr_ibmpc", dict(), ("_sgr_mapping",), _set_sgr_abs, lambda old, s, a, result: ())


def _reset_sgr_abs(old, s, a, result):
    yield "sgr-mapping-off", s._sgr_mapping == False  # noqa: E712
    yield "active-slot-kept", s.active == old.active


def _reset_sgr_real(old, s, a, result):
    yield "current-is-the-mapping-of-the-active-slot", eq(s.current, mapped(g_at(old, old.active)))


_cs_contracts("reset_sgr_ibmpc", dict(), ("_sgr_mapping", "current"), _reset_sgr_abs, _reset_sgr_real)


def _init_abs(old, s, a, result):
    yield "g0-active", s.active == 0
    yield "no-sgr-mapping", s._sgr_mapping == False  # noqa: E712


def _init_real(old, s, a, result):
    yield "g0-default-g1-vt100", both(eq(g_at(s, 0), "default"), eq(g_at(s, 1), "vt100"), Q.seq_len(rows_of(s._g)) == 2)
    yield "no-translation", eq(s.current, None)


_cs_contracts("__init__", dict(), ("_g", "_sgr_mapping", "active", "current"), _init_abs, _init_real, constructs=True)
# inside the real-fields tasks the callees are the real-fields contracts too
_CS_REAL = {k[: -len("#real-fields")]: c for k, c in REGISTRY.items() if k.startswith(VT + "TermCharset.") and k.endswith("#real-fields")}
for _c in _CS_REAL.values():
    _c.contract_overrides = _CS_REAL


# =================================================================================================
# small state operations of the canvas


def _nlen(x):
    return Q.seq_len(rows_of(x))


def bit_binop(ip, st, op, a, b):
    """Contract-file hook (Interp.binop) for the three bit idioms of the tab-stop table, exact for ALL Python ints:
        c << m   with a constant c >= 0 and a shift provably within 0..7: a fork over the eight shifts;
        x & m    with a constant m < 0:   x - (x & ~m)   (~m >= 0: the engine's constant-mask formula applies);
        x | c    with a constant c >= 0:  x + c - (x & c).
    Cross-checked against CPython by the static check `bit-idioms-agree-with-cpython`."""
    from pyvc.interp import and_mask_formula
    from pyvc.values import SInt

    t = type(op)
    if t is ast.LShift and isinstance(a, int) and not isinstance(a, bool) and a >= 0 and isinstance(b, SInt):
        r, _m = st._check(z3.Not(z3.And(b.e >= 0, b.e <= 7)), st.cfg.branch_timeout_ms)
        if r != z3.unsat:
            return NotImplemented
        return a << st.choose([b == j for j in range(8)])
    if t is ast.BitAnd:
        for x, m in ((a, b), (b, a)):
            if isinstance(x, SInt) and isinstance(m, int) and not isinstance(m, bool) and m < 0:
                return x - and_mask_formula(x, ~m)
    if t is ast.BitOr:
        for x, c in ((a, b), (b, a)):
            if isinstance(x, SInt) and isinstance(c, int) and not isinstance(c, bool) and c >= 0:
                return x + c - and_mask_formula(x, c)
    return NotImplemented


def bit_idioms_xcheck():
    from pyvc.interp import and_mask_formula

    bad = []
    for x in list(range(-70, 300)) + [2**40 + 5, -(2**33) - 1]:
        for k in range(8):
            c = 1 << k
            if x & ~c != x - and_mask_formula(x, c):
                bad.append(("and-not", x, k))
            if x | c != x + c - and_mask_formula(x, c):
                bad.append(("or", x, k))
        for c in (0, 3, 0x55, 0xFF, 1000):
            if x | c != x + c - and_mask_formula(x, c) or x & ~c != x - and_mask_formula(x, c):
                bad.append(("mask", x, c))
    return "bit-idioms-agree-with-cpython", not bad, f"{len(bad)} mismatches {bad[:3]}"


def tab_byte(s, j):
    return Q.seq_get(rows_of(s.tabstops), j)


@contract(VT + "TermCanvas.set_tabstop", property="C15")
class set_tabstop:
    self_shape = PTERM
    params = dict(x=Opt(Int), remove=Bool, clear=Bool)
    modifies = ("tabstops",)
    invariant = staticmethod(PI)
    replayable = False
    independent_posts = True
    binop = bit_binop
    static_checks = [bit_idioms_xcheck]
    loops = {0: Loop(modifies=("self.tabstops",), invariant=lambda v: both(
        _nlen(v.self.tabstops) == _nlen(v.old.self.tabstops),
        forall(0, _nlen(v.self.tabstops), lambda j: tab_byte(v.self, j) == ite(j < v.i_, 0, tab_byte(v.old.self, j)))))}

    def requires(s, a):
        return True if a.x is None else either(opt_isnone(a.x), both(0 <= val(a.x), val(a.x) < s.width))

    def ensures(old, s, a, result):
        n0 = _nlen(old.tabstops)
        yield "keeps-the-parser-invariant", PI(s)
        yield "table-length-kept", _nlen(s.tabstops) == n0
        yield "tab-stop-bytes-stay-bytes", forall(0, n0, lambda j: both(0 <= tab_byte(s, j), tab_byte(s, j) <= 255))
        yield "frame", pframe(old, s, "tabstops")
        if a.clear:
            yield "no-tab-stop-left", forall(0, old.width, lambda k: neg(tabstop_at(s, k)))
            return
        col = old.term_cursor[0] if is_none(a.x) else val(a.x)
        yield "the-stop-of-the-column-is-set-or-removed", tabstop_at(s, col) == neg(a.remove)
        yield "other-columns-keep-their-stops", forall(0, old.width, lambda k: implies(k != col, tabstop_at(s, k) == tabstop_at(old, k)))


@contract(VT + "TermCanvas.csi_clear_tabstop", property="C15")
class csi_clear_tabstop:
    self_shape = PTERM
    params = dict(mode=Opt(Int))
    modifies = ("tabstops",)
    invariant = staticmethod(PI)
    replayable = False
    independent_posts = True

    def ensures(old, s, a, result):
        yield "keeps-the-parser-invariant", PI(s)
        yield "frame", pframe(old, s, "tabstops")
        col = old.term_cursor[0]
        m = a.mode
        if not is_none(m) and val(m) == 0:
            yield "mode-0-removes-the-stop-at-the-cursor", both(neg(tabstop_at(s, col)), forall(0, old.width, lambda k: implies(k != col, tabstop_at(s, k) == tabstop_at(old, k))))
        elif not is_none(m) and val(m) == 3:
            yield "mode-3-removes-all-stops", forall(0, old.width, lambda k: neg(tabstop_at(s, k)))
        else:
            yield "other-modes-are-ignored", same_value("tabstops", s.tabstops, old.tabstops)


@contract(VT + "TermCanvas.leave_escape", property="C15")
class leave_escape:
    self_shape = PTERM
    params = dict()
    modifies = ("within_escape", "parsestate", "escbuf")
    # called by parse_escape while the escape machine is between states: needs (and keeps) only the base invariant,
    # and ESTABLISHES the escape-machine part
    invariant = staticmethod(BI)
    replayable = False

    def ensures(old, s, a, result):
        yield "escape-machine-back-in-ground-state", both(neg(s.within_escape), s.parsestate == 0, tlen(s.escbuf) == 0)
        yield "establishes-the-parser-invariant", PI(s)
        yield "frame", pframe(old, s, "within_escape", "parsestate", "escbuf")


# ---- calls into the widget (replies, bell, LEDs, title): verified against the body as "exactly these calls", and
# ---- replayed into the caller's ghost trace when the contract is used at a call site


def log_widget_calls(old, calls):
    for name, args in calls:
        cur().event("call", old.widget, name, dict(args), None)


def arg_same(x, y):
    if x is y:
        return True
    if isinstance(x, V.SFmt) or isinstance(y, V.SFmt):
        return both(isinstance(x, V.SFmt), isinstance(y, V.SFmt), len(getattr(x, "parts", ())) == len(getattr(y, "parts", ())),
                    *[eq(p, q) for p, q in zip(getattr(x, "parts", ()), getattr(y, "parts", ()))])
    if getattr(x, "is_text", False) or getattr(y, "is_text", False):
        return False  # texts handed to the widget are compared by identity only
    return eq(x, y)


def widget_calls_are(old, expected):
    """The calls made on the widget during this call are exactly `expected` = [(method, {param: value}), ...]."""
    from pyvc.protocol import calls_on

    got = [(ev[2], ev[3]) for ev in calls_on(cur(), old.widget)]
    if len(got) != len(expected):
        return False
    r = True
    for (gn, ga), (en, ea) in zip(got, expected):
        r = both(r, gn == en, set(ga) == set(ea), *[arg_same(ga[k], ea[k]) for k in ea if k in ga])
    return r


def with_calls(cls):
    """Class decorator (below @contract): `calls(old, a) -> [(method, args)]` are the calls into the widget.  Body
    side: clause `widget-calls`; callee side: the calls are appended to the caller's ghost trace (effects) and the
    clause is left out (`ensures_callee`: a callee contract is evaluated over an empty local trace)."""
    calls, inner, eff = cls.calls, cls.ensures, cls.__dict__.get("effects")

    def ensures(old, s, a, result):
        yield from inner(old, s, a, result)
        yield "widget-calls-are-exactly-the-expected-ones", widget_calls_are(old, calls(old, a))

    def effects(old, s, a, result):
        if eff is not None:
            eff(old, s, a, result)
        log_widget_calls(old, calls(old, a))

    cls.ensures, cls.ensures_callee, cls.effects = ensures, cls.__dict__.get("ensures_callee") or inner, effects
    return cls


def model_clauses(label, old, s, m, mods):
    """The fields in `mods` hold the values of the reference model state `m` (C15_vterm M_xxx), all else unchanged."""
    for k in mods:
        yield f"{label}/{k}-is-the-model-value", same_value(k, s.fields[k], getattr(m, k))
    yield f"{label}/frame", pframe(old, s, *mods)


def optint(m):
    """(is an int, its value) of an Optional[int] argument, without forking."""
    if m is None:
        return False, 0
    if isinstance(m, SOpt):
        return neg(opt_isnone(m)), val(m)
    return True, m


def mode_is(m, k):
    ok, v = optint(m)
    return both(ok, v == k)


# the reply contract of C15_vterm, callee side: csi_status_report's verified clauses pin the calls on the widget exactly
# (mode 5: one respond("\x1b[0n"); mode 6: one respond of the five parts ESC[ row ; col R; otherwise none), but as a
# postcondition over the ghost trace, which is empty when a callee contract is evaluated.  This is the same contract
# with those calls as effects on the caller's trace.


def status_reply(old, mode):
    x, y = old.term_cursor
    if mode_is(mode, 5):
        return [("respond", {"string": "\x1b[0n"})]
    if mode_is(mode, 6):
        return [("respond", {"string": V.SFmt(["\x1b[", y + 1, ";", x + 1, "R"])})]
    return []


class _StatusReportCallee(type(G.csi_status_report)):
    ensures_callee = staticmethod(lambda old, s, a, result: ())
    effects = staticmethod(lambda old, s, a, result: log_widget_calls(old, status_reply(old, a.mode)))


STATUS_CALLEE = _StatusReportCallee()
STATUS_CALLEE.target, STATUS_CALLEE.property = G.csi_status_report.target, "C15"


@contract(VT + "TermCanvas.csi_get_device_attributes", property="C15")
@with_calls
class csi_get_device_attributes:
    self_shape = PTERM
    params = dict(qmark=Bool)
    invariant = staticmethod(PI)
    replayable = False

    def calls(old, a):
        return [] if a.qmark else [("respond", {"string": "\x1b[?6c"})]

    def ensures(old, s, a, result):
        yield "keeps-the-parser-invariant", PI(s)
        yield "frame", pframe(old, s)


LED_NAMES = {0: "clear", 1: "scroll_lock", 2: "num_lock", 3: "caps_lock"}


@contract(VT + "TermCanvas.csi_set_keyboard_leds", property="C15")
@with_calls
class csi_set_keyboard_leds:
    self_shape = PTERM
    params = dict(mode=Opt(Int))
    invariant = staticmethod(PI)
    replayable = False

    def calls(old, a):
        for k, name in LED_NAMES.items():
            if mode_is(a.mode, k):
                return [("leds", {"which": name})]
        return []

    def ensures(old, s, a, result):
        yield "keeps-the-parser-invariant", PI(s)
        yield "frame", pframe(old, s)


def M_erase_line(old, mode):
    """EL: 0 = cursor to end of line, 1 = start of line to cursor, 2 = the whole line; other values: nothing."""
    x, y = old.term_cursor
    if mode_is(mode, 0):
        return G.M_erase(old, (x, y), (old.width - 1, y))
    if mode_is(mode, 1):
        return G.M_erase(old, (0, y), (x, y))
    if mode_is(mode, 2):
        return G.M_blank_line(old, y)
    return old


def M_erase_display(old, mode):
    """ED: 0 = cursor to end of screen, 1 = start of screen to cursor, 2 = everything (cursor stays); else nothing."""
    x, y = old.term_cursor
    if mode_is(mode, 0):
        return G.M_erase(old, (x, y), (old.width - 1, old.height - 1))
    if mode_is(mode, 1):
        return G.M_erase(old, (0, 0), (x, y))
    if mode_is(mode, 2):
        return G.M_clear(old, (x, y))
    return old


@contract(VT + "TermCanvas.csi_erase_line", property="C15")
class csi_erase_line:
    self_shape = PTERM
    params = dict(mode=Opt(Int))
    modifies = ("term",)
    invariant = staticmethod(PI)
    replayable = False
    independent_posts = True

    def ensures(old, s, a, result):
        yield "keeps-the-parser-invariant", PI(s)
        yield from model_clauses("erase-in-line", old, s, M_erase_line(old, a.mode), ("term",))
        x, y = old.term_cursor
        w = old.width
        lo = 0 if either(mode_is(a.mode, 1), mode_is(a.mode, 2)) else x
        hi = w if either(mode_is(a.mode, 0), mode_is(a.mode, 2)) else x + 1
        known = either(mode_is(a.mode, 0), mode_is(a.mode, 1), mode_is(a.mode, 2))
        if not known:
            lo, hi = 0, 0
        # (the readable clauses are for a terminal outside origin mode, DECOM: there erase() pulls both ends of the
        #  range into the scrolling region, see the note on csi_erase_display; the model clauses cover both cases)
        if not old.modes.constrain_scrolling:
            yield "the-erased-part-of-the-line-is-blank", forall(lo, hi, lambda c: G.cell_eq(G.cell(s.term, y, c), G.blank(old)))
            yield "the-rest-of-the-line-is-kept", forall(0, w, lambda c: implies(neg(both(lo <= c, c < hi)), G.cell_eq(G.cell(s.term, y, c), G.cell(old.term, y, c))))
            yield "other-lines-unchanged", both(G.rows_same(old, s, 0, y), G.rows_same(old, s, y + 1, old.height))

    def effects(old, s, a, result):
        s.fields["term"] = G.materialize("term", old.fields["term"], M_erase_line(old, a.mode).term)

    ensures_callee = staticmethod(lambda old, s, a, result: ())


@contract(VT + "TermCanvas.csi_erase_display", property="C15")
class csi_erase_display:
    self_shape = PTERM
    params = dict(mode=Opt(Int))
    modifies = ("term", *CURSOR_FIELDS)
    invariant = staticmethod(PI)
    replayable = False
    independent_posts = True

    def ensures(old, s, a, result):
        yield "keeps-the-parser-invariant", PI(s)
        m = M_erase_display(old, a.mode)
        yield from model_clauses("erase-in-display", old, s, m, ("term", *CURSOR_FIELDS))
        x, y = old.term_cursor
        if mode_is(a.mode, 2):
            yield "mode-2-blanks-every-cell", forall(0, old.height, lambda r: G.blank_row(s.term, r, old, old.width))
        # OBSERVATION (not a clause: origin mode is outside the statement's faithfulness subset): in origin mode
        # (CSI ?6h) with a scrolling region, erase() constrains both ends of the range into the region, so ED 0 stops
        # at the bottom margin and ED 1 starts at the top margin -- a VT100 erases to the end / from the start of the
        # SCREEN whatever the margins.  TermCanvas(4, 3): CSI 1;2r CSI ?6h CSI J leaves row 2 untouched.
        if not old.modes.constrain_scrolling:
            yield "cursor-not-moved", G.cursor_is(s, (x, y))
            if mode_is(a.mode, 0):
                yield "mode-0-lines-above-kept-lines-below-blank", both(G.rows_same(old, s, 0, y), forall(y + 1, old.height, lambda r: G.blank_row(s.term, r, old, old.width)))
            if mode_is(a.mode, 1):
                yield "mode-1-lines-above-blank-lines-below-kept", both(G.rows_same(old, s, y + 1, old.height), forall(0, y, lambda r: G.blank_row(s.term, r, old, old.width)))

    def effects(old, s, a, result):
        m = M_erase_display(old, a.mode)
        for k in ("term", *CURSOR_FIELDS):
            s.fields[k] = G.materialize(k, old.fields[k], getattr(m, k))

    ensures_callee = staticmethod(lambda old, s, a, result: ())


# ---- placeholders for the SGR functions that contracts/C15_sgr.py (branch agent/vtsgr) puts under contract.
# DROP-AT-MERGE: both are replaced by the verified contracts of that file (same interface, agreed with its author).

for _key, _params, _mods in ((VT + "TermCanvas.csi_set_attr", dict(attrs=ListOf(Int)), ("attrspec",)), (VT + "TermCanvas.reverse_video", dict(undo=Bool), ("term",))):
    if _key not in REGISTRY:
        def _sgr_requires(s, a, _k=_key):
            if _k.endswith("csi_set_attr"):
                n = Q.seq_len(a.attrs)
                return both(n >= 1, forall(0, n, lambda j: Q.seq_get(a.attrs, j) >= 0), 0 <= s.charset.active, s.charset.active <= 1)
            return True

        def _sgr_ensures(old, s, a, result):
            yield "keeps-the-grid-invariant", GI(s)

        contract(_key, property="C15", assumed=True, self_shape=PTERM, params=_params, modifies=_mods, invariant=GI, requires=_sgr_requires, ensures=_sgr_ensures, replayable=False,
                 notes="DROP-AT-MERGE placeholder for the contract of contracts/C15_sgr.py (agent/vtsgr): never raises, keeps GI, modifies only "
                       + ", ".join(_mods) + " (csi_set_attr additionally charset._sgr_mapping/current and modes.display_ctrl in place; charset.active kept)")(type("sgr_placeholder", (), {}))


def beq(t, const):
    """A bytes value equals a bytes constant (formula)."""
    return text_eq(as_text(t), const) if getattr(t, "is_text", False) else t == const


def new_events(old_obj, obj, name):
    return [e for e in obj.trace[len(old_obj.trace):] if e[0] == name]


for _n in ("define", "activate"):
    REGISTRY[VT + "TermCharset." + _n].log_event = _n  # ghost: the charset object remembers which slot was defined / activated


@contract(VT + "TermCanvas.set_g01", property="C15")
class set_g01:
    self_shape = PTERM
    params = dict(char=BYTES, mod=BYTES)
    modifies = ("charset",)
    invariant = staticmethod(PI)
    replayable = False

    def ensures(old, s, a, result):
        yield "keeps-the-parser-invariant", PI(s)
        evs = new_events(old.charset, s.charset, "define")
        if old.modes.main_charset != 1:
            yield "ignored-when-the-main-charset-is-utf8", both(len(evs) == 0, pframe(old, s))
            return
        yield "exactly-one-slot-is-defined", len(evs) == 1
        if len(evs) == 1:
            g, name = evs[0][1], evs[0][2]
            yield "G0-for-(-else-G1", (g == 0) == beq(a.mod, b"(")
            c0, cu, ck = beq(a.char, b"0"), beq(a.char, b"U"), beq(a.char, b"K")
            yield "charset-by-final-character", both(implies(c0, name == "vt100"), implies(cu, name == "ibmpc"), implies(ck, name == "user"), implies(neg(either(c0, cu, ck)), name == "default"))
        yield "active-slot-and-sgr-mapping-kept", both(s.charset.active == old.charset.active, s.charset._sgr_mapping == old.charset._sgr_mapping)
        yield "frame", pframe(old, s, "charset")

    def ensures_callee(old, s, a, result):
        # what a caller may assume: the clauses that do not speak about the `define` EVENTS of the body (a call site does
        # not replay them: assuming "exactly one slot is defined" there was assuming False and silently ended every
        # caller path on which the main charset is not UTF-8 -- found by the reach@after / DEAD vacuity aids)
        yield "keeps-the-parser-invariant", PI(s)
        yield "active-slot-and-sgr-mapping-kept", both(s.charset.active == old.charset.active, s.charset._sgr_mapping == old.charset._sgr_mapping)
        yield "frame", pframe(old, s, "charset")


# ---- modes

DEC_MODES = {1: "keys_decckm", 5: "reverse_video", 6: "constrain_scrolling", 7: "autowrap", 25: "visible_cursor", 2004: "bracketed_paste"}
ECMA_MODES = {3: "display_ctrl", 4: "insert", 20: "lfnl"}


def addresses(mode, qmark, field):
    """CSI [?] mode h/l addresses the mode flag `field`."""
    r = False
    for table, q in ((DEC_MODES, qmark), (ECMA_MODES, neg(qmark))):
        for k, f in table.items():
            if f == field:
                r = either(r, both(q, mode_is(mode, k)))
    return r


@contract(VT + "TermCanvas.set_mode", property="C15")
class set_mode:
    self_shape = PTERM
    params = dict(mode=Opt(Int), flag=Bool, qmark=Bool, reset=Bool)
    modifies = ("modes", "term", *CURSOR_FIELDS)
    invariant = staticmethod(PI)
    replayable = False
    independent_posts = True

    def ensures(old, s, a, result):
        yield "keeps-the-parser-invariant", PI(s)
        yield "frame", pframe(old, s, "modes", "term", *CURSOR_FIELDS)
        yield "the-addressed-mode-takes-the-flag", both(*[implies(addresses(a.mode, a.qmark, f), s.modes.fields[f] == a.flag) for f in MODE_FLAGS])
        yield "every-other-mode-is-kept", both(s.modes.main_charset == old.modes.main_charset, *[implies(neg(addresses(a.mode, a.qmark, f)), s.modes.fields[f] == old.modes.fields[f]) for f in MODE_FLAGS])
        dec = lambda k: both(a.qmark, mode_is(a.mode, k))  # noqa: E731
        if dec(3):
            m = G.M_clear(old, None)
            yield "DECCOLM-clears-the-screen-and-homes-the-cursor", both(*[same_value(k, s.fields[k], getattr(m, k)) for k in ("term", *CURSOR_FIELDS)])
        elif dec(6):
            m = G.M_set_cursor(G.upd(old, modes=G.upd(old.modes, constrain_scrolling=a.flag)), 0, 0)
            yield "DECOM-homes-the-cursor-in-the-new-origin", both(G.cursor_is(s, m.term_cursor), opt_eq(s.cursor, m.cursor), G.cursor_is(s, (0, ite(a.flag, old.scrollregion_start, 0))))
            yield "grid-untouched", G.seq_rows_eq(s.term, old.term)
        elif dec(25):
            m = G.M_set_cursor(G.upd(old, modes=G.upd(old.modes, visible_cursor=a.flag)), *old.term_cursor)
            yield "DECTCEM-shows-or-hides-the-cursor", both(G.cursor_is(s, m.term_cursor), opt_eq(s.cursor, m.cursor), implies(neg(a.flag), opt_isnone(s.cursor)))
            yield "grid-untouched", G.seq_rows_eq(s.term, old.term)
        elif dec(5):
            yield "DECSCNM-leaves-the-cursor", both(G.cursor_is(s, old.term_cursor), opt_eq(s.cursor, old.cursor))
            yield "DECSCNM-repaints-only-on-a-change", implies(old.modes.reverse_video == a.flag, G.seq_rows_eq(s.term, old.term))
        else:
            yield "screen-and-cursor-untouched", both(G.seq_rows_eq(s.term, old.term), G.cursor_is(s, old.term_cursor), opt_eq(s.cursor, old.cursor))


def _nobody(v_modes, upto, qmark, field):
    return forall(0, upto, lambda j: neg(addresses(Q.seq_get(v_modes, j), qmark, field)))


def _somebody(v_modes, upto, qmark, field, then):
    return forall(0, upto, lambda j: implies(addresses(Q.seq_get(v_modes, j), qmark, field), then))


@contract(VT + "TermCanvas.csi_set_modes", property="C15")
class csi_set_modes:
    self_shape = PTERM
    params = dict(modes=ListOf(Opt(Int)), qmark=Bool, reset=Bool)
    modifies = ("modes", "term", *CURSOR_FIELDS)
    invariant = staticmethod(PI)
    replayable = False
    independent_posts = True
    loops = {0: Loop(modifies=("self.modes", "self.term", "self.term_cursor", "self.cursor"), invariant=lambda v: both(
        PI(v.self), pframe(v.old.self, v.self, "modes", "term", *CURSOR_FIELDS), v.self.modes.main_charset == v.old.self.modes.main_charset,
        *[implies(_nobody(v.modes, v.i_, v.qmark, f), v.self.modes.fields[f] == v.old.self.modes.fields[f]) for f in MODE_FLAGS],
        *[_somebody(v.modes, v.i_, v.qmark, f, v.self.modes.fields[f] == v.flag) for f in MODE_FLAGS]))}

    def ensures(old, s, a, result):
        yield "keeps-the-parser-invariant", PI(s)
        yield "frame", pframe(old, s, "modes", "term", *CURSOR_FIELDS)
        n = Q.seq_len(a.modes)
        yield "a-mode-no-parameter-addresses-is-kept", both(s.modes.main_charset == old.modes.main_charset, *[implies(_nobody(a.modes, n, a.qmark, f), s.modes.fields[f] == old.modes.fields[f]) for f in MODE_FLAGS])
        yield "a-mode-some-parameter-addresses-is-set-or-reset", both(*[_somebody(a.modes, n, a.qmark, f, s.modes.fields[f] == neg(a.reset)) for f in MODE_FLAGS])


def initial_tabstops(s):
    return G.mkints(G.tab_bytes(s.width), lambda j: 1)


@contract(VT + "TermCanvas.reset", property="C15")
class reset:
    self_shape = PTERM
    params = dict()
    modifies = ("escbuf", "within_escape", "parsestate", "attrspec", "charset", "saved_cursor", "saved_attrs", "is_rotten_cursor", "scrollregion_start", "scrollregion_end",
                "tabstops", "modes", "term", *CURSOR_FIELDS)
    invariant = staticmethod(PI)
    replayable = False
    independent_posts = True
    inline = G.HELPERS

    def effects(old, s, a, result):
        # callee side: the default rendition is the concrete value None (the clause below compares with `is None`,
        # which a havocked symbolic value can never satisfy: without this every caller's path would end at the call --
        # found by the reach@after vacuity guard)
        s.fields["attrspec"] = None

    def ensures(old, s, a, result):
        yield "keeps-the-parser-invariant", PI(s)
        yield "escape-machine-in-ground-state", both(neg(s.within_escape), s.parsestate == 0, tlen(s.escbuf) == 0)
        yield "modes-at-their-defaults", both(neg(s.modes.display_ctrl), neg(s.modes.insert), neg(s.modes.lfnl), neg(s.modes.keys_decckm), neg(s.modes.reverse_video), neg(s.modes.constrain_scrolling),
                                              s.modes.autowrap, s.modes.visible_cursor, s.modes.main_charset == 1, s.modes.bracketed_paste == old.modes.bracketed_paste)
        yield "scrolling-region-is-the-whole-screen", both(s.scrollregion_start == 0, s.scrollregion_end == old.height - 1)
        yield "cursor-home-no-wrap-pending-nothing-saved", both(G.cursor_is(s, (0, 0)), neg(s.is_rotten_cursor), opt_isnone(s.saved_cursor), opt_isnone(s.saved_attrs))
        yield "default-rendition-and-charset", both(s.attrspec is None, s.charset.active == 0, neg(s.charset._sgr_mapping))
        yield "every-cell-is-a-blank-in-the-default-rendition", forall(0, old.height, lambda r: forall(0, old.width, lambda x: G.cell_eq(G.cell(s.term, r, x), (None, s.charset.current, b" "))))
        yield "a-tab-stop-every-eight-columns", both(same_value("tabstops", s.tabstops, initial_tabstops(old)), forall(0, old.width, lambda k: tabstop_at(s, k) == (k % 8 == 0)))
        yield "size-scrollback-and-utf8-assembly-untouched", pframe(old, s, *reset.modifies)

    def ensures_callee(old, s, a, result):
        # callers (ESC c in parse_noncsi) get every clause except the two doubly quantified ones about the cell contents
        # and the individual tab stops, which no caller uses and which left the solver unable to show the point after
        # the call reachable (reach@after came back `unknown`)
        for label, f in reset.ensures(old, s, a, result):
            if label not in ("every-cell-is-a-blank-in-the-default-rendition", "a-tab-stop-every-eight-columns"):
                yield label, f
        yield "tab-stop-table-is-the-initial-one", same_value("tabstops", s.tabstops, initial_tabstops(old))


# =================================================================================================
# the escape-sequence interpreters

ANY = type("AnyValue", (), {"__repr__": lambda self: "<any>"})()
_arg_same_base = arg_same


def arg_same(x, y):  # noqa: F811 - adds the wildcard
    if x is ANY or y is ANY:
        return True
    return _arg_same_base(x, y)


@contract(VT + "TermCanvas.parse_osc", property="C15")
@with_calls
class parse_osc:
    self_shape = PTERM
    params = dict(buf=BYTES)
    invariant = staticmethod(PI)
    replayable = False

    def calls(old, a):
        # OSC 0 / OSC 2 / OSC <empty> ; title: the window title is handed to the widget (leading zeros were stripped by
        # the caller); everything else is ignored
        if TO.text_startswith(a.buf, (b";", b"0;", b"2;")):
            return [("set_title", {"title": ANY})]
        return []

    def ensures(old, s, a, result):
        yield "keeps-the-parser-invariant", PI(s)
        yield "canvas-untouched", pframe(old, s)


NONCSI_MODS = ("term", "scrollback_buffer", *CURSOR_FIELDS, "is_rotten_cursor", "modes", "charset", "tabstops", "saved_cursor", "saved_attrs", "attrspec", "scrollregion_start",
               "scrollregion_end", "escbuf", "within_escape", "parsestate")


def _noncsi_cases(old, a):
    """(condition, what happens) for the two- and three-character escape sequences, in the order the code tests them."""
    ch, mod = a.char, a.mod
    is_ = lambda c: beq(ch, c)  # noqa: E731
    decaln = both(beq(mod, b"#"), is_(b"8"))
    selcs = both(neg(decaln), beq(mod, b"%"))
    desig = both(neg(decaln), neg(selcs), either(beq(mod, b"("), beq(mod, b")")))
    plain = both(neg(decaln), neg(selcs), neg(desig))
    return decaln, selcs, desig, plain, is_


def _noncsi_calls(old, a):
    decaln, selcs, desig, plain, is_ = _noncsi_cases(old, a)
    if both(plain, is_(b"Z")):
        return [("respond", {"string": "\x1b[?6c"})]
    return []


def _state_is(old, s, m, mods):
    return both(*[same_value(k, s.fields[k], getattr(m, k)) for k in mods], pframe(old, s, *mods))


def _noncsi_light(old, s, a, result):
    decaln, selcs, desig, plain, is_ = _noncsi_cases(old, a)
    yield "keeps-the-parser-invariant", PI(s)
    yield "only-RIS-touches-the-escape-machine", implies(neg(both(plain, is_(b"c"))), parser_untouched(old, s))
    yield "RIS-resets-the-escape-machine", implies(both(plain, is_(b"c")), both(neg(s.within_escape), s.parsestate == 0, tlen(s.escbuf) == 0))
    yield "size-and-utf8-assembly-untouched", both(s.width == old.width, s.height == old.height, psame("utf8_eat_bytes", s.utf8_eat_bytes, old.utf8_eat_bytes), psame("utf8_buffer", s.utf8_buffer, old.utf8_buffer))
    known = either(False, *[is_(bytes([c])) for c in b"MDcEHZ78"])
    yield "anything-else-is-ignored", implies(both(plain, neg(known)), pframe(old, s))


@contract(VT + "TermCanvas.parse_noncsi", property="C15")
@with_calls
class parse_noncsi:
    self_shape = PTERM
    params = dict(char=BYTES, mod=BYTES)
    modifies = NONCSI_MODS
    invariant = staticmethod(PI)
    replayable = False
    independent_posts = True
    calls = _noncsi_calls

    def ensures(old, s, a, result):
        yield from _noncsi_light(old, s, a, result)
        decaln, selcs, desig, plain, is_ = _noncsi_cases(old, a)
        LF = G.LF_FIELDS
        # (one case per path: the `if`s are decided by the path condition of the branch the body took)
        if decaln:
            yield "ESC-#-8-DECALN-fills-the-screen-with-E", both(forall(0, old.height, lambda r: G.blank_row(s.term, r, old, old.width, b"E")), pframe(old, s, "term"))
        elif selcs:
            yield "ESC-%-@-selects-the-default-charset-ESC-%-G-utf8", both(
                implies(is_(b"@"), s.modes.main_charset == 1), implies(either(is_(b"G"), is_(b"8")), s.modes.main_charset == 2),
                implies(neg(either(is_(b"@"), TO.in_const(a.char, b"G8"))), s.modes.main_charset == old.modes.main_charset),
                *[s.modes.fields[f] == old.modes.fields[f] for f in MODE_FLAGS], pframe(old, s, "modes"))
        elif desig:
            yield "ESC-(-and-)-designate-a-charset-and-nothing-else", pframe(old, s, "charset")
        elif is_(b"M"):
            yield "ESC-M-reverse-index", _state_is(old, s, G.M_lf(old, True), LF)
        elif is_(b"D"):
            yield "ESC-D-index", _state_is(old, s, G.M_lf(old, False), LF)
        elif is_(b"E"):
            yield "ESC-E-next-line", _state_is(old, s, G.M_lf(G.M_cr(old), False), LF)
        elif is_(b"H"):
            col = old.term_cursor[0]
            yield "ESC-H-sets-a-tab-stop-at-the-cursor-column", both(
                tabstop_at(s, col), forall(0, old.width, lambda k: implies(k != col, tabstop_at(s, k) == tabstop_at(old, k))), pframe(old, s, "tabstops"))
        elif is_(b"Z"):
            yield "ESC-Z-only-replies", pframe(old, s)
        elif is_(b"7"):
            yield "ESC-7-saves-cursor-rendition-and-charset", both(
                opt_eq(s.saved_cursor, old.term_cursor), neg(opt_isnone(s.saved_attrs)), pframe(old, s, "saved_cursor", "saved_attrs"))
        elif is_(b"8"):
            if is_none(old.saved_cursor):
                yield "ESC-8-without-a-saved-cursor-does-nothing", pframe(old, s)
            else:
                m8 = G.M_set_cursor(old, *val(old.saved_cursor))
                yield "ESC-8-restores-the-saved-cursor", both(G.cursor_is(s, m8.term_cursor), opt_eq(s.cursor, m8.cursor), pframe(old, s, *CURSOR_FIELDS, "attrspec", "charset"))

    ensures_callee = staticmethod(_noncsi_light)


# ---- CSI: parameter parsing and the dispatch through the REAL table

CSI_KEYS = tuple(_vt.CSI_COMMANDS)
CSI_MODS = ("term", "scrollback_buffer", *CURSOR_FIELDS, "is_rotten_cursor", "modes", "charset", "tabstops", "saved_cursor", "saved_attrs", "attrspec", "scrollregion_start", "scrollregion_end")
PARAMS = ListOf(Opt(Int))


def onone(e):
    return opt_isnone(e)


def oval(e):
    v = val(e)
    return 0 if v is None else v


def pget(lst, j):
    return Q.seq_get(lst, j)


def param_ok(e):
    """A parsed CSI parameter: absent (None: empty or unparsable text) or a non-negative integer."""
    return either(onone(e), oval(e) >= 0)


def _csi_inv0(v):
    return both(_nlen(v.escbuf) == v.i_, forall(0, v.i_, lambda j: param_ok(pget(v.escbuf, j))))


def defaulted(e, d):
    """The value the callback sees for parsed parameter e under the command's default d."""
    return ite(either(onone(e), oval(e) == 0), d, oval(e))


def _csi_inv2(v):
    ent, now, d = v.at_entry.escbuf, v.escbuf, v.default_value
    n = _nlen(ent)
    return both(_nlen(now) == n, forall(0, n, lambda j: both(
        implies(j < v.i_, both(neg(onone(pget(now, j))), oval(pget(now, j)) == defaulted(pget(ent, j), d))),
        implies(j >= v.i_, opt_eq(pget(now, j), pget(ent, j))))))


class _UnwrapParams:
    """Call-site adapter for a callee that takes the parameter list as a list of plain ints (csi_set_attr): the list the
    parser built holds Optional[int] elements; that none of them is None after defaulting is the caller's obligation
    here, then the callee's contract is applied to the same list read as ints."""

    def __init__(self, key, argname):
        self.key, self.argname = key, argname

    def apply(self, ip, st, f, args, kwargs, site=None, check_pre=True):
        c = REGISTRY[self.key]
        args = list(args)
        lst = args[1]
        n = Q.seq_len(lst)
        st.oblige(f"{ip.task.name}/call-pre@{f.ref.qualname}:{(site or '').split(':')[-1]}/no-parameter-is-None", forall(0, n, lambda j: neg(onone(pget(lst, j)))), "call-pre")
        base = lst.seq
        args[1] = LRef(SSeq(n, lambda j: oval(Q.seq_get(base, j)), Int, None, "params"))
        return c.apply(ip, st, f, args, kwargs, site, check_pre)


def _csi_light(old, s, a, result):
    yield "keeps-the-parser-invariant", PI(s)
    yield "escape-machine-and-utf8-assembly-untouched", parser_untouched(old, s)
    yield "size-and-scrollback-view-untouched", both(s.width == old.width, s.height == old.height, s.scrolling_up == old.scrolling_up, eq(s.widget, old.widget), s.has_focus == old.has_focus)


def callee_model(c, old, **args):
    """The reference-model state a `modelled` contract of C15_vterm assigns to a call with these arguments."""
    return type(c).__dict__["model"](old, View(args))


def _move(old, x, y, rx=False, ry=False, rel=False):
    return callee_model(G.move_cursor, old, x=x, y=y, relative_x=rx, relative_y=ry, relative=rel), G.move_cursor.modifies


def csi_effect(old, key, p0, p1, qmark):
    """ECMA-48 / VT100 meaning of the control function with final byte `key`, as (model state, fields it may change,
    calls on the widget); None where this file states nothing (SGR: contracts/C15_sgr.py; h / l / g / s / u: the
    callee contracts' own clauses).  Cursor movements are relative to the parameters AFTER defaulting (0 -> 1)."""
    x, y = old.term_cursor
    none = []
    if key == b"@":  # ICH
        return G.M_insert_chars(old, None, p0, None), ("term",), none
    if key == b"A":  # CUU
        return *_move(old, 0, -p0, rel=True), none
    if key == b"B":  # CUD
        return *_move(old, 0, p0, rel=True), none
    if key == b"C":  # CUF
        return *_move(old, p0, 0, rel=True), none
    if key == b"D":  # CUB
        return *_move(old, -p0, 0, rel=True), none
    if key == b"E":  # CNL
        return *_move(old, 0, p0, ry=True), none
    if key == b"F":  # CPL
        return *_move(old, 0, -p0, ry=True), none
    if key == b"G":  # CHA
        return *_move(old, p0 - 1, 0, ry=True), none
    if key == b"H":  # CUP: row ; column, one-based
        return *_move(old, p1 - 1, p0 - 1), none
    if key == b"d":  # VPA
        return *_move(old, 0, p0 - 1, rx=True), none
    if key == b"J":  # ED
        return M_erase_display(old, p0), ("term", *CURSOR_FIELDS), none
    if key == b"K":  # EL
        return M_erase_line(old, p0), ("term",), none
    if key == b"L":  # IL
        return G.M_insert_lines(old, True, p0), ("term",), none
    if key == b"M":  # DL
        return G.M_remove_lines(old, True, p0), ("term",), none
    if key == b"P":  # DCH
        return G.M_remove_chars(old, None, p0), ("term",), none
    if key == b"X":  # ECH: p0 cells from the cursor
        return G.M_erase(old, (x, y), (x + p0 - 1, y)), ("term",), none
    if key == b"r":  # DECSTBM
        return callee_model(G.csi_set_scroll, old, top=p0, bottom=p1), G.csi_set_scroll.modifies, none
    if key == b"c":  # DA
        return old, (), ([] if qmark else [("respond", {"string": "\x1b[?6c"})])
    if key == b"n":  # DSR / CPR
        return old, (), status_reply(old, p0)
    if key == b"q":  # DECLL
        return old, (), type(csi_set_keyboard_leds).__dict__["calls"](old, View(dict(mode=p0)))
    if key in (b"g", b"h", b"l", b"s", b"u"):
        return None, None, none
    return None, None, None


@contract(VT + "TermCanvas.parse_csi", property="C15")
class parse_csi:
    self_shape = PTERM
    params = dict(char=BYTES)
    modifies = CSI_MODS
    invariant = staticmethod(PI)
    replayable = False
    independent_posts = True
    static_checks = [real_lambdas_xcheck, parser_state_writers, textops_xcheck]
    contract_overrides = {VT + "TermCanvas.csi_status_report": STATUS_CALLEE, VT + "TermCanvas.csi_set_attr": _UnwrapParams(VT + "TermCanvas.csi_set_attr", "attrs")}
    loops = {0: Loop(invariant=_csi_inv0, shapes={"escbuf": PARAMS}), 2: Loop(invariant=_csi_inv2, shapes={"escbuf": PARAMS})}

    def requires(s, a):
        # called by parse_escape for a final byte that is a key of CSI_COMMANDS, in CSI state
        return both(s.parsestate == 1, either(False, *[beq(a.char, k) for k in CSI_KEYS]))

    def ensures(old, s, a, result):
        yield from _csi_light(old, s, a, result)
        # what the command did, relative to the parameters the callback received (ghost: the function's locals at exit)
        loc = cur().ghost["exit_locals"]
        lst, qmark = loc["escbuf"], loc["qmark"]
        n = _nlen(lst)
        yield "the-private-marker-is-a-leading-question-mark", qmark == TO.text_startswith(as_text(old.escbuf), b"?")
        yield "every-parameter-is-a-non-negative-int", forall(0, n, lambda j: both(neg(onone(pget(lst, j))), oval(pget(lst, j)) >= 0))
        key = next(k for k, v in _vt.CSI_COMMANDS.items() if v is loc["cmd_"])  # the table entry the body selected on this path
        yield "the-entry-is-the-one-of-the-final-byte", beq(a.char, key)
        entry = _vt.CSI_COMMANDS[key]
        if isinstance(entry, _vt.CSIAlias):
            key = entry.alias
            entry = _vt.CSI_COMMANDS[key]
        yield "at-least-the-parameters-the-command-needs", n >= entry.num_args
        if entry.default:
            yield "a-zero-or-missing-parameter-became-the-default", forall(0, n, lambda j: oval(pget(lst, j)) >= 1)
        p0 = oval(pget(lst, 0)) if entry.num_args >= 1 else None
        p1 = oval(pget(lst, 1)) if entry.num_args >= 2 else None
        want, mods, calls = csi_effect(old, key, p0, p1, qmark)
        if want is not None:
            yield from model_clauses(f"CSI-{key.decode()}", old, s, want, mods)
        if calls is not None:
            yield f"CSI-{key.decode()}/widget-calls", widget_calls_are(old, calls)

    ensures_callee = staticmethod(lambda old, s, a, result: _csi_light(old, s, a, result))


ESCAPE_MODS = tuple(dict.fromkeys((*NONCSI_MODS, *CSI_MODS)))
DIGITS_SEMI = b"0123456789;"
INTERMEDIATES = (b"%", b"#", b"(", b")")


def tcat(a, b):
    return SConcat(as_text(a), as_text(b))


def last_of(t):
    t = as_text(t)
    n = t.length
    return t.slice(imax(n - 1, 0), n)


def _escape_cases(old, a):
    """The escape state machine's reaction to one character, as conditions over the state at entry:
    which of the `collecting` transitions applies (the sequence goes on), else the sequence ends."""
    p, e, c = old.parsestate, as_text(old.escbuf), a.char
    n = e.length
    is_key = either(False, *[beq(c, k) for k in CSI_KEYS])
    csi_param = both(p == 1, neg(is_key), either(TO.in_const(c, DIGITS_SEMI), both(n == 0, beq(c, b"?"))))
    osc_start = both(p == 0, beq(c, b"]"))
    osc_end = either(beq(c, b"\a"), text_eq(tcat(last_of(e), c), b"\x1b\\"), both(TO.text_startswith(e, b"P"), n == 8), both(n == 0, beq(c, b"R")))
    osc_more = both(p == 2, neg(osc_end))
    csi_start = both(p == 0, beq(c, b"["))
    inter = both(p == 0, either(False, *[beq(c, k) for k in INTERMEDIATES]))
    return dict(is_key=is_key, csi_param=csi_param, osc_start=osc_start, osc_more=osc_more, csi_start=csi_start, inter=inter,
                goes_on=either(csi_param, osc_start, osc_more, csi_start, inter))


def _escape_light(old, s, a, result):
    k = _escape_cases(old, a)
    e, c = as_text(old.escbuf), a.char
    yield "keeps-the-parser-invariant", PI(s)
    yield "a-sequence-that-goes-on-changes-only-the-buffer-and-the-state", implies(k["goes_on"], both(s.within_escape == old.within_escape, pframe(old, s, "escbuf", "parsestate")))
    yield "CSI-parameter-bytes-are-collected", implies(k["csi_param"], both(s.parsestate == 1, bytes_same(s.escbuf, tcat(e, c))))
    yield "OSC-string-bytes-are-collected", implies(k["osc_more"], both(s.parsestate == 2, bytes_same(s.escbuf, tcat(e, c))))
    yield "ESC-]-starts-an-OSC-string", implies(k["osc_start"], both(s.parsestate == 2, tlen(s.escbuf) == 0))
    yield "ESC-[-starts-a-control-sequence", implies(k["csi_start"], both(s.parsestate == 1, tlen(s.escbuf) == 0))
    yield "an-intermediate-character-is-remembered", implies(k["inter"], both(s.parsestate == 3, bytes_same(s.escbuf, c)))
    yield "otherwise-the-sequence-ends-in-ground-state", implies(neg(k["goes_on"]), both(neg(s.within_escape), s.parsestate == 0, tlen(s.escbuf) == 0))
    yield "size-and-utf8-assembly-untouched", both(s.width == old.width, s.height == old.height, psame("utf8_eat_bytes", s.utf8_eat_bytes, old.utf8_eat_bytes), psame("utf8_buffer", s.utf8_buffer, old.utf8_buffer))


@contract(VT + "TermCanvas.parse_escape", property="C15")
class parse_escape:
    self_shape = PTERM
    params = dict(char=BYTES)
    modifies = ESCAPE_MODS
    invariant = staticmethod(PI)
    replayable = False
    independent_posts = True

    def ensures(old, s, a, result):
        yield from _escape_light(old, s, a, result)
        k = _escape_cases(old, a)
        p = old.parsestate
        canvas = pframe(old, s, "escbuf", "parsestate", "within_escape")
        yield "an-OSC-string-never-touches-the-canvas", implies(p == 2, canvas)
        yield "an-aborted-control-sequence-never-touches-the-canvas", implies(both(p == 1, neg(k["is_key"])), canvas)
        plain_finals = either(False, *[beq(a.char, bytes([x])) for x in b"cDEHMZ78"])
        yield "an-unknown-escape-never-touches-the-canvas", implies(both(p == 0, neg(k["goes_on"]), neg(plain_finals)), canvas)

    ensures_callee = staticmethod(_escape_light)


# ---- one character


def bytes_individual(t):
    """The individual of the opaque kind `Bytes` (the character component of a grid cell in C15_vterm) that a bytes
    value of this file denotes: a constant for a Python bytes constant, otherwise ONE arbitrary individual per text
    object (nothing is assumed about it: sound for any content; the same text object always denotes the same cell
    character, which is what the clauses about `push_cursor` need)."""
    if isinstance(t, bytes):
        return t
    ind = t.__dict__.get("_individual") if hasattr(t, "__dict__") else None
    if ind is None:
        st = cur()
        ind = SOpaque("Bytes", z3.Const(st.fresh_name("charbytes"), G.opaque_sort("Bytes")), {"lit": (bytes,)})
        t.__dict__["_individual"] = ind
    return ind


class _PushCursorCallee:
    """Call-site adapter: TermCanvas.push_cursor's contract (C15_vterm) takes the character as an individual of the
    opaque kind Bytes; the parser hands it a bytes text."""

    def apply(self, ip, st, f, args, kwargs, site=None, check_pre=True):
        args = list(args)
        for j in range(1, len(args)):
            if getattr(args[j], "is_text", False) or isinstance(args[j], bytes):
                args[j] = bytes_individual(args[j])
        return G.push_cursor.apply(ip, st, f, args, kwargs, site, check_pre)


def _pc_cases(old, c):
    """Which branch of process_char a character takes, as mutually exclusive conditions over the state at entry
    (C0 controls act only outside display-controls mode; ESC and BEL are data inside an OSC string)."""
    ctl, osc = neg(old.modes.display_ctrl), old.parsestate == 2
    raw = [("esc", both(beq(c, b"\x1b"), neg(osc))), ("cr", both(ctl, beq(c, b"\r"))), ("si", both(ctl, beq(c, b"\x0f"))), ("so", both(ctl, beq(c, b"\x0e"))),
           ("lf", both(ctl, TO.in_const(c, b"\n\v\f"))), ("tab", both(ctl, beq(c, b"\t"))), ("bs", both(ctl, beq(c, b"\b"))), ("bel", both(ctl, beq(c, b"\a"), neg(osc))),
           ("can", both(ctl, TO.in_const(c, b"\x18\x1a"))), ("nul", both(ctl, TO.in_const(c, b"\x00\x7f"))), ("seq", old.within_escape), ("csi", both(ctl, beq(c, b"\x9b")))]
    out, before = {}, True
    for name, cond in raw:
        out[name] = both(before, cond)
        before = both(before, neg(cond))
    out["print"] = before
    return out


def _pc_light(old, s, a, result):
    yield "keeps-the-parser-invariant", PI(s)
    yield "size-and-utf8-assembly-untouched", both(s.width == old.width, s.height == old.height, psame("utf8_eat_bytes", s.utf8_eat_bytes, old.utf8_eat_bytes), psame("utf8_buffer", s.utf8_buffer, old.utf8_buffer))


PC_MODS = tuple(dict.fromkeys((*ESCAPE_MODS, *G.PUSH_FIELDS)))
ESC_FIELDS = ("within_escape", "parsestate", "escbuf")


@contract(VT + "TermCanvas.process_char", property="C15")
class process_char:
    self_shape = PTERM
    params = dict(char=Union(BYTES, Int))
    modifies = PC_MODS
    invariant = staticmethod(PI)
    replayable = False
    independent_posts = True
    contract_overrides = {VT + "TermCanvas.push_cursor": _PushCursorCallee()}

    def requires(s, a):
        # an int is converted with int.to_bytes(1, ...): OverflowError outside range(256)
        return True if getattr(a.char, "is_text", False) else both(0 <= a.char, a.char <= 255)

    def ensures(old, s, a, result):
        yield from _pc_light(old, s, a, result)
        c = cur().ghost["exit_locals"]["char"]  # the character as bytes (an int argument was converted)
        if not getattr(a.char, "is_text", False):
            yield "an-int-is-the-byte-of-that-value", both(tlen(c) == 1, tget(c, 0) == a.char)
        k = _pc_cases(old, c)
        x, y = old.term_cursor
        # (one case per path: the `if`s below are decided by the path condition of the branch the body took)
        if k["esc"]:
            yield "ESC-opens-an-escape-sequence", both(s.within_escape, pframe(old, s, "within_escape"))
        elif k["cr"]:
            yield "CR-returns-the-carriage", _state_is(old, s, G.M_cr(old), G.carriage_return.modifies)
        elif either(k["si"], k["so"]):
            yield "SI-and-SO-activate-G0-and-G1", both(implies(k["si"], s.charset.active == 0), implies(k["so"], s.charset.active == 1), pframe(old, s, "charset"))
        elif k["lf"]:
            lf = G.M_lf(old, False)
            if old.modes.lfnl:
                yield "in-new-line-mode-a-line-feed-also-returns-the-carriage", _state_is(old, s, G.M_cr(lf), G.LF_FIELDS)
            else:
                yield "LF-VT-FF-feed-a-line", _state_is(old, s, lf, G.LF_FIELDS)
        elif k["tab"]:
            yield "HT-moves-right-within-the-line", both(x <= s.term_cursor[0], s.term_cursor[0] <= old.width - 1, implies(x < old.width - 1, x < s.term_cursor[0]),
                                                         either(s.term_cursor[0] == old.width - 1, tabstop_at(old, s.term_cursor[0])), pframe(old, s, *CURSOR_FIELDS, "is_rotten_cursor"))
        elif k["bs"]:
            # (a BS that moves also cancels a pending wrap, as on every terminal of the family: DEC STD 070, xterm, Linux --
            #  until fix: commit 95e9344 the flag stayed set and the next character was wrapped onto the next line)
            yield "BS-moves-one-column-left-cancels-a-pending-wrap-and-stops-at-the-margin", both(
                implies(x > 0, _state_is(old, s, G.M_set_cursor(G.upd(old, is_rotten_cursor=False), x - 1, y), (*CURSOR_FIELDS, "is_rotten_cursor"))),
                implies(x <= 0, pframe(old, s)))
        elif k["bel"]:
            yield "BEL-rings-the-bell-and-nothing-else", both(widget_calls_are(old, [("beep", {})]), pframe(old, s))
        elif k["can"]:
            yield "CAN-and-SUB-abort-the-sequence", both(neg(s.within_escape), s.parsestate == 0, tlen(s.escbuf) == 0, pframe(old, s, *ESC_FIELDS))
        elif k["nul"]:
            yield "NUL-and-DEL-are-ignored", pframe(old, s)
        elif k["seq"]:
            pass  # inside an escape sequence: parse_escape's contract
        elif k["csi"]:
            yield "C1-CSI-opens-a-control-sequence", both(s.within_escape, s.parsestate == 1, tlen(s.escbuf) == 0, pframe(old, s, *ESC_FIELDS))
        else:
            yield "anything-else-is-printed-at-the-cursor", _state_is(old, s, G.M_push_cursor(old, bytes_individual(c)), G.PUSH_FIELDS)

    ensures_callee = staticmethod(_pc_light)


# ---- one byte: UTF-8 assembly

from pyvc.protocol import Protocol  # noqa: E402

_ENC = G.opaque_sort("Encoding")
_ENC_EQ = z3.Function("Encoding.is", _ENC, z3.IntSort(), z3.BoolSort())


class EncodingProtocol(Protocol):
    """`util._target_encoding`: the name of a codec (set_encoding stores a name only after `"".encode(name)`
    succeeded; "ascii" otherwise).  An arbitrary individual; comparing it with a str constant is an uninterpreted
    predicate of (individual, constant)."""

    kind = "Encoding"
    methods = {}

    def eq_const(self, st, obj, const):
        if not isinstance(const, str):
            return False
        return mk_bool(_ENC_EQ(obj.e, z3.IntVal(V.atom_code(const))))


PROTOCOLS["Encoding"] = EncodingProtocol()
ENCODING = dict(_target_encoding=Opaque("Encoding"))


def encode_replace(ip, st, recv, name, args, kwargs):
    """Contract hook (builtins_model.call_method): `<str>.encode(<target encoding>, "replace")`.
    ASSUMED about the runtime: for the codec named by util._target_encoding, str.encode with the "replace" error
    handler returns bytes and does not raise (unencodable characters become b"?").  True of every text codec of the
    standard library (cross-check `replace-encoding-never-raises` over every standard codec name that set_encoding
    accepts); NOT true of the one non-text codec it accepts, "idna" (UnicodeError "unsupported error handling" for
    every handler but "strict") -- an application that calls util.set_encoding("idna") is outside this contract
    (reported as a boundary of the claim, see the final report of this branch).
    The result is a fresh bytes text of unknown length and content, tagged `encoded_from`."""
    if name == "encode" and recv.kind == "str" and len(args) == 2 and not kwargs and isinstance(args[0], SOpaque) and args[0].kind == "Encoding" and args[1] == "replace":
        t = BYTES.fresh(st, "encoded")
        t.encoded_from = recv
        return t
    return NotImplemented


def replace_encoding_xcheck():
    import encodings.aliases

    names = sorted(set(encodings.aliases.aliases.values()) | {"utf8", "ascii", "euc-jp", "euc-kr", "gb2312", "gbk", "big5", "latin-1", "cp437", "koi8-r", "utf-16", "utf-32",
                                                             "idna", "punycode", "raw_unicode_escape", "unicode_escape", "utf_8_sig", "utf-7"})
    samples = ["a", "é", "中", "\U0001f600", "\ud800", "\x00", "a中é￿", "́"]
    bad, n, skipped = [], 0, []
    for name in names:
        try:
            "".encode(name)  # what util.set_encoding tries before it accepts a name
        except Exception:  # noqa: BLE001
            skipped.append(name)
            continue
        for smp in samples:
            n += 1
            try:
                r = smp.encode(name, "replace")
                if not isinstance(r, bytes):
                    bad.append((name, smp, type(r).__name__))
            except Exception as e:  # noqa: BLE001
                bad.append((name, smp, type(e).__name__))
    non_text = {b[0] for b in bad}
    # the documented exceptions: codecs that are not character encodings
    ok = non_text <= {"idna"}
    return "replace-encoding-never-raises", ok and n > 500, f"{n} (codec, text) pairs; codecs outside the assumption: {sorted(non_text)}; not accepted by set_encoding: {len(skipped)}"


REGISTRY[VT + "TermCanvas.process_char"].log_event = "process_char"  # ghost: the canvas remembers which characters were processed


def buf_text(s):
    return as_text(s.utf8_buffer.text)


def _ab_light(old, s, a, result):
    yield "keeps-the-parser-invariant", PI(s)
    yield "size-untouched", both(s.width == old.width, s.height == old.height)


@contract(VT + "TermCanvas.addbyte", property="C15")
class addbyte:
    self_shape = PTERM
    params = dict(byte=Int)
    modifies = (*PC_MODS, "utf8_eat_bytes", "utf8_buffer")
    invariant = staticmethod(PI)
    replayable = False
    independent_posts = True
    globals_ = ENCODING
    inline = ("urwid/util.py:get_encoding",)
    text_method = staticmethod(encode_replace)
    static_checks = [replace_encoding_xcheck]

    def requires(s, a):
        return both(0 <= a.byte, a.byte <= 255)

    def ensures(old, s, a, result):
        yield from _ab_light(old, s, a, result)
        b = a.byte
        utf8 = either(old.modes.main_charset == 2, PROTOCOLS["Encoding"].eq_const(cur(), a.g__target_encoding, "utf8"))
        evs = new_events(old, s, "process_char")
        pend, eat = neg(onone(old.utf8_eat_bytes)), oval(old.utf8_eat_bytes)
        untouched = both(psame("utf8_eat_bytes", s.utf8_eat_bytes, old.utf8_eat_bytes), psame("utf8_buffer", s.utf8_buffer, old.utf8_buffer))
        one_byte = lambda: both(len(evs) == 1, tlen(evs[0][1]) == 1, tget(evs[0][1], 0) == b) if len(evs) == 1 else False  # noqa: E731
        if not utf8:
            yield "outside-utf8-every-byte-is-a-character", both(one_byte(), untouched)
        elif b >= 0xC0:
            yield "a-lead-byte-always-starts-a-new-sequence", both(len(evs) == 0, neg(onone(s.utf8_eat_bytes)), bytes_same(s.utf8_buffer, TO.bytes_of_ints(cur(), [b])), pframe(old, s, "utf8_eat_bytes", "utf8_buffer"))
            yield "it-expects-as-many-continuation-bytes-as-its-high-bits-say", both(implies(b <= 0xDF, oval(s.utf8_eat_bytes) == 1), implies(both(0xE0 <= b, b <= 0xEF), oval(s.utf8_eat_bytes) == 2),
                                                                                   implies(both(0xF0 <= b, b <= 0xF7), oval(s.utf8_eat_bytes) == 3))
        elif both(b >= 0x80, pend, eat > 1):
            yield "a-continuation-byte-is-collected", both(len(evs) == 0, neg(onone(s.utf8_eat_bytes)), oval(s.utf8_eat_bytes) == eat - 1,
                                                           bytes_same(s.utf8_buffer, tcat(buf_text(old), TO.bytes_of_ints(cur(), [b]))), pframe(old, s, "utf8_eat_bytes", "utf8_buffer"))
        elif both(b >= 0x80, pend):
            yield "the-last-continuation-byte-ends-the-sequence", both(onone(s.utf8_eat_bytes), len(evs) <= 1)
            if len(evs) == 1:
                enc = evs[0][1]
                dec = getattr(enc, "encoded_from", None)
                src = getattr(dec, "decoded_from", None)
                yield "the-character-is-the-lenient-decoding-of-the-collected-bytes-in-the-target-encoding", both(
                    dec is not None, src is not None, getattr(dec, "decode_errors", None) == "ignore", src is not None and bytes_same(src, tcat(buf_text(old), TO.bytes_of_ints(cur(), [b]))))
            else:
                yield "an-undecodable-sequence-is-dropped", pframe(old, s, "utf8_eat_bytes")
            # valid UTF-8: the collected bytes plus this one form exactly one well-formed sequence -> exactly that character
            from pyvc.text import char_ord

            nb = tlen(buf_text(old))
            for n in (2, 3, 4):
                wf, cp = TO.utf8_scalar([tget(buf_text(old), j) for j in range(n - 1)] + [b], n)
                got = False
                if len(evs) == 1 and getattr(evs[0][1], "encoded_from", None) is not None:
                    dec = evs[0][1].encoded_from
                    got = both(tlen(dec) == 1, char_ord(dec.get(0)) == cp)
                yield f"a-well-formed-{n}-byte-sequence-produces-its-character", implies(both(nb == n - 1, wf), got)
        else:
            # an ASCII byte, or a continuation byte out of place: a pending sequence is abandoned (resynchronisation)
            yield "any-other-byte-abandons-a-pending-sequence-and-is-a-character", both(onone(s.utf8_eat_bytes), one_byte(), psame("utf8_buffer", s.utf8_buffer, old.utf8_buffer))

    ensures_callee = staticmethod(_ab_light)


@contract(VT + "TermCanvas.addstr", property="C15")
class addstr:
    self_shape = PTERM
    params = dict(data=Union(BYTES, ListOf(Int(0, 255))))
    modifies = addbyte.modifies
    invariant = staticmethod(PI)
    replayable = False
    globals_ = ENCODING
    loops = {0: Loop(modifies=tuple("self." + k for k in addbyte.modifies), invariant=lambda v: both(PI(v.self), v.self.width == v.old.self.width, v.self.height == v.old.self.height, implies(v.i_ == 0, pframe(v.old.self, v.self))))}

    def ensures(old, s, a, result):
        yield "keeps-the-parser-invariant", PI(s)
        yield "size-untouched", both(s.width == old.width, s.height == old.height)
        n = tlen(a.data) if getattr(a.data, "is_text", False) else Q.seq_len(a.data)
        yield "nothing-written-nothing-changes", implies(n == 0, pframe(old, s))


# Reachability (vacuity) checks of this file run against path conditions that carry quantified facts (GI, the CSI
# buffer invariant, callee clauses): they normally answer in about a second; the budget is the full obligation
# budget so that a loaded machine does not turn a `covered` into `uncovered` (run-time tuning, no semantic content).
for _c in list(REGISTRY.values()):
    if getattr(_c, "defined_in", None) == __name__ and not _c.assumed:
        _c.cover_timeout_ms = 60000


def small_grid_witness(st):
    """Witness scenario for the vacuity guards (engine.State.cover): a 1 x 1 terminal with an empty scroll-back and
    one tab-stop byte.  `pc AND witness` satisfiable implies `pc` satisfiable, so this can only turn an `unknown`
    into `covered`; where the scenario does not fit a path the plain check decides as before."""
    s = (st.ex.inputs or {}).get("self")
    if s is None or "width" not in getattr(s, "fields", {}):
        return ()
    out = [s.width == 1, s.height == 1, s.scrolling_up == 0, Q.seq_len(s.scrollback_buffer.seq) == 0, _nlen(s.tabstops) == 1, s.term_cursor[0] == 0, s.term_cursor[1] == 0]
    return [c for c in out if not isinstance(c, bool)]


for _c in list(REGISTRY.values()):
    if getattr(_c, "defined_in", None) == __name__ and not _c.assumed and _c.self_shape is PTERM:
        _c.cover_witness = small_grid_witness
