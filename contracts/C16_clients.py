"""C16 — the callbacks the monitored contents lists of Pile / Columns / GridFlow call, verified IN THE STATE THE LIST CALLS THEM IN.

A MonitoredFocusList mutator runs, in this order: the validator (list and focus still as before), the built-in list
operation, the `modified` callback (`_call_modified`) and only then `self.focus = <adjusted index>` (which may fire the
focus-changed callback just before it stores the index).  So the `modified` callback -- and the focus-changed callback --
see the NEW contents beside the OLD, stale focus index: any non-negative number, possibly >= len (the focused tail item
was just removed).  C16 demands that the call then "holds exactly what a built-in list would hold and raises the same
errors": the callback must not raise in ANY such state, must leave the list and the stored index alone (the mutator
adjusts it afterwards), and -- "the modified callback fires after every successful call that changes the contents" --
works from the contents as they are now.

The contracts of the same functions in contracts/C08_focus.py / C08_gridflow.py carry the class invariant "focus index in
range" (callers outside the list owe it); the aliases here are second, independent contracts on the same real bodies WITHOUT
it.  Reading the focus widget / focus position (`self.focus`, `self.focus_position`: contracts with that invariant) from
inside such a callback is therefore an obligation `call-inv@...` that fails."""
from pyvc import seqs as Q
from pyvc.api import *
from pyvc.values import cur

from contracts.C08_focus import CINL, CO, COLUMNS, PI, PILE, PINL, col_contents_modified, item_at, n_items, pile_contents_modified
from contracts.C08_gridflow import GF, GINL, GRIDFLOW, gf_invalidate, n_cells


def stale_focus(lst):
    """What the mutators guarantee about the stored index while they call out: it is the (valid or 0) index of the list
    BEFORE the operation -- non-negative, unrelated to the present length."""
    return lst._focus >= 0


def list_state_untouched(old, s):
    return both(Q.seq_len(s._contents.items) == Q.seq_len(old._contents.items), s._contents._focus == old._contents._focus)


def _writes_to_list(s):
    return [e for e in cur().trace if e[0] == "write" and e[1] is s._contents]


@contract(PI + "Pile._contents_modified", property="C16", alias="called-by-the-list", inline=PINL, replayable=False)
class pile_modified_by_list:
    self_shape = PILE
    raises = ()  # `del pile.contents[-1]` with the focus on the tail: the callback runs with _focus == len

    def requires(s, a):
        return stale_focus(s._contents)

    def ensures(old, s, a, result):
        yield from type(pile_contents_modified).ensures(old, s, a, result)  # selectability from the contents AS THEY ARE NOW, invalidated
        yield "list-and-stored-focus-untouched", list_state_untouched(old, s)


@contract(CO + "Columns._contents_modified", property="C16", alias="called-by-the-list", inline=CINL, replayable=False)
class columns_modified_by_list:
    self_shape = COLUMNS
    raises = ()

    def requires(s, a):
        return stale_focus(s._contents)

    def ensures(old, s, a, result):
        yield from type(col_contents_modified).ensures(old, s, a, result)
        yield "list-and-stored-focus-untouched", list_state_untouched(old, s)


@contract(GF + "GridFlow._invalidate", property="C16", alias="called-by-the-list", inline=GINL, replayable=False)
class gridflow_invalidate_by_list:
    """GridFlow wires BOTH list callbacks (modified, focus-changed) to `_invalidate`: besides the stale index, the cached display
    widget is the one built from the old cells (the invariant `display_inv` of contracts/C08_gridflow.py does not hold either)."""
    self_shape = GRIDFLOW
    raises = ()

    def requires(s, a):
        return stale_focus(s._contents)

    def ensures(old, s, a, result):
        yield from type(gf_invalidate).ensures(old, s, a, result)  # cached display widget dropped, canvases invalidated, contents untouched


@contract(CO + "Columns._invalidate", property="C16", alias="called-by-the-list", inline=CINL, replayable=False)
class columns_invalidate_by_list:
    """Columns wires the focus-changed callback to `_invalidate` (`lambda f: self._invalidate()`), and `_contents_modified` calls
    it too: both while the stored index is the stale one.  (contracts/C08_focus.py only ASSUMES this function; here its real
    body is verified for that state.)"""
    self_shape = COLUMNS
    raises = ()

    def requires(s, a):
        return stale_focus(s._contents)

    def ensures(old, s, a, result):
        yield "cached-widths-dropped", is_none(s._cache_maxcol)
        yield "canvases-invalidated", count_ev(s.trace, "_invalidate") == 1
        yield "list-and-stored-focus-untouched", list_state_untouched(old, s)
