"""C09 / C19 / C08 / C01 — Overlay: every entry point against ONE shared geometry, `Overlay.calculate_padding_filler`
(left, right, top, bottom) and `Overlay.top_w_size`; top and bottom widgets abstract (widget protocol).

Geometry of an Overlay at the box size (maxcol, maxrow) and focus flag f:
    (l, r, t, b) = calculate_padding_filler((maxcol, maxrow), f)
    top_w is drawn with its top-left corner at (l, t) in the slot of maxcol-l-r columns by maxrow-t-b rows, at the size
    top_w_size(...) = ()  (width 'pack': fixed top_w) | (maxcol-l-r,)  (height 'pack': flow top_w) | (maxcol-l-r, maxrow-t-b);
    bottom_w fills the whole box and never has the focus.
Fit precondition of the C09 statement: nothing of top_w is clipped (l, r, t, b >= 0) and the box is not empty.

Sizes here are box sizes (the overlay itself sized as a box widget): `Overlay.pack(size)` is then the identity
(`Widget.pack`, inlined).  The flow / fixed sizing of the Overlay itself (rows(), pack(())) is not covered.

Abstraction (as for Padding in C09_geometry.py): `align_amount` / `valign_amount` are integers in 0..100 also for the
non-relative kinds, where the constructor stores None and the calculators ignore the value."""
from pyvc.api import *
from pyvc.api import PROTOCOLS
from pyvc.values import cur, is_none, mk_bool
from contracts.proto_widget import *
from contracts.C19_space import clrp as CLRP, ctbf as CTBF, size_ok
from contracts.C09_geometry import calls, opt_eq_shift, opt_same
from urwid.widget import overlay as _overlay

CLRP.deterministic = True
CTBF.deterministic = True
OV = "urwid/widget/overlay.py:"
OVERLAY = Obj(
    _overlay.Overlay,
    dict(
        top_w=Opaque("Widget"), bottom_w=Opaque("Widget"),
        align_type=Enum("left", "center", "right", "relative"), align_amount=Int,
        width_type=Enum("given", "relative", "pack"), width_amount=Opt(Int), min_width=Opt(Int), left=Int, right=Int,
        valign_type=Enum("top", "middle", "bottom", "relative"), valign_amount=Int,
        height_type=Enum("given", "relative", "pack"), height_amount=Opt(Int), min_height=Opt(Int), top=Int, bottom=Int,
    ),
)
OINL = ("urwid/widget/widget.py:Widget.pack", OV + "Overlay.pack", OV + "Overlay.top_w_size")
BOXSIZE = Tup(Int, Int)
GEOM_FIELDS = ("align_type", "align_amount", "width_type", "left", "right", "valign_type", "valign_amount", "height_type", "top", "bottom")


def _amount_wf(kind, amount):
    return both(
        implies(kind == "pack", mk_bool(amount.isnone)),
        implies(kind == "given", both(neg(mk_bool(amount.isnone)), amount.val >= 0, amount.val < PARTMAX)),
        implies(kind == "relative", both(neg(mk_bool(amount.isnone)), amount.val >= 0, amount.val <= 100)),
    )


def _min_wf(m):
    return either(mk_bool(m.isnone), both(m.val >= 0, m.val < PARTMAX))


def overlay_wf(s):
    """An Overlay as `set_overlay_parameters` leaves it (documented options: width/height given | relative | 'pack')."""
    return both(
        0 <= s.align_amount, s.align_amount <= 100, 0 <= s.valign_amount, s.valign_amount <= 100,
        0 <= s.left, s.left < PARTMAX, 0 <= s.right, s.right < PARTMAX, 0 <= s.top, s.top < PARTMAX, 0 <= s.bottom, s.bottom < PARTMAX,
        _amount_wf(s.width_type, s.width_amount), _amount_wf(s.height_type, s.height_amount), _min_wf(s.min_width), _min_wf(s.min_height),
        # height 'given' / 'pack' drop min_height (set_overlay_parameters)
        implies(neg(s.height_type == "relative"), mk_bool(s.min_height.isnone)),
    )


def top_kind(s):
    """'fixed' | 'flow' | 'box': how top_w is sized (top_w_size)."""
    if s.width_type == "pack":
        return "fixed"
    if s.height_type == "pack":
        return "flow"
    return "box"


def top_size(s, size, l, r, t, b):
    maxcol, maxrow = size
    k = top_kind(s)
    if k == "fixed":
        return ()
    if k == "flow":
        return (maxcol - l - r,)
    return (maxcol - l - r, maxrow - t - b)


def fixed_pack(s, focus):
    return PROTOCOLS["Widget"].call_quiet(cur(), s.top_w, "pack", dict(size=(), focus=focus))


def _no_height(s, a):
    """calculate_padding_filler refuses a fixed top widget that packs to zero rows."""
    if s.width_type == "pack":
        return fixed_pack(s, a.focus)[1] == 0
    return False


@contract(OV + "Overlay.calculate_padding_filler", property=("C19", "C09"), inline=OINL, deterministic=True, replayable=False)
class overlay_cpf:
    self_shape = OVERLAY
    params = dict(size=BOXSIZE, focus=Bool)
    result = Tup(Int, Int, Int, Int)
    raises = (_overlay.OverlayError,)
    raises_iff = {_overlay.OverlayError: _no_height}

    def requires(s, a):
        return both(overlay_wf(s), size_ok(a.size))

    def ensures(old, s, a, result):
        W = PROTOCOLS["Widget"]
        l, r, t, b = result
        maxcol, maxrow = a.size
        k = top_kind(old)
        # C19: no child is ever handed a negative dimension
        yield "no-negative-dimension", both(maxcol - l - r >= 0, maxrow - t - b >= 0)
        # ---- columns
        if k == "fixed":
            pw, ph = fixed_pack(old, a.focus)
            yield "fixed-top-has-rows", ph > 0
            yield "fixed-slot-is-the-packed-width", maxcol - l - r == pw
            want = CLRP.spec_value(None, maxcol=maxcol, align_type=old.align_type, align_amount=old.align_amount, width_type="clip",
                                   width_amount=pw, min_width=None, left=old.left, right=old.right)
        else:
            want = CLRP.spec_value(None, maxcol=maxcol, align_type=old.align_type, align_amount=old.align_amount, width_type=old.width_type,
                                   width_amount=val(old.width_amount), min_width=old.min_width, left=old.left, right=old.right)
            yield "margins-not-negative", both(l >= 0, r >= 0)
        yield "columns-are-the-padding-calculator-on-the-documented-request", both(l == want[0], r == want[1])
        # ---- rows
        yield "top-not-negative", t >= 0
        if k == "fixed":
            yield "fixed-slot-is-the-packed-height", maxrow - t - b == ph
            wantv = CTBF.spec_value(None, maxrow=maxrow, valign_type=old.valign_type, valign_amount=old.valign_amount, height_type="given",
                                    height_amount=ph, min_height=None, top=old.top, bottom=old.bottom)
            yield "rows-are-the-filler-calculator-unless-clipped", both(t == wantv[0], implies(ph <= maxrow, b == wantv[1]))
            yield "too-tall-is-clipped-at-the-bottom-only", implies(ph > maxrow, both(t == 0, b == maxrow - ph))
        elif k == "flow":
            # the statement: margins plus child exactly fill the available space -- the child being top_w as it is drawn,
            # i.e. at the width top_w_size hands it
            # (failed on the tree before /repo d5c4211 "Overlay measures a flow top widget at the width it is rendered with":
            #  Overlay(Text("aaaa bbbb cccc dddd eeee ffff"), SolidFill('.'), 'center', 10, 'middle', 'pack')
            #  .calculate_padding_filler((40, 7), False) was (15, 15, 3, 3), a 1-row slot for a child 3 rows high at its 10 columns)
            rows_drawn = W.call_quiet(cur(), old.top_w, "rows", dict(size=(maxcol - l - r,), focus=a.focus))
            yield "flow-slot-is-the-childs-rows-as-drawn", maxrow - t - b == rows_drawn
            wantv = CTBF.spec_value(None, maxrow=maxrow, valign_type=old.valign_type, valign_amount=old.valign_amount, height_type="given",
                                    height_amount=rows_drawn, min_height=None, top=old.top, bottom=old.bottom)
            yield "rows-are-the-filler-calculator-unless-clipped", both(t == wantv[0], implies(rows_drawn <= maxrow, b == wantv[1]))
            yield "too-tall-is-clipped-at-the-bottom-only", implies(rows_drawn > maxrow, both(t == 0, b == maxrow - rows_drawn))
        else:
            wantv = CTBF.spec_value(None, maxrow=maxrow, valign_type=old.valign_type, valign_amount=old.valign_amount, height_type=old.height_type,
                                    height_amount=val(old.height_amount), min_height=old.min_height, top=old.top, bottom=old.bottom)
            yield "rows-are-the-filler-calculator-on-the-documented-request", both(t == wantv[0], b == wantv[1])
            yield "bottom-not-negative", b >= 0
        yield "frame", both(*[eq(s.fields[f], old.fields[f]) for f in GEOM_FIELDS])

    def on_raise(old, s, a, exc):
        yield "only-a-fixed-top-without-rows", _no_height(old, a)
        yield "frame", both(*[eq(s.fields[f], old.fields[f]) for f in GEOM_FIELDS])


CPF = overlay_cpf


def overlay_geometry(s, size, focus):
    """(l, r, t, b, size handed to top_w): the geometry every Overlay entry point must share."""
    l, r, t, b = CPF.spec_value(s, size=size, focus=focus)
    return l, r, t, b, top_size(s, size, l, r, t, b)


@contract(OV + "Overlay.top_w_size", property=("C19", "C09"), replayable=False)
class overlay_tws:
    self_shape = OVERLAY
    params = dict(size=BOXSIZE, left=Int, right=Int, top=Int, bottom=Int)
    raises = ()

    def requires(s, a):
        return overlay_wf(s)

    def ensures(old, s, a, result):
        maxcol, maxrow = a.size
        k = top_kind(old)
        if k == "fixed":
            yield "fixed-top-gets-the-empty-size", len(result) == 0
        elif k == "flow":
            yield "flow-top-gets-the-slot-width", both(len(result) == 1, result[0] == maxcol - a.left - a.right if len(result) == 1 else False)
        else:
            yield "box-top-gets-the-slot", both(len(result) == 2, both(result[0] == maxcol - a.left - a.right, result[1] == maxrow - a.top - a.bottom) if len(result) == 2 else False)
        yield "frame", both(*[eq(s.fields[f], old.fields[f]) for f in GEOM_FIELDS])

    def pure_spec(old, a):
        # callee use (the result's arity depends on the sizing kind): the value the clauses above pin down
        return top_size(old, a.size, a.left, a.right, a.top, a.bottom)


# ------------------------------------------------------------------------------------------------ C08: focus position
@contract(OV + "Overlay.focus_position", property="C08", replayable=False)
class overlay_fp_get:
    self_shape = OVERLAY
    result = Int
    raises = ()

    def ensures(old, s, a, result):
        yield "always-the-top-widget", result == 1
        yield "frame", both(eq(s.top_w, old.top_w), eq(s.bottom_w, old.bottom_w), *[eq(s.fields[f], old.fields[f]) for f in GEOM_FIELDS])

    def pure_spec(old, a):
        return 1


@contract(OV + "Overlay.focus_position.setter", property="C08", replayable=False)
class overlay_fp_set:
    self_shape = OVERLAY
    params = dict(position=Int)
    raises = (IndexError,)
    raises_iff = {IndexError: lambda s, a: neg(a.position == 1)}

    def ensures(old, s, a, result):
        yield "only-position-1-is-accepted", a.position == 1
        yield "nothing-written", both(len([e for e in cur().trace if e[0] == "write"]) == 0, eq(s.top_w, old.top_w), eq(s.bottom_w, old.bottom_w))

    def on_raise(old, s, a, exc):
        yield "only-for-an-invalid-position", neg(a.position == 1)
        yield "nothing-written", both(len([e for e in cur().trace if e[0] == "write"]) == 0, eq(s.top_w, old.top_w), eq(s.bottom_w, old.bottom_w))


# ------------------------------------------------------------------------------------------------ C09 entry points
def overlay_fit(s, size, focus):
    """The statement's fit precondition: the box is not empty, top_w has a height, and nothing of it is clipped."""
    maxcol, maxrow = size
    if s.width_type == "pack":
        if fixed_pack(s, focus)[1] == 0:
            return False
    l, r, t, b, cs = overlay_geometry(s, size, focus)
    return both(maxcol >= 1, maxrow >= 1, l >= 0, r >= 0, t >= 0, b >= 0, maxcol - l - r >= 1, maxrow - t - b >= 1)


def _overlay_requires(s, a, focus):
    return both(overlay_wf(s), size_ok(a.size), overlay_fit(s, a.size, focus))


def overlay_visible(s, size, focus):
    """Something of top_w is drawn: the box is not empty and top_w is not handed a zero dimension."""
    maxcol, maxrow = size
    l, r, t, b, cs = overlay_geometry(s, size, focus)
    return both(maxcol >= 1, maxrow >= 1, *[d != 0 for d in cs])


@contract(OV + "Overlay.render", property=("C09", "C01", "C08"), inline=OINL, replayable=False)
class overlay_render:
    self_shape = OVERLAY
    params = dict(size=BOXSIZE, focus=Bool)
    result = CCANVAS
    raises = ()

    def requires(s, a):
        # C01: every box size, clipped top widgets included; only a fixed top_w that packs to no rows is refused
        # (OverlayError, see calculate_padding_filler)
        return both(overlay_wf(s), size_ok(a.size), neg(_no_height(s, a)))

    def ensures(old, s, a, r):
        W = PROTOCOLS["Widget"]
        maxcol, maxrow = a.size
        l, rr, t, b, cs = overlay_geometry(old, a.size, a.focus)
        yield "size", both(r.ncols == maxcol, r.nrows == maxrow)
        rc = calls("render")
        # C08: the bottom widget is never on the focus path
        yield "bottom-fills-the-box-unfocused", both(len(rc) >= 1, both(eq(rc[0][1], old.bottom_w), eq(rc[0][3]["size"], a.size), eq(rc[0][3]["focus"], False)) if rc else False)
        if not overlay_visible(old, a.size, a.focus):
            yield "nothing-of-top-w-to-draw", both(len(rc) == 1, is_none(r.cursor))
            return
        yield "bottom-then-top-each-rendered-once", len(rc) == 2
        if len(rc) == 2:
            yield "top-rendered-at-its-size", both(eq(rc[1][1], old.top_w), eq(rc[1][3]["size"], cs), eq(rc[1][3]["focus"], a.focus))
        if overlay_fit(old, a.size, a.focus):
            child = W.call_quiet(cur(), old.top_w, "render", dict(size=cs, focus=a.focus))
            yield "cursor-is-top-ws-shifted-by-left-top", opt_eq_shift(r.cursor, child.cursor, l, t)


@contract(OV + "Overlay.get_cursor_coords", property="C09", inline=OINL, replayable=False)
class overlay_gcc:
    self_shape = OVERLAY
    params = dict(size=BOXSIZE)
    result = Opt(Tup(Int, Int))
    raises = ()

    def requires(s, a):
        return _overlay_requires(s, a, True)

    def ensures(old, s, a, result):
        W = PROTOCOLS["Widget"]
        w = old.top_w
        if not W.hasattr(None, cur(), w, "get_cursor_coords"):
            yield "no-cursor-protocol", is_none(result)
            return
        l, r, t, b, cs = overlay_geometry(old, a.size, True)
        cc = W.call_quiet(cur(), w, "get_cursor_coords", dict(size=cs))
        q = calls("get_cursor_coords")
        # FAILS-ON-TREE (DESIGN section 7-d), two symptoms of one function:
        #  * a flow / fixed top_w is asked with a box size: Overlay(Edit("", "abc"), SolidFill('.'), 'center', 10, 'middle', 'pack')
        #    .get_cursor_coords((20, 7)) -> ValueError: too many values to unpack (render((20, 7), True).cursor == (8, 3))
        #    [obligation post/asked-once-with-the-rendered-size]
        #  * a top_w without a cursor: Overlay(Filler(Text("x")), SolidFill('.'), 'center', 10, 'middle', 3).get_cursor_coords((20, 7))
        #    -> TypeError: cannot unpack non-iterable NoneType object (render((20, 7), True).cursor is None)
        #    [obligation raises/TypeError]
        yield "asked-once-with-the-rendered-size", both(len(q) == 1, eq(q[0][3]["size"], cs) if q else False)
        yield "top-ws-cursor-shifted-by-left-top", opt_eq_shift(result, cc, l, t)


@contract(OV + "Overlay.mouse_event", property="C09", inline=OINL, replayable=False)
class overlay_mouse:
    self_shape = OVERLAY
    params = dict(size=BOXSIZE, event=Opaque("Key"), button=Int, col=Int, row=Int, focus=Bool)
    result = Bool
    raises = ()

    def requires(s, a):
        return both(_overlay_requires(s, a, a.focus), 0 <= a.col, a.col < a.size[0], 0 <= a.row, a.row < a.size[1])

    def ensures(old, s, a, result):
        W = PROTOCOLS["Widget"]
        w = old.top_w
        maxcol, maxrow = a.size
        l, r, t, b, cs = overlay_geometry(old, a.size, a.focus)
        me = calls("mouse_event")
        inside = both(l <= a.col, a.col < maxcol - r, t <= a.row, a.row < maxrow - b)
        yield "never-the-bottom-widget", both(len(me) <= 1, eq(me[0][1], w) if me else True)
        if not W.hasattr(None, cur(), w, "mouse_event"):
            yield "no-handler", both(len(me) == 0, result == False)  # noqa: E712
        elif inside:
            yield "delivered-to-top-w-once", len(me) == 1
            if me:
                v = me[0][3]
                yield "top-w-relative-coordinates", both(eq(v["size"], cs), v["col"] == a.col - l, v["row"] == a.row - t)
                yield "event-button-focus-unchanged", both(v["button"] == a.button, eq(v["focus"], a.focus), eq(v["event"], a.event))
                yield "result-is-top-ws", eq(result, me[0][4])
        else:
            yield "outside-top-w-not-delivered", both(len(me) == 0, result == False)  # noqa: E712


@contract(OV + "Overlay.keypress", property=("C09", "C08"), inline=OINL, replayable=False)
class overlay_keypress:
    self_shape = OVERLAY
    params = dict(size=BOXSIZE, key=Opaque("Key"))
    result = Opt(Opaque("Key"))
    raises = ()

    def requires(s, a):
        return _overlay_requires(s, a, True)

    def ensures(old, s, a, result):
        l, r, t, b, cs = overlay_geometry(old, a.size, True)
        kp = calls("keypress")
        yield "offered-once-to-top-w-with-the-rendered-size", both(len(kp) == 1, eq(kp[0][1], old.top_w) if kp else False, eq(kp[0][3]["size"], cs) if kp else False, eq(kp[0][3]["key"], a.key) if kp else False)
        if kp:
            yield "result-is-top-ws", opt_same(result, kp[0][4])
