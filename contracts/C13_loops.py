"""C13 — SelectEventLoop: contracts on the real methods of urwid/event_loop/select_loop.py.

Views: alarms = multiset of handles (due time, tie-break, callback) kept as a heap; watch = map
fd -> callback; idle = map handle -> callback. heapq, time.time, itertools.count and selectors are
modelled (assumed contracts, listed in the evidence); user callbacks are opaque and may re-enter the
loop's six public operations (rely)."""
import heapq
import itertools
import selectors
import time
import z3

from pyvc import seqs as Q
from pyvc import shapes as S
from pyvc import values as V
from pyvc.api import *
from pyvc.api import PROTOCOLS
from pyvc.engine import PyRaise, SExc
from pyvc.protocol import Protocol
from pyvc.seqs import ModelObj
from pyvc.values import SReal, cur, mk_bool, mk_int

from urwid.event_loop import select_loop as _sl
from urwid.event_loop.abstract_loop import ExitMainLoop

SL = "urwid/event_loop/select_loop.py:"
CB = S.opaque_sort("LoopCallback")


def heq(a, b):
    """Equality of alarm handles (time, tie, callback)."""
    return both(eq(a[0], b[0]), eq(a[1], b[1]), eq(a[2], b[2]))


def hle(a, b):
    """Heap order on handles: by due time, then by tie-break (callbacks are never compared because
    tie-breaks are unique)."""
    return either(a[0] < b[0], both(eq(a[0], b[0]), a[1] <= b[1]))


class SHeap(ModelObj):
    """The list self._alarms seen as a multiset of handles with a 'heap order holds' flag."""

    def __init__(self, st, name):
        self.name = st.fresh_name(name)
        f = z3.Function(f"{self.name}$cnt", z3.RealSort(), z3.IntSort(), CB, z3.IntSort())
        self.cnt = lambda h, f=f: mk_int(f(V.to_real(h[0]).e if isinstance(h[0], V.Sym) else z3.RealVal(h[0]), V._z(h[1]), h[2].e))
        self.n = st.fresh_int(name + "_len")
        st.assume(self.n >= 0)
        self.heap = True
        # the minimum (index 0 of a heap), meaningful when n > 0
        self.first = (SReal(z3.Real(f"{self.name}$min_t")), st.fresh_int("min_tie"), V.SOpaque("LoopCallback", z3.Const(f"{self.name}$min_cb", CB)))
        self.max_tie = st.fresh_int("maxtie")  # every stored tie-break is below this (ties are issued increasingly)
        self.wf(st)

    def wf(self, st):
        """Facts of a well-formed heap value: counts are >= 0, the total is n, the first element is a
        member and is minimal (the heap property, assumed of heapq)."""
        st.assume(implies(self.n > 0, self.cnt(self.first) > 0))
        t, k = z3.Real(f"{self.name}$wt"), z3.Int(f"{self.name}$wk")
        c = z3.Const(f"{self.name}$wc", CB)
        anyh = (SReal(t), V.SInt(k), V.SOpaque("LoopCallback", c))
        st.assume(mk_bool(z3.ForAll([t, k, c], V._zb(both(self.cnt(anyh) >= 0, implies(self.n == 0, self.cnt(anyh) == 0))))))

    def first_none(self):
        return True

    def is_min(self, h):
        """h is a member and no member is smaller (quantified over handles)."""
        t, k = z3.Real(f"{self.name}$qt"), z3.Int(f"{self.name}$qk")
        c = z3.Const(f"{self.name}$qc", CB)
        any_h = (SReal(t), V.SInt(k), V.SOpaque("LoopCallback", c))
        body = implies(self.cnt(any_h) > 0, hle(h, any_h))
        return both(self.cnt(h) > 0, mk_bool(z3.ForAll([t, k, c], V._zb(body))))

    def py_truth(self, st):
        return self.n > 0

    def py_len(self, st):
        return self.n

    def py_getitem(self, ip, st, idx):
        if isinstance(idx, int) and idx == 0:
            st.partial(self.n > 0, IndexError, "list index out of range")
            if self.heap is not True:
                raise Unsupported("reading index 0 of the alarm list while the heap order may be broken")
            st.assume(self.is_min(self.first))
            return self.first
        raise Unsupported("alarm list subscript other than [0]")

    def _with(self, st, cnt, n, heap):
        self.cnt, self.n, self.heap = cnt, n, heap
        nm = st.fresh_name("heapmin")
        self.first = (SReal(z3.Real(f"{nm}_t")), st.fresh_int("min_tie"), V.SOpaque("LoopCallback", z3.Const(f"{nm}_cb", CB)))
        st.assume(implies(self.n > 0, self.cnt(self.first) > 0))

    def push(self, st, h):
        old = self.cnt
        self._with(st, lambda x: old(x) + ite(heq(x, h), 1, 0), self.n + 1, self.heap)
        self.max_tie = imax(self.max_tie, h[1] + 1)

    def pop_min(self, st):
        st.partial(self.n > 0, IndexError, "index out of range")
        if self.heap is not True:
            raise Unsupported("heappop while the heap order may be broken")
        m = self.first
        st.assume(self.is_min(m))
        old = self.cnt
        self._with(st, lambda x: old(x) - ite(heq(x, m), 1, 0), self.n - 1, True)
        return m

    def py_call(self, ip, st, name, args, kwargs):
        if name == "remove":
            h = args[0]
            if not st.branch(self.cnt(h) > 0):
                raise PyRaise(SExc(ValueError, ("list.remove(x): x not in list",), site="builtin"))
            old = self.cnt
            self._with(st, lambda x: old(x) - ite(heq(x, h), 1, 0), self.n - 1, False)
            return None
        raise Unsupported(f"alarm list method {name}")


class SMap(ModelObj):
    """A dict with symbolic keys: has(k), val(k)."""

    def __init__(self, st, name, val_sort=CB, val_kind="LoopCallback"):
        nm = st.fresh_name(name)
        fh = z3.Function(f"{nm}$has", z3.IntSort(), z3.BoolSort())
        fv = z3.Function(f"{nm}$val", z3.IntSort(), val_sort)
        self.kind = val_kind
        self.has = lambda k: mk_bool(fh(V._z(k)))
        self.val = lambda k: V.SOpaque(val_kind, fv(V._z(k)))
        self.size = st.fresh_int(name + "_size")
        st.assume(self.size >= 0)

    def py_truth(self, st):
        return self.size > 0

    def py_contains(self, ip, st, k):
        return self.has(k)

    def py_setitem(self, ip, st, k, v):
        oh, ov = self.has, self.val
        self.size = self.size + ite(oh(k), 0, 1)
        self.has = lambda x: either(oh(x), eq(x, k))
        self.val = lambda x: ite(eq(x, k), v, ov(x))

    def py_delitem(self, ip, st, k):
        st.partial(self.has(k), KeyError, "key")
        oh = self.has
        self.size = self.size - 1
        self.has = lambda x: both(oh(x), neg(eq(x, k)))

    def py_getitem(self, ip, st, k):
        st.partial(self.has(k), KeyError, "key")
        return self.val(k)


class SCounter(ModelObj):
    """itertools.count(): next() yields the current value and increments."""

    def __init__(self, st, name):
        self.value = st.fresh_int(name)
        st.assume(self.value >= 0)

    def py_call(self, ip, st, name, args, kwargs):
        if name == "__next__":
            v = self.value
            self.value = v + 1
            return v
        raise Unsupported(f"count().{name}")


def _fresh_loop(st, hint):
    o = Q.SObj(_sl.SelectEventLoop, dict(
        _alarms=SHeap(st, "alarms"), _watch_files=SMap(st, "watch"), _idle_callbacks=SMap(st, "idle"),
        _idle_handle=st.fresh_int("idle_handle"), _tie_break=SCounter(st, "tie"), _did_something=st.fresh_bool("did")))
    # invariant: handles and tie-breaks are issued increasingly, so stored ones are below the counters
    st.assume(o.fields["_alarms"].max_tie <= o.fields["_tie_break"].value)
    k = z3.Int(st.fresh_name("qk"))
    st.assume(z3.ForAll([k], z3.Implies(V._zb(o.fields["_idle_callbacks"].has(V.SInt(k))), k <= V._z(o.fields["_idle_handle"]))))
    return o


LOOP = Custom(_fresh_loop, "SelectEventLoop")
LOOP.fields = {}


def _real(ip, st, f, args, kwargs):
    if f is time.time:
        t = SReal(z3.Real(st.fresh_name("now")))
        prev = st.ghost.get("now")
        if prev is not None:
            st.assume(t >= prev)
        st.ghost["now"] = t
        return t
    if f is heapq.heappush:
        args[0].push(st, args[1])
        return None
    if f is heapq.heappop:
        return args[0].pop_min(st)
    if f is heapq.heapify:
        args[0].heap = True
        return None
    return NotImplemented


def stored_ties_below(heap, bound):
    """Every handle in the heap has a tie-break below `bound`."""
    t, k = z3.Real(f"{heap.name}$bt"), z3.Int(f"{heap.name}$bk")
    c = z3.Const(f"{heap.name}$bc", CB)
    h = (SReal(t), V.SInt(k), V.SOpaque("LoopCallback", c))
    return mk_bool(z3.ForAll([t, k, c], V._zb(implies(heap.cnt(h) > 0, h[1] < bound))))


def same_multiset_except(new, old, h, delta):
    """new.cnt == old.cnt + delta at h and equal elsewhere (quantified over handles)."""
    t, k = z3.Real(f"{new.name}$et"), z3.Int(f"{new.name}$ek")
    c = z3.Const(f"{new.name}$ec", CB)
    x = (SReal(t), V.SInt(k), V.SOpaque("LoopCallback", c))
    return mk_bool(z3.ForAll([t, k, c], V._zb(new.cnt(x) == old.cnt(x) + ite(heq(x, h), delta, 0))))


class _LoopContract:
    pass


@contract(SL + "SelectEventLoop.alarm", property="C13", replayable=False)
class alarm:
    self_shape = LOOP
    params = dict(seconds=Int, callback=Opaque("LoopCallback"))
    call_real = staticmethod(_real)

    def setup(st, self_obj, vals):
        st.assume(stored_ties_below(self_obj.fields["_alarms"], self_obj.fields["_tie_break"].value))

    def ensures(old, s, a, result):
        st = cur()
        tm, tie, cb = result
        yield "due-time-is-now-plus-delay", eq(tm, st.ghost["now"] + a.seconds)
        yield "carries-the-callback", eq(cb, a.callback)
        yield "fresh-handle", both(tie == old._tie_break.value, old._alarms.cnt(result) == 0)
        yield "exactly-this-handle-added", both(s._alarms.n == old._alarms.n + 1, same_multiset_except(s._alarms, old._alarms, result, 1))
        yield "heap-order-kept", s._alarms.heap is True
        yield "ties-stay-below-the-counter", stored_ties_below(s._alarms, s._tie_break.value)
        yield "nothing-else-touched", both(s._watch_files is not None, eq(s._did_something, old._did_something), s._idle_handle == old._idle_handle)


@contract(SL + "SelectEventLoop.remove_alarm", property="C13", replayable=False)
class remove_alarm:
    self_shape = LOOP
    params = dict(handle=Tup(Int, Int, Opaque("LoopCallback")))
    result = Bool
    call_real = staticmethod(_real)

    def ensures(old, s, a, result):
        present = old._alarms.cnt(a.handle) > 0
        yield "reports-whether-it-was-pending", eq(result, present)
        if result:
            yield "exactly-this-handle-removed", both(s._alarms.n == old._alarms.n - 1, same_multiset_except(s._alarms, old._alarms, a.handle, -1))
        else:
            yield "nothing-changed", both(s._alarms.n == old._alarms.n, same_multiset_except(s._alarms, old._alarms, a.handle, 0))
        yield "heap-order-restored", s._alarms.heap is True


@lemma("second-removal-reports-failure", property="C13")
class second_removal:
    """Tie-breaks are unique, so a handle is stored at most once; after a successful removal its count is 0."""
    params = dict(c0=Int, c1=Int)

    def requires(a):
        return both(a.c0 == 1, a.c1 == a.c0 - 1)   # count before (unique handle) and after removal

    def claim(a):
        yield "then-not-present", neg(a.c1 > 0)


@contract(SL + "SelectEventLoop.watch_file", property="C13", replayable=False)
class watch_file:
    self_shape = LOOP
    params = dict(fd=Int, callback=Opaque("LoopCallback"))
    result = Int

    def ensures(old, s, a, result):
        yield "handle-is-the-descriptor", result == a.fd
        yield "watched-with-that-callback", both(s._watch_files.has(a.fd), eq(s._watch_files.val(a.fd), a.callback))
        k = V.SInt(z3.Int("anyfd"))
        yield "others-untouched", mk_bool(z3.ForAll([k.e], V._zb(implies(neg(eq(k, a.fd)), both(eq(s._watch_files.has(k), old._watch_files.has(k)), eq(s._watch_files.val(k), old._watch_files.val(k)))))))


@contract(SL + "SelectEventLoop.remove_watch_file", property="C13", replayable=False)
class remove_watch_file:
    self_shape = LOOP
    params = dict(handle=Int)
    result = Bool

    def ensures(old, s, a, result):
        yield "reports-whether-it-was-watched", eq(result, old._watch_files.has(a.handle))
        yield "no-longer-watched", neg(s._watch_files.has(a.handle))
        k = V.SInt(z3.Int("anyfd"))
        yield "others-untouched", mk_bool(z3.ForAll([k.e], V._zb(implies(neg(eq(k, a.handle)), eq(s._watch_files.has(k), old._watch_files.has(k))))))


@contract(SL + "SelectEventLoop.enter_idle", property="C13", replayable=False)
class enter_idle:
    self_shape = LOOP
    params = dict(callback=Opaque("LoopCallback"))
    result = Int

    def setup(st, self_obj, vals):
        pass

    def ensures(old, s, a, result):
        yield "fresh-handle", both(neg(old._idle_callbacks.has(result)), result == old._idle_handle + 1, s._idle_handle == result)
        yield "registered", both(s._idle_callbacks.has(result), eq(s._idle_callbacks.val(result), a.callback))
        k = V.SInt(z3.Int("anyh"))
        yield "others-untouched", mk_bool(z3.ForAll([k.e], V._zb(implies(neg(eq(k, result)), both(eq(s._idle_callbacks.has(k), old._idle_callbacks.has(k)), eq(s._idle_callbacks.val(k), old._idle_callbacks.val(k)))))))


@contract(SL + "SelectEventLoop.remove_enter_idle", property="C13", replayable=False)
class remove_enter_idle:
    self_shape = LOOP
    params = dict(handle=Int)
    result = Bool

    def ensures(old, s, a, result):
        yield "reports-whether-it-was-registered", eq(result, old._idle_callbacks.has(a.handle))
        yield "no-longer-registered", neg(s._idle_callbacks.has(a.handle))
        k = V.SInt(z3.Int("anyh"))
        yield "others-untouched", mk_bool(z3.ForAll([k.e], V._zb(implies(neg(eq(k, a.handle)), eq(s._idle_callbacks.has(k), old._idle_callbacks.has(k))))))


# ---- one iteration of the loop

def _havoc_by_callback(st):
    """Rely: a user callback may call any of the loop's six public operations any number of times."""
    o = st.ghost.get("loop_obj")
    st.ghost["last_lookup"] = None
    st.ghost["last_pop"] = None
    if o is None:
        return
    old_tie, old_idle = o.fields["_tie_break"].value, o.fields["_idle_handle"]
    o.fields["_alarms"] = SHeap(st, "alarms")
    o.fields["_watch_files"] = SMap(st, "watch")
    o.fields["_idle_callbacks"] = SMap(st, "idle")
    o.fields["_tie_break"] = SCounter(st, "tie")
    o.fields["_idle_handle"] = st.fresh_int("idle_handle")
    st.assume(both(o.fields["_tie_break"].value >= old_tie, o.fields["_idle_handle"] >= old_idle))
    st.assume(stored_ties_below(o.fields["_alarms"], o.fields["_tie_break"].value))


class LoopCallbackProtocol(Protocol):
    kind = "LoopCallback"
    methods = {}

    def call(self, ip, st, f, args, kwargs):
        guard = getattr(ip.task.c, "callback_guard", None)
        if guard is not None:
            st.oblige(f"{ip.task.name}/callback-is-currently-registered", guard(st, f), "call-pre")
        st.event("callback", f)
        # a user callback may raise anything: one representative per class a handler in scope can tell apart
        # (ExitMainLoop; InterruptedError, which run()'s EINTR guard names; any other exception)
        k = st.fork(4)
        # the rely is the loop's own public operations: another loop class brings its own (callback_havoc)
        (getattr(ip.task.c, "callback_havoc", None) or _havoc_by_callback)(st)
        exc = {1: SExc(ExitMainLoop, (), site="user callback"), 2: SExc(Exception, ("<user callback raised>",), site="user callback"),
               3: SExc(InterruptedError, ("<user callback raised InterruptedError>",), site="user callback")}.get(k)
        third = getattr(ip.task.c, "callback_third_exception", None)  # another loop's run() names another class
        if k == 3 and third is not None:
            exc = third(st)
        st.ghost["callback_raised"] = exc  # ghost: what the last user callback raised (None: it returned)
        if exc is not None:
            raise PyRaise(exc)
        return None


PROTOCOLS["LoopCallback"] = LoopCallbackProtocol()


def _guard(st, f):
    """The callback about to be invoked is, right now, registered with the loop: the value just looked up in
    a watch/idle map (key present), or the callback of the alarm just popped from the heap."""
    lk = st.ghost.get("last_lookup")
    pop = st.ghost.get("last_pop")
    r = False
    if lk is not None:
        r = either(r, both(lk[1], eq(f, lk[2])))
    if pop is not None:
        r = either(r, eq(f, pop[2]))
    return r


class SSelector(ModelObj):
    """selectors.DefaultSelector(): register() records (fd -> data); select(t) returns any list of
    records of registered descriptors (the readiness oracle is arbitrary)."""

    def __init__(self, st):
        self.reg = lambda k: False
        self.data = None
        self.count = 0

    def py_enter(self, ip, st):
        return self

    def py_exit(self, ip, st, exc):
        return False

    def py_havoc(self, st):
        nm = st.fresh_name("sel")
        fr = z3.Function(f"{nm}$reg", z3.IntSort(), z3.BoolSort())
        fd = z3.Function(f"{nm}$data", z3.IntSort(), CB)
        self.reg = lambda k: mk_bool(fr(V._z(k)))
        self.data = lambda k: V.SOpaque("LoopCallback", fd(V._z(k)))

    def py_call(self, ip, st, name, args, kwargs):
        if name == "register":
            fd, _ev, data = args
            oreg, odata = self.reg, self.data
            self.reg = lambda k: either(oreg(k), eq(k, fd))
            self.data = (lambda k: data) if odata is None else (lambda k: ite(eq(k, fd), data, odata(k)))
            self.count = self.count + 1
            return None
        if name == "select":
            timeout = args[0] if args else kwargs.get("timeout")
            st.event("wait", timeout, st.ghost.get("now"))
            m = st.fresh_int("nready")
            st.assume(m >= 0)
            if self.data is None:
                return ()
            nm = st.fresh_name("ready")
            ffd = z3.Function(f"{nm}$fd", z3.IntSort(), z3.IntSort())
            reg, data = self.reg, self.data

            def getter(j):
                fd = mk_int(ffd(V._z(j)))
                cur().assume(reg(fd))
                rec = Q.SObj(selectors.SelectorKey, {"fd": fd, "fileobj": fd, "data": data(fd)})
                return (rec, 1)

            return Q.SSeq(m, getter, None, None, "selected")
        raise Unsupported(f"selector.{name}")


def _items_of(m, st):
    """dict.items() of an SMap as a sequence of (key, value) pairs covering exactly the map."""
    nm = st.fresh_name("items")
    fk = z3.Function(f"{nm}$key", z3.IntSort(), z3.IntSort())
    has, val = m.has, m.val

    def getter(j):
        k = mk_int(fk(V._z(j)))
        cur().assume(has(k))
        return (k, val(k))

    return Q.SSeq(m.size, getter, None, None, "items")


def _smap_call(self, ip, st, name, args, kwargs):
    if name == "items":
        return _items_of(self, st)
    if name == "values":
        it = _items_of(self, st)
        return Q.SSeq(self.size, lambda j: it.get(j)[1], None, None, "values")
    if name == "get":
        k = st.force(args[0])
        default = args[1] if len(args) > 1 else None
        if default is not None:
            raise Unsupported("dict.get with a default on a symbolic map")
        has = self.has(k)
        v = self.val(k)
        st.ghost["last_lookup"] = (k, has, v)
        return V.SOpt(V._zb(neg(has)), v)
    raise Unsupported(f"dict.{name} on a symbolic map")


def _smap_iter(self, ip, st):
    it = _items_of(self, st)
    return Q.SSeq(self.size, lambda j: it.get(j)[0], None, None, "keys")


SMap.py_call = _smap_call
SMap.py_iter = _smap_iter
_old_getitem = SMap.py_getitem


def _smap_getitem(self, ip, st, k):
    v = _old_getitem(self, ip, st, k)
    st.ghost["last_lookup"] = (k, True, v)
    return v


SMap.py_getitem = _smap_getitem
_old_pop = SHeap.pop_min


def _pop(self, st):
    heap_before = self.snapshot()
    m = _old_pop(self, st)
    st.ghost["last_pop"] = m
    st.ghost.setdefault("pops", []).append((m, heap_before))
    return m


SHeap.pop_min = _pop


def _loop_real(ip, st, f, args, kwargs):
    r = _real(ip, st, f, args, kwargs)
    if r is not NotImplemented:
        return r
    if f is selectors.DefaultSelector:
        return SSelector(st)
    return NotImplemented


def _loop_setup(st, self_obj, vals):
    st.ghost["loop_obj"] = self_obj
    st.ghost["did_at_entry"] = self_obj.fields["_did_something"]
    st.assume(stored_ties_below(self_obj.fields["_alarms"], self_obj.fields["_tie_break"].value))


@contract(SL + "SelectEventLoop._entering_idle", property="C13", replayable=False)
class entering_idle:
    self_shape = LOOP
    raises = (ExitMainLoop, InterruptedError, Exception)
    setup = staticmethod(_loop_setup)
    call_real = staticmethod(_loop_real)
    callback_guard = staticmethod(_guard)
    log_event = "_entering_idle"

    def ensures(old, s, a, result):
        yield "flag-untouched", eq(s._did_something, old._did_something)

    def on_raise(old, s, a, exc):
        yield "flag-untouched", eq(s._did_something, old._did_something)

    def effects(old, s, a, result):
        _havoc_by_callback(cur())

    # every callback invoked is a currently registered idle callback: obligation at each call site
    loops = {0: Loop(invariant=lambda v: eq(v.self._did_something, cur().ghost["did_at_entry"]))}


@contract(SL + "SelectEventLoop._loop", property="C13", replayable=False)
class loop_iteration:
    self_shape = LOOP
    raises = (ExitMainLoop, InterruptedError, Exception)
    setup = staticmethod(_loop_setup)
    call_real = staticmethod(_loop_real)
    callback_guard = staticmethod(_guard)

    def ensures(old, s, a, result):
        yield from _loop_claims(cur(), old, s, normal=True)

    def on_raise(old, s, a, exc):
        yield from _loop_claims(cur(), old, s, normal=False)

    loops = {
        # registering the watched descriptors: everything registered is a currently watched (fd, callback)
        0: Loop(invariant=lambda v: both(eq(v.self._did_something, cur().ghost["did_at_entry"]), registered_are_watched(v.selector, v.self._watch_files))),
        # calling the ready descriptors' callbacks
        1: Loop(invariant=lambda v: both(either(eq(v.self._did_something, v.at_entry.self._did_something), v.self._did_something == True),  # noqa: E712
                                         implies(v.i_ == 0, eq(v.self._did_something, v.at_entry.self._did_something))),
                modifies=("self._did_something",)),
    }


def registered_are_watched(sel, watch):
    if sel.data is None:
        return True
    k = V.SInt(z3.Int("anyregfd"))
    return mk_bool(z3.ForAll([k.e], V._zb(implies(sel.reg(k), both(watch.has(k), eq(sel.data(k), watch.val(k)))))))


def _loop_claims(st, old, s, normal=True):
    waits = [ev for ev in st.trace if ev[0] == "wait"]
    idle_runs = count_ev(s.trace, "_entering_idle")
    pops = st.ghost.get("pops", [])
    yield "at-most-one-wait", len(waits) <= 1
    if waits:
        timeout, now = waits[0][1], waits[0][2]
        if bool(old._did_something == True):  # noqa: E712
            # something ran since the last idle pass: never block before the idle callbacks had their turn
            yield "no-blocking-wait-while-idle-is-owed", (timeout is not None) and bool(eq(timeout, 0))
    yield "idle-pass-only-when-owed", implies(idle_runs > 0, old._did_something == True)  # noqa: E712
    cbs = [ev for ev in st.trace if ev[0] == "callback"]
    if pops:
        (tm, _tie, _cb), heap = pops[0]
        yield "one-alarm-per-iteration", len(pops) == 1
        yield "the-alarm-run-is-the-earliest-pending", heap.is_min(pops[0][0])
        yield "waited-until-it-was-due", both(len(waits) == 1, (waits[0][1] is not None) and bool(waits[0][1] >= tm - waits[0][2]) if waits else False)
        yield "no-idle-pass-in-the-same-iteration", idle_runs == 0
    if normal:
        if idle_runs > 0:
            yield "idle-pass-clears-the-flag", both(idle_runs == 1, s._did_something == False, len(cbs) == 0)  # noqa: E712
        elif cbs:
            yield "flag-set-after-any-alarm-or-watch-callback", s._did_something == True  # noqa: E712


@contract(SL + "SelectEventLoop.run", property=("C13", "C12"), replayable=False)
class run:
    self_shape = LOOP
    raises = (Exception,)
    setup = staticmethod(_loop_setup)
    call_real = staticmethod(_loop_real)

    def ensures(old, s, a, result):
        # the only normal way out of `while True` is an ExitMainLoop raised by an iteration
        yield "returns-only-after-ExitMainLoop", count_ev(s.trace, "_loop") >= 1

    def on_raise(old, s, a, exc):
        yield "ExitMainLoop-never-escapes", not issubclass(exc.cls, ExitMainLoop)
        yield "the-callbacks-exception-propagates-unchanged", exc.cls is Exception and "callee" in str(exc.site)
        # What the code does with the third class, stated as it is (it contradicts the statement's "any other
        # exception propagates": known finding C13-KF1, reported by the bounded check): an InterruptedError raised
        # by a callback is caught by the EINTR guard around the iteration and the loop goes on.
        yield "InterruptedError-from-a-callback-never-leaves-run (KNOWN FINDING C13-KF1)", exc.cls is not InterruptedError

    loops = {0: Loop(invariant=lambda v: True, modifies=("self._did_something",))}


loop_iteration.log_event = "_loop"
