"""C14 — the library's own connect call sites: the `callback + user_data` parameters of the wimp constructors
(urwid/widget/wimp.py: Button.__init__, CheckBox.__init__, RadioButton.__init__).

Statement: "each emit invokes every handler that stays connected ... exactly once ... with the weak and user arguments
given at connect time followed by the emitted arguments"; "handlers already disconnected when the emit starts ... are
never called".  The constructors document themselves as a shorthand for

    urwid.connect_signal(widget, name, callback, user_data)        callback is callback(widget, [new_state,] [user_data])
    urwid.disconnect_signal(widget, name, callback, user_data)     to unregister

so "the user arguments given at connect time" of that handler are the `user_data` the constructor was given: for the
statement to hold for it the constructor must

  * connect the callback EXACTLY ONCE when one is given (one connection = one call per emit) and make no connection
    when none is given, to its own signal ('click' / 'change') of the very object under construction, no weak arguments;
  * hand `user_data` on as the connection's user argument (the `user_arg` of Signals.connect: appended after the
    emitted arguments, compared by disconnect) for EVERY user_data that is not None, WHATEVER ITS TRUTH VALUE -- 0, '',
    False, () are data (the index of the first menu item) -- and no user argument exactly when user_data is None, the
    documented "no user data" (Signals.connect / _call_callback treat user_arg=None as absent: contracts/C14_signals.py).

Model.  The callback is an opaque individual (a function or bound method: always true); user_data is an optional
opaque individual whose truth value is an uninterpreted predicate (unknown `__bool__` / `__len__`).  `connect_signal`
(body verified in contracts/C14_signals.py: NameError iff the name is not registered for the sender's class -- 'click' /
'change' / 'postchange' are, by the `signals` declarations handled by MetaSignals, contracts/C14_metasignals.py) is a
ghost event ("connect", sender, name, callback, positional extras, keywords).  The child widgets the constructors build
(SelectableIcon / Text / Columns) are opaque results: nothing of them matters for the wiring."""
import z3

from pyvc import shapes as S
from pyvc import values as V
from pyvc.api import *
from pyvc.api import PROTOCOLS
from pyvc.protocol import Protocol
from pyvc.seqs import DRef
from pyvc.values import cur, mk_bool

from urwid import signals as _sig
from urwid.widget import wimp as _wimp

WP = "urwid/widget/wimp.py:"
WW = "urwid/widget/widget.py:"


def _ud_truthy(st, u):
    """bool(user_data): unknown."""
    return mk_bool(z3.Function("UserData.truthy", u.e.sort(), z3.BoolSort())(u.e))


CALLBACK = Opaque("SigCallback")
USER_DATA = Opaque("UserData", truth=_ud_truthy)


class _BuiltWidgetProtocol(Protocol):
    """A widget the constructor under verification built itself, `SelectableIcon(...)` / `Text(...)` / `Columns(...)`:
    an instance of exactly that class (what `isinstance(w, Widget)` in WidgetWrap.__init__ asks)."""

    kind = "BuiltWidget"
    methods = {}

    def isinstance(self, ip, st, obj, cls):
        return issubclass(obj.meta["cls"], cls)


PROTOCOLS["BuiltWidget"] = _BuiltWidgetProtocol()


def _made(st, kind, **meta):
    return V.SOpaque(kind, z3.Const(st.fresh_name(kind.lower()), S.opaque_sort(kind)), meta)


def _wiring_real(ip, st, f, args, kwargs):
    if f == _sig.connect_signal:
        st.ghost.setdefault("wiring", []).append(("connect", args[0], args[1], args[2], tuple(args[3:]), dict(kwargs)))
        return _made(st, "SigKey")
    if f == _sig.disconnect_signal:
        st.ghost.setdefault("wiring", []).append(("disconnect", args[0], args[1], args[2], tuple(args[3:]), dict(kwargs)))
        return None
    if f in (_wimp.SelectableIcon, _wimp.Text, _wimp.Columns):
        return _made(st, "BuiltWidget", cls=f)
    return NotImplemented


def _class_attr(ip, st, obj, name):
    """class-level decoration of the widgets (Button.button_left / button_right: Text instances made at class-definition
    time): opaque constants"""
    if name in ("button_left", "button_right"):
        return V.SOpaque("BuiltWidget", z3.Const(f"Button.{name}", S.opaque_sort("BuiltWidget")), {"cls": _wimp.Text})
    return NotImplemented


def _same_opt(x, orig):
    """the value x handed on IS the optional parameter `orig` (None for None, the same individual otherwise)"""
    if x is orig:
        return True
    if is_none(orig):
        return x is None or (isinstance(x, V.SOpt) and is_none(x))
    if isinstance(x, V.SOpt):
        if is_none(x):
            return False
        x = val(x)
    return isinstance(x, V.SOpaque) and eq(x, val(orig))


def _wiring(s, name, callback, user_data):
    """The clauses shared by the three constructors."""
    w = cur().ghost.get("wiring", [])
    conn = [ev for ev in w if ev[0] == "connect"]
    yield "nothing-disconnected", len(conn) == len(w)
    if is_none(callback):
        yield "no-callback-no-connection", len(conn) == 0
        return
    yield "callback-connected-exactly-once", len(conn) == 1
    if len(conn) != 1:
        return
    _k, sender, signame, cb, extra, kw = conn[0]
    yield "to-its-own-signal-with-the-callback-given", both(sender is s, signame == name, _same_opt(cb, callback))
    yield "no-weak-arguments-no-user_args", not kw.get("weak_args") and not kw.get("user_args") and set(kw) <= {"weak_args", "user_args", "user_arg"}
    passed = [*extra, *([kw["user_arg"]] if "user_arg" in kw else [])]
    yield "at-most-one-user-argument", len(passed) <= 1
    if len(passed) == 1:
        yield "user_data-handed-on-whatever-its-truth-value", _same_opt(passed[0], user_data)
    elif len(passed) == 0:
        yield "user_data-handed-on-whatever-its-truth-value", is_none(user_data)


def _fresh_wiring(st, self_obj, vals):
    st.ghost["wiring"] = []


BUTTON = Obj(_wimp.Button, dict())


@contract(WP + "Button.__init__", property="C14", alias="signal-wiring", replayable=False, inline=(WW + "WidgetWrap.__init__",))
class button_init_wiring:
    self_shape = BUTTON
    params = dict(label=Opaque("Markup"), on_press=Opt(CALLBACK), user_data=Opt(USER_DATA))
    raises = ()
    setup = staticmethod(_fresh_wiring)
    call_real = staticmethod(_wiring_real)
    modifies = ("_label", "_wrapped_widget")
    missing_field = staticmethod(_class_attr)

    def ensures(old, s, a, result):
        yield from _wiring(s, "click", a.on_press, a.user_data)


# ------------------------------------------------------------------------------------------------ CheckBox / RadioButton
_STATES = (True, False, "mixed")


def _checkbox_class_attr(ip, st, obj, name):
    """CheckBox.states (class-level dict state -> SelectableIcon made at class-definition time) / reserve_columns"""
    if name == "states":
        d = st.ghost.get("states")
        if d is None:
            d = st.ghost["states"] = DRef({k: V.SOpaque("BuiltWidget", z3.Const(f"{obj.cls.__name__}.states[{k!r}]", S.opaque_sort("BuiltWidget")), {"cls": _wimp.SelectableIcon})
                                             for k in type(obj.cls.states)(obj.cls.states)})
        return d
    if name == "reserve_columns":
        return obj.cls.reserve_columns
    return NotImplemented


CHECKBOX = Obj(_wimp.CheckBox, dict())


@contract(WP + "CheckBox.__init__", property="C14", alias="signal-wiring", replayable=False, inline=(WW + "WidgetWrap.__init__",))
class checkbox_init_wiring:
    self_shape = CHECKBOX
    params = dict(label=Opaque("Markup"), state=Enum(True, False, "mixed", "first True"), has_mixed=Bool, on_state_change=Opt(CALLBACK), user_data=Opt(USER_DATA),
                  checked_symbol=Enum(None, "", "*"))
    raises = (ValueError,)
    setup = staticmethod(_fresh_wiring)
    call_real = staticmethod(_wiring_real)
    modifies = ("_label", "has_mixed", "_state", "_wrapped_widget")
    missing_field = staticmethod(_checkbox_class_attr)

    def ensures(old, s, a, result):
        yield from _wiring(s, "change", a.on_state_change, a.user_data)

    def on_raise(old, s, a, exc):
        yield "only-an-unknown-state-is-refused", a.state == "first True"
        yield "a-refused-construction-connects-nothing", not cur().ghost.get("wiring", [])


RADIO = Obj(_wimp.RadioButton, dict())


@contract(WP + "RadioButton.__init__", property="C14", alias="signal-wiring", replayable=False,
          inline=(WP + "CheckBox.__init__", WW + "WidgetWrap.__init__"))
class radiobutton_init_wiring:
    """RadioButton.__init__ hands callback and user_data to CheckBox.__init__ (inlined here: the clauses are about
    the connect call that finally happens)."""

    self_shape = RADIO
    params = dict(group=ListOf(Opaque("RadioPeer")), label=Opaque("Markup"), state=Enum(True, False, "first True"), on_state_change=Opt(CALLBACK), user_data=Opt(USER_DATA))
    raises = ()
    setup = staticmethod(_fresh_wiring)
    call_real = staticmethod(_wiring_real)
    modifies = ("group", "_label", "has_mixed", "_state", "_wrapped_widget")
    missing_field = staticmethod(_checkbox_class_attr)

    def ensures(old, s, a, result):
        yield from _wiring(s, "change", a.on_state_change, a.user_data)
