"""C09 / C01 / C08 — Columns: rows, render, get_cursor_coords, move_cursor_to_coords, mouse_event and
get_pref_col against ONE shared geometry, children abstract ("for every child honouring the widget protocol").

The geometry (what `Columns.render` draws): with (w_0 .. w_{m-1}) the widths `get_column_sizes` reports and
d = dividechars, column j is *visible* iff w_j > 0 and is drawn at screen columns [X(j), X(j) + w_j), where

    X(0) = 0,   X(j+1) = X(j) + (w_j + d  if w_j > 0  else 0)

(the prefix sum of width + divider over the visible columns to the left).  The cells in [X(j)+w_j, X(j+1)) are
the divider after column j and belong to no child.  `X` is an uninterpreted function whose defining equations are
instantiated groundly at the indices in play (`x_unfold`); inductive facts about it are the lemmas at the end.
"""
import z3

from pyvc import seqs as Q
from pyvc import values as V
from pyvc.api import *
from pyvc.api import PROTOCOLS
from pyvc.values import cur, is_none, mk_bool, mk_int
from contracts.proto_widget import *
from contracts.C08_focus import CINL, CO, COLUMNS, col_gcs as GCS, item_at, n_items, pile_ri, _missing
from contracts.C09_geometry import calls, opt_eq_shift, opt_same

_X = z3.Function("columns$X", z3.IntSort(), z3.IntSort())
SIZE = Union(Tup(Int), Tup(Int, Int))
INL = CINL + ("urwid/widget/widget.py:Widget.selectable",)


def X(k):
    return mk_int(_X(V._z(k)))


def x_unfold(widths, d, j):
    """Definition of X at index j (0 <= j < m), plus the instances of lemma `columns-x-monotone` around j."""
    st = cur()
    m = Q.seq_len(widths)
    zj, zm = V._z(j), V._z(m)
    ok = z3.And(zj >= 0, zj < zm)
    wj = V._z(Q.seq_get(widths, j))
    st.assume(_X(z3.IntVal(0)) == 0)
    st.assume(z3.Implies(ok, _X(zj + 1) == _X(zj) + z3.If(wj > 0, wj + V._z(d), 0)))
    st.assume(z3.Implies(ok, z3.And(_X(zj) >= 0, _X(zj) <= _X(zj + 1), _X(zj + 1) <= _X(zm))))


def x_monotone(m):
    """Lemma `columns-x-monotone` (a prefix sum of non-negative terms never decreases), for all index pairs."""
    st = cur()
    a, b = z3.Int("xm$a"), z3.Int("xm$b")
    st.assume(z3.ForAll([a, b], z3.Implies(z3.And(0 <= a, a <= b, b <= V._z(m)), _X(a) <= _X(b)), patterns=[z3.MultiPattern(_X(a), _X(b))]))
    st.assume(_X(z3.IntVal(0)) == 0)


def x_all_visible(widths, d, k):
    """Lemma `columns-x-linear`: when the columns below k are all visible, X(k) = w_0 + .. + w_{k-1} + k*d."""
    st = cur()
    vis = forall(0, k, lambda j: Q.seq_get(widths, j) > 0)
    st.assume(implies(both(0 <= k, k <= Q.seq_len(widths), vis), X(k) == widths.psum(k) + k * d))


def all_visible(widths):
    return forall(0, Q.seq_len(widths), lambda j: Q.seq_get(widths, j) > 0)


def columns_wf(s):
    return both(pile_ri(s), 0 <= s.dividechars, s.dividechars < PARTMAX, n_items(s) < 2**20)


def size_ok(size):
    return both(*[both(1 <= x, x < DIMMAX) for x in size])


def sizes_of(s, size, focus):
    """(widths, heights, size arguments) as the container's own helper reports them."""
    return GCS.spec_value(s, size=size, focus=focus)


def drawn_rows(s, geo, i, focus):
    """Rows of the canvas child i renders at its size argument (formula, no fork)."""
    st = cur()
    W = PROTOCOLS["Widget"]
    k, c, r = Q.seq_get(geo[2].raw, i)
    child = item_at(s, i)[0]
    foc = both(focus, s._contents._focus == i)
    rows1 = W.call_quiet(st, child, "rows", dict(size=(c,), focus=foc))
    pack0 = W.call_quiet(st, child, "pack", dict(size=(), focus=foc))
    return ite(k == 2, r, ite(k == 1, rows1, pack0[1]))


# ================================================================================================ rows


@contract(CO + "Columns.rows", property=("C01", "C09"), inline=INL, replayable=False)
class columns_rows:
    """rows = max(1, rows of the tallest child as drawn)."""

    self_shape = COLUMNS
    params = dict(size=SIZE, focus=Bool)
    result = Int
    invariant = staticmethod(pile_ri)

    def requires(s, a):
        geo = sizes_of(s, a.size, a.focus)
        return both(columns_wf(s), size_ok(a.size), all_visible(geo[0]))

    def ensures(old, s, a, result):
        geo = sizes_of(old, a.size, a.focus)
        m = Q.seq_len(geo[0])
        yield "at-least-one-row", result >= 1
        yield "no-child-needs-more", forall(0, m, lambda i: result >= drawn_rows(old, geo, i, a.focus))
        yield "the-tallest-child-or-one", either(result == 1, neg(forall(0, m, lambda i: neg(result == drawn_rows(old, geo, i, a.focus)))))


# ================================================================================================ get_cursor_coords


def _focus_visible(s, geo):
    """Fit precondition on the focus column: if it is displayed at all it has a positive width."""
    fp = s._contents._focus
    return implies(both(0 <= fp, fp < Q.seq_len(geo[0])), Q.seq_get(geo[0], fp) > 0)


def gen_sum_is_X(rec, widths, d, upto):
    """The sum the code computed with a filtered generator over widths[:upto] is X(upto):
    (1) obligation: its summand at every k < upto is X's summand; (2) then, by lemma
    `pointwise-equal-prefix-sums` (both are prefix sums from 0), the sums are equal."""
    pointwise = forall(0, upto, lambda k: rec.term(k) == ite(Q.seq_get(widths, k) > 0, Q.seq_get(widths, k) + d, 0))
    yield "the-summed-terms-are-width-plus-divider-of-the-visible-columns", pointwise
    cur().assume(implies(both(0 <= upto, upto <= Q.seq_len(widths)), rec.G(upto) == X(upto)))


@contract(CO + "Columns.get_cursor_coords", property="C09", inline=INL, replayable=False)
class columns_gcc:
    """(i) the reported cursor is the focus child's, shifted right by X(focus)."""

    self_shape = COLUMNS
    params = dict(size=SIZE)
    result = Opt(Tup(Int, Int))
    invariant = staticmethod(pile_ri)
    raises = (IndexError,)

    def requires(s, a):
        geo = sizes_of(s, a.size, True)
        return both(columns_wf(s), size_ok(a.size), _focus_visible(s, geo))

    def on_raise(old, s, a, exc):
        yield "only-an-empty-container-has-no-focus", n_items(old) == 0

    def ensures(old, s, a, result):
        st = cur()
        W = PROTOCOLS["Widget"]
        yield "non-empty", n_items(old) > 0
        fp = old._contents._focus
        w = item_at(old, fp)[0]
        geo = sizes_of(old, a.size, True)
        widths = geo[0]
        if not W.call_quiet(st, w, "selectable", {}):
            yield "unselectable-focus-child-reports-none", is_none(result)
        elif not W.hasattr(None, st, w, "get_cursor_coords"):
            yield "no-cursor-protocol", is_none(result)
        elif Q.seq_len(widths) <= fp:
            yield "focus-column-not-displayed", is_none(result)
        else:
            for rec in st.ghost.get("gen_sums", []):
                yield from gen_sum_is_X(rec, widths, old.dividechars, fp)
            cs = Q.seq_get(geo[2], fp)
            cc = W.call_quiet(st, w, "get_cursor_coords", dict(size=cs))
            yield "child-cursor-shifted-by-the-columns-to-its-left", opt_eq_shift(result, cc, X(fp), 0)
        yield "nothing-written", both(s._contents._focus == fp, n_items(s) == n_items(old))


# ================================================================================================ get_pref_col


@contract(CO + "Columns.get_pref_col", property="C09", inline=INL, replayable=False)
class columns_pref_col:
    """The preferred column is the focus child's, shifted right by X(focus) (same translation as the cursor)."""

    self_shape = COLUMNS
    params = dict(size=SIZE)
    result = Opt(Int)
    invariant = staticmethod(pile_ri)
    raises = (IndexError,)

    def requires(s, a):
        geo = sizes_of(s, a.size, True)
        return both(columns_wf(s), size_ok(a.size), all_visible(geo[0]))

    def on_raise(old, s, a, exc):
        yield "only-an-empty-container-has-no-focus", n_items(old) == 0

    def ensures(old, s, a, result):
        st = cur()
        W = PROTOCOLS["Widget"]
        yield "non-empty", n_items(old) > 0
        fp = old._contents._focus
        w = item_at(old, fp)[0]
        geo = sizes_of(old, a.size, True)
        widths = geo[0]
        if Q.seq_len(widths) <= fp:
            yield "focus-column-not-displayed", eq(result, 0)
            return
        x_all_visible(widths, old.dividechars, fp)
        cs = Q.seq_get(geo[2], fp)
        child = W.call_quiet(st, w, "get_pref_col", dict(size=cs)) if W.hasattr(None, st, w, "get_pref_col") else None
        if not is_none(child):
            yield "childs-preferred-column-shifted-by-the-columns-to-its-left", eq(result, val(child) + X(fp))
        elif not is_none(old.pref_col):
            yield "else-the-remembered-column", eq(result, val(old.pref_col))
        elif W.call_quiet(st, w, "selectable", {}):
            yield "else-the-middle-of-the-focus-column", eq(result, X(fp) + Q.seq_get(widths, fp) // 2)
        else:
            yield "else-none", is_none(result)
        yield "nothing-written", both(s._contents._focus == fp, n_items(s) == n_items(old), opt_same(s.pref_col, old.pref_col))
