"""C09 / C01 / C08 — Columns: rows, render, get_cursor_coords, move_cursor_to_coords, mouse_event and
get_pref_col against ONE shared geometry, children abstract ("for every child honouring the widget protocol").

The geometry (what `Columns.render` draws): with (w_0 .. w_{m-1}) the widths `get_column_sizes` reports and
d = dividechars, column j is *visible* iff w_j > 0 and is drawn at screen columns [X(j), X(j) + w_j), where

    X(0) = 0,   X(j+1) = X(j) + (w_j + d  if w_j > 0  else 0)

(the prefix sum of width + divider over the visible columns to the left).  The cells in [X(j)+w_j, X(j+1)) are
the divider after column j and belong to no child.  `X` is an uninterpreted function whose defining equations are
instantiated groundly at the indices in play (`x_unfold`); inductive facts about it are the lemmas at the end.
"""
import z3

from pyvc import seqs as Q
from pyvc import values as V
from pyvc.api import *
from pyvc.api import PROTOCOLS
from pyvc.values import cur, is_none, mk_bool, mk_int
from contracts.proto_widget import *
from contracts.C08_focus import CINL, CO, COLUMNS, col_gcs as GCS, item_at, n_items, pile_ri, size_is, _missing
from contracts.C09_geometry import calls, opt_eq_shift, opt_same

_X = z3.Function("columns$X", z3.IntSort(), z3.IntSort())
SIZE = Union(Tup(Int), Tup(Int, Int))
INL = CINL + ("urwid/widget/widget.py:Widget.selectable",)


def X(k):
    return mk_int(_X(V._z(k)))


def x_unfold(widths, d, j):
    """Definition of X at index j (0 <= j < m), plus the instances of lemma `columns-x-monotone` around j."""
    st = cur()
    m = Q.seq_len(widths)
    zj, zm = V._z(j), V._z(m)
    ok = z3.And(zj >= 0, zj < zm)
    wj = V._z(Q.seq_get(widths, j))
    st.assume(_X(z3.IntVal(0)) == 0)
    st.assume(z3.Implies(ok, _X(zj + 1) == _X(zj) + z3.If(wj > 0, wj + V._z(d), 0)))
    st.assume(z3.Implies(ok, z3.And(_X(zj) >= 0, _X(zj) <= _X(zj + 1), _X(zj + 1) <= _X(zm))))


def x_mono(m, a, b):
    """Instance of lemma `columns-x-monotone` (a prefix sum of non-negative terms never decreases) at a <= b."""
    za, zb = V._z(a), V._z(b)
    cur().assume(z3.Implies(z3.And(0 <= za, za <= zb, zb <= V._z(m)), _X(za) <= _X(zb)))
    cur().assume(_X(z3.IntVal(0)) == 0)


def x_all_visible(widths, d, k):
    """Lemma `columns-x-linear` at k: when the columns below k are all visible, X(k) = w_0 + .. + w_{k-1} + k*d."""
    st = cur()
    vis = True if st.ghost.get("columns_all_visible") else forall(0, k, lambda j: Q.seq_get(widths, j) > 0)
    st.assume(implies(both(0 <= k, k <= Q.seq_len(widths), vis), X(k) == widths.psum(k) + k * d))


def fit_setup(st, self_obj, vals):
    """The fit precondition `all_visible` (for all i < m: w_i > 0) is not put into the path condition as a
    quantified formula while the body is verified: it is instantiated at every index of the widths that is read
    (C08_focus.col_gcs.apply).  As a call-site precondition (`requires` of a callee) it stays the quantified formula."""
    st.ghost["columns_all_visible"] = True
    ghost_setup(st, self_obj, vals)


def ghost_setup(st, self_obj, vals):
    st.ghost["any_column"] = st.fresh_int("any_column")  # a universally quantified column index for the postconditions


def all_visible(widths):
    if cur().ghost.get("columns_all_visible"):
        return True
    return forall(0, Q.seq_len(widths), lambda j: Q.seq_get(widths, j) > 0)


def columns_wf(s):
    return both(pile_ri(s), 0 <= s.dividechars, s.dividechars < PARTMAX, n_items(s) < 2**20)


def size_ok(size):
    return both(*[both(1 <= x, x < DIMMAX) for x in size])


def sizes_of(s, size, focus):
    """(widths, heights, size arguments) as the container's own helper reports them."""
    return GCS.spec_value(s, size=size, focus=focus)


def drawn_rows(s, geo, i, focus):
    """Rows of the canvas child i renders at its size argument (formula, no fork)."""
    st = cur()
    W = PROTOCOLS["Widget"]
    k, c, r = Q.seq_get(geo[2].raw, i)
    child = item_at(s, i)[0]
    foc = both(focus, s._contents._focus == i)
    rows1 = W.call_quiet(st, child, "rows", dict(size=(c,), focus=foc))
    pack0 = W.call_quiet(st, child, "pack", dict(size=(), focus=foc))
    return ite(k == 2, r, ite(k == 1, rows1, pack0[1]))


# ================================================================================================ rows


@contract(CO + "Columns.rows", property=("C01", "C09"), inline=INL, replayable=False)
class columns_rows:
    """rows = max(1, rows of the tallest child as drawn)."""

    self_shape = COLUMNS
    params = dict(size=SIZE, focus=Bool)
    result = Int
    invariant = staticmethod(pile_ri)
    setup = staticmethod(fit_setup)

    def requires(s, a):
        geo = sizes_of(s, a.size, a.focus)
        return both(columns_wf(s), size_ok(a.size), all_visible(geo[0]))

    def ensures(old, s, a, result):
        geo = sizes_of(old, a.size, a.focus)
        m = Q.seq_len(geo[0])
        yield "at-least-one-row", result >= 1
        yield "no-child-needs-more", forall(0, m, lambda i: result >= drawn_rows(old, geo, i, a.focus))
        yield "the-tallest-child-or-one", either(result == 1, neg(forall(0, m, lambda i: neg(result == drawn_rows(old, geo, i, a.focus)))))


# ================================================================================================ get_cursor_coords


def _focus_visible(s, geo):
    """Fit precondition on the focus column: if it is displayed at all it has a positive width."""
    fp = s._contents._focus
    return implies(both(0 <= fp, fp < Q.seq_len(geo[0])), Q.seq_get(geo[0], fp) > 0)


def gen_sum_is_X(rec, widths, d, upto):
    """The sum the code computed with a filtered generator over widths[:upto] is X(upto):
    (1) obligation: its summand at every k < upto is X's summand; (2) then, by lemma
    `pointwise-equal-prefix-sums` (both are prefix sums from 0), the sums are equal."""
    pointwise = forall(0, upto, lambda k: rec.term(k) == ite(Q.seq_get(widths, k) > 0, Q.seq_get(widths, k) + d, 0))
    yield "the-summed-terms-are-width-plus-divider-of-the-visible-columns", pointwise
    cur().assume(implies(both(0 <= upto, upto <= Q.seq_len(widths)), rec.G(upto) == X(upto)))


@contract(CO + "Columns.get_cursor_coords", property="C09", inline=INL, replayable=False)
class columns_gcc:
    """(i) the reported cursor is the focus child's, shifted right by X(focus)."""

    self_shape = COLUMNS
    params = dict(size=SIZE)
    result = Opt(Tup(Int, Int))
    invariant = staticmethod(pile_ri)
    raises = ()

    def requires(s, a):
        geo = sizes_of(s, a.size, True)
        return both(columns_wf(s), size_ok(a.size), _focus_visible(s, geo))

    def ensures(old, s, a, result):
        st = cur()
        W = PROTOCOLS["Widget"]
        if n_items(old) == 0:
            yield "an-empty-container-has-no-cursor", is_none(result)
            return
        fp = old._contents._focus
        w = item_at(old, fp)[0]
        geo = sizes_of(old, a.size, True)
        widths = geo[0]
        if not W.call_quiet(st, w, "selectable", {}):
            yield "unselectable-focus-child-reports-none", is_none(result)
        elif not W.hasattr(None, st, w, "get_cursor_coords"):
            yield "no-cursor-protocol", is_none(result)
        elif Q.seq_len(widths) <= fp:
            yield "focus-column-not-displayed", is_none(result)
        else:
            for rec in st.ghost.get("gen_sums", []):
                yield from gen_sum_is_X(rec, widths, old.dividechars, fp)
            cs = Q.seq_get(geo[2], fp)
            cc = W.call_quiet(st, w, "get_cursor_coords", dict(size=cs))
            yield "child-cursor-shifted-by-the-columns-to-its-left", opt_eq_shift(result, cc, X(fp), 0)
        yield "nothing-written", both(s._contents._focus == fp, n_items(s) == n_items(old))


# ================================================================================================ get_pref_col


@contract(CO + "Columns.get_pref_col", property="C09", inline=INL, replayable=False)
class columns_pref_col:
    """The preferred column is the focus child's, shifted right by X(focus) (same translation as the cursor)."""

    self_shape = COLUMNS
    params = dict(size=SIZE)
    result = Opt(Int)
    invariant = staticmethod(pile_ri)
    raises = ()
    setup = staticmethod(fit_setup)

    def requires(s, a):
        geo = sizes_of(s, a.size, True)
        return both(columns_wf(s), size_ok(a.size), all_visible(geo[0]))

    def ensures(old, s, a, result):
        st = cur()
        W = PROTOCOLS["Widget"]
        if n_items(old) == 0:
            yield "an-empty-container-has-no-preferred-column", is_none(result)
            return
        fp = old._contents._focus
        w = item_at(old, fp)[0]
        geo = sizes_of(old, a.size, True)
        widths = geo[0]
        if Q.seq_len(widths) <= fp:
            yield "focus-column-not-displayed", eq(result, 0)
            return
        x_all_visible(widths, old.dividechars, fp)
        cs = Q.seq_get(geo[2], fp)
        child = W.call_quiet(st, w, "get_pref_col", dict(size=cs)) if W.hasattr(None, st, w, "get_pref_col") else None
        if not is_none(child):
            yield "childs-preferred-column-shifted-by-the-columns-to-its-left", eq(result, val(child) + X(fp))
        elif not is_none(old.pref_col):
            yield "else-the-remembered-column", eq(result, val(old.pref_col))
        elif W.call_quiet(st, w, "selectable", {}):
            yield "else-the-middle-of-the-focus-column", eq(result, X(fp) + Q.seq_get(widths, fp) // 2)
        else:
            yield "else-none", is_none(result)
        yield "nothing-written", both(s._contents._focus == fp, n_items(s) == n_items(old), opt_same(s.pref_col, old.pref_col))


# ================================================================================================ mouse_event


def hit(widths, j, col):
    """Cell column `col` lies in the columns where child j is drawn."""
    return both(0 <= j, j < Q.seq_len(widths), X(j) <= col, col < X(j) + Q.seq_get(widths, j))


def _mouse_loop(v):
    """Columns 0 .. i-1 lie entirely to the left of the cell; nothing has been delivered or changed yet."""
    st = cur()
    i = v.i_
    old = v.old.self
    widths = v.widths
    m = Q.seq_len(widths)
    d = old.dividechars
    J = st.ghost["any_column"]
    x_unfold(widths, d, i - 1)
    x_unfold(widths, d, i)
    x_unfold(widths, d, J)
    x_mono(m, i, J)
    x_mono(m, i + 1, J)
    yield "x-is-the-left-edge-of-column-i", v.x == X(i)
    yield "cell-is-right-of-the-columns-passed", implies(i > 0, v.col >= v.x - d)
    yield "cell-is-right-of-any-visible-column-passed", implies(both(0 <= J, J < i, Q.seq_get(widths, J) > 0), v.col >= X(J) + Q.seq_get(widths, J))
    yield "focus-flag-untouched", eq(v.focus, v.at_entry.focus)
    yield "nothing-delivered-yet", len(calls("mouse_event")) == 0
    yield "focus-not-moved-yet", both(v.self._contents._focus == old._contents._focus, n_items(v.self) == n_items(old), v.self.dividechars == d)


@contract(CO + "Columns.mouse_event", property=("C09", "C08"), inline=INL, replayable=False)
class columns_mouse:
    """(ii) a mouse event on a cell where child j is drawn goes to child j only, in child coordinates; a divider
    cell (or a cell right of the last column) reaches nobody; button-1 press on a selectable child focuses it.
    Hidden (zero-width) columns are skipped exactly as render skips them: no fit precondition is needed."""

    self_shape = COLUMNS
    params = dict(size=SIZE, event=Opaque("Key"), button=Int, col=Int, row=Int, focus=Bool)
    result = Bool
    invariant = staticmethod(pile_ri)
    setup = staticmethod(ghost_setup)

    def requires(s, a):
        return both(columns_wf(s), size_ok(a.size), 0 <= a.col, a.col < a.size[0], 0 <= a.row)

    def ensures(old, s, a, result):
        st = cur()
        W = PROTOCOLS["Widget"]
        geo = sizes_of(old, a.size, a.focus)
        widths = geo[0]
        m = Q.seq_len(widths)
        d = old.dividechars
        fp = old._contents._focus
        me = calls("mouse_event")
        j = st.ghost["any_column"]  # universally quantified: the clauses below hold for every column j
        x_unfold(widths, d, j)
        child = item_at(old, j)[0]
        here = hit(widths, j, a.col)
        has = W.hasattr(None, st, child, "mouse_event")
        sel = W.call_quiet(st, child, "selectable", {})
        press1 = both(is_press(a.event), a.button == 1)
        nowhere = lambda: forall(0, m, lambda k: neg(hit(widths, k, a.col)))  # noqa: E731
        yield "at-most-one-child-is-called", len(me) <= 1
        if me:
            recv, v, res = me[0][1], me[0][3], me[0][4]
            yield "delivered-to-the-child-drawn-at-that-cell-in-its-coordinates", implies(
                here, both(eq(recv, child), size_is(v["size"], Q.seq_get(geo[2].raw, j)), v["col"] == a.col - X(j), v["row"] == a.row, v["button"] == a.button,
                           eq(v["event"], a.event), eq(v["focus"], both(a.focus, j == fp)), eq(result, res)))
            yield "delivered-only-to-a-child-drawn-there", neg(nowhere())
        else:
            yield "nobody-called-only-on-a-divider-or-a-child-without-handler", both(implies(here, neg(has)), result == False)  # noqa: E712
        yield "button-1-press-on-a-selectable-child-focuses-it", implies(both(here, press1, sel), s._contents._focus == j)
        yield "otherwise-the-focus-stays", both(implies(both(here, neg(both(press1, sel))), s._contents._focus == fp),
                                                implies(nowhere(), s._contents._focus == fp))
        yield "contents-untouched", n_items(s) == n_items(old)

    loops = {0: Loop(invariant=_mouse_loop)}


# ================================================================================================ move_cursor_to_coords

BEST = Opt(Tup(Int, Int, Int, Opaque("Widget")))


def _sel(s, j):
    return PROTOCOLS["Widget"].call_quiet(cur(), item_at(s, j)[0], "selectable", {})


def _col_kind(col):
    return "int" if V.is_num(col) else col


def _mctc_loop(v):
    """`best` is the last selectable column passed (none: no column passed is selectable); for a numeric `col` the
    cell lies right of it; x is the left edge of column i; nothing has been asked or written yet."""
    st = cur()
    i = v.i_
    old = v.old.self
    widths = v.widths
    m = Q.seq_len(widths)
    d = old.dividechars
    J = st.ghost["any_column"]
    kind = _col_kind(v.col)
    for k in (i - 1, i, J):
        x_unfold(widths, d, k)
    for a_, b_ in ((i, J), (i + 1, J), (J + 1, i)):
        x_mono(m, a_, b_)
    yield "x-is-the-left-edge-of-column-i", v.x == X(i)
    yield "nothing-asked-or-written-yet", both(len(calls("move_cursor_to_coords")) == 0, v.self._contents._focus == old._contents._focus,
                                               n_items(v.self) == n_items(old), opt_same(v.self.pref_col, old.pref_col), v.self.dividechars == d)
    best = v.best
    if is_none(best):
        yield "no-selectable-column-passed", implies(both(0 <= J, J < i), neg(_sel(old, J)))
    else:
        b, bx, bend, bw = val(best)
        x_unfold(widths, d, b)
        for a_, b_ in ((J + 1, b + 1), (b + 1, J), (b + 1, i)):
            x_mono(m, a_, b_)
        yield "best-is-a-selectable-column-passed", both(0 <= b, b < i, _sel(old, b), bx == X(b), bend == X(b) + Q.seq_get(widths, b), eq(bw, item_at(old, b)[0]))
        yield "best-is-the-last-one", implies(both(b < J, J < i), neg(_sel(old, J)))
        if kind == "int":
            yield "cell-is-right-of-best", v.col >= bend
        elif kind == "left":
            yield "leftmost-stops-at-the-first", False


def _field(x):
    return x


@contract(CO + "Columns.move_cursor_to_coords", property=("C09", "C08"), inline=INL, replayable=False)
class columns_mctc:
    """(iii) picks a selectable column by Columns' rule -- the column under the cell if it is selectable, else the
    nearest selectable one (ties to the right), leftmost / rightmost for 'left' / 'right' -- and succeeds exactly
    when that child accepts the translated (clamped) cell; on success the focus is there."""

    self_shape = COLUMNS
    params = dict(size=SIZE, col=Union(Int, Const("left"), Const("right")), row=Int)
    result = Bool
    invariant = staticmethod(pile_ri)
    setup = staticmethod(fit_setup)

    def requires(s, a):
        geo = sizes_of(s, a.size, True)
        cell = both(0 <= a.col, a.col < a.size[0]) if V.is_num(a.col) else True
        return both(columns_wf(s), size_ok(a.size), all_visible(geo[0]), cell, 0 <= a.row)

    def ensures(old, s, a, result):
        st = cur()
        W = PROTOCOLS["Widget"]
        geo = sizes_of(old, a.size, True)
        widths = geo[0]
        m = Q.seq_len(widths)
        d = old.dividechars
        fp = old._contents._focus
        J = st.ghost["any_column"]  # universally quantified column index
        inJ = both(0 <= J, J < m)
        x_unfold(widths, d, J)
        mv = calls("move_cursor_to_coords")
        loc = st.ghost["exit_locals"]
        kind = _col_kind(a.col)
        unchanged = both(s._contents._focus == fp, opt_same(s.pref_col, old.pref_col))
        yield "contents-untouched", n_items(s) == n_items(old)
        yield "at-most-one-child-is-asked", len(mv) <= 1
        if is_none(loc["best"]):
            yield "only-without-a-selectable-column-nothing-is-chosen", both(implies(inJ, neg(_sel(old, J))), result == False, len(mv) == 0, unchanged)  # noqa: E712
            return
        c = loc["i"]  # the chosen column (witness of "there is a column c such that")
        x_unfold(widths, d, c)
        for a_, b_ in ((J + 1, c), (c + 1, J), (J + 1, c + 1)):
            x_mono(m, a_, b_)
        child = item_at(old, c)[0]
        wc = Q.seq_get(widths, c)
        yield "chosen-column-is-displayed-and-selectable", both(0 <= c, c < m, _sel(old, c))
        other = both(inJ, _sel(old, J), neg(J == c))
        if kind == "int":
            endc, endJ = X(c) + wc, X(J) + Q.seq_get(widths, J)
            yield "a-cell-on-a-selectable-child-picks-that-child", implies(both(hit(widths, J, a.col), _sel(old, J)), c == J)
            yield "chosen-on-the-left-is-strictly-nearest", implies(both(endc <= a.col, other, c < J), both(X(J) > a.col, a.col - endc < X(J) - a.col))
            yield "chosen-on-the-right-is-nearest", implies(both(a.col < X(c), other, J < c), both(endJ <= a.col, a.col - endJ >= X(c) - a.col))
        elif kind == "left":
            yield "leftmost-selectable-column", implies(other, J > c)
        else:
            yield "rightmost-selectable-column", implies(other, J < c)
        k_, c_, _r = Q.seq_get(geo[2].raw, c)
        rows_c = ite(k_ == 1, W.call_quiet(st, child, "rows", dict(size=(c_,), focus=True)), W.call_quiet(st, child, "pack", dict(size=(), focus=True))[1])
        has = W.hasattr(None, st, child, "move_cursor_to_coords")
        if both(k_ < 2, a.row >= rows_c):
            yield "a-row-below-a-short-column-is-refused-without-asking", both(len(mv) == 0, result == False, unchanged)  # noqa: E712
        elif not has:
            yield "no-cursor-protocol-succeeds-without-asking", both(len(mv) == 0, result == True)  # noqa: E712
        else:
            yield "chosen-child-is-asked-once", len(mv) == 1
            if mv:
                recv, v, res = mv[0][1], mv[0][3], mv[0][4]
                want_x = imin(imax(0, a.col - X(c)), wc - 1) if kind == "int" else a.col
                yield "translated-cell", both(eq(recv, child), size_is(v["size"], Q.seq_get(geo[2].raw, c)), eq(v["col"], want_x), v["row"] == a.row)
                yield "succeeds-iff-child-accepts", eq(result, res)
        if result:
            yield "on-success-focus-and-preferred-column-follow", both(s._contents._focus == c, eq(s.pref_col, a.col))
        else:
            yield "on-refusal-nothing-changes", unchanged

    loops = {0: Loop(invariant=_mctc_loop, shapes={"best": BEST})}


# ================================================================================================ render

_R = z3.Function("columns$R", z3.IntSort(), z3.IntSort())


def R(k):
    """R(k): rows of the tallest visible column below k as drawn (0 if none).  R(0) = 0,
    R(j+1) = max(R(j), rows child j draws at its size argument if w_j > 0 else 0)."""
    return mk_int(_R(V._z(k)))


def r_unfold(s, geo, focus, j):
    """Definition of R at j, plus the instances of lemma `columns-r-monotone` (a running maximum never decreases)."""
    st = cur()
    m = Q.seq_len(geo[0])
    zj, zm = V._z(j), V._z(m)
    ok = z3.And(zj >= 0, zj < zm)
    t = ite(Q.seq_get(geo[0], j) > 0, drawn_rows(s, geo, j, focus), 0)
    st.assume(_R(z3.IntVal(0)) == 0)
    st.assume(z3.Implies(ok, _R(zj + 1) == V._z(imax(R(j), t))))
    st.assume(z3.Implies(ok, z3.And(_R(zj) >= 0, _R(zj + 1) <= _R(zm))))


def _last_divider(widths, d, i):
    """The last displayed column carries no divider: what X(i) counts too much once the loop is through."""
    m = Q.seq_len(widths)
    return ite(both(i == m, m > 0, Q.seq_get(widths, m - 1) > 0), d, 0)


def _focus_cursor(s, geo, focus, upto):
    """(shown, x, y): the cursor the focus child's canvas contributes to the join -- it is rendered with focus, is
    displayed below `upto` with a positive width, and its cursor lies inside the width given to it."""
    st = cur()
    W = PROTOCOLS["Widget"]
    widths = geo[0]
    m = Q.seq_len(widths)
    fp = s._contents._focus
    d = s.dividechars
    if not both(0 <= fp, fp < m, fp < upto):
        return False, 0, 0
    canv = W.call_quiet(st, item_at(s, fp)[0], "render", dict(size=Q.seq_get(geo[2], fp), focus=focus))
    cu = canv.cursor
    given = Q.seq_get(widths, fp) + ite(fp < m - 1, d, 0)
    return both(focus, Q.seq_get(widths, fp) > 0, neg(mk_bool(cu.isnone)), cu.val[0] < given), cu.val[0], cu.val[1]


def _render_loop(v):
    """The list built so far joins to: width X(i) (less the last divider), height R(i), the focus child's cursor."""
    st = cur()
    i = v.i_
    old = v.old.self
    focus = v.old.focus
    geo = (v.widths, None, v.size_args)
    widths = v.widths
    d = old.dividechars
    fp = old._contents._focus
    for k in (i - 1, i):
        x_unfold(widths, d, k)
        r_unfold(old, geo, focus, k)
    fo = JoinFold.of(v.data)
    yield "joined-width-is-the-left-edge-of-column-i", fo["cols"] == X(i) - _last_divider(widths, d, i)
    yield "empty-iff-nothing-visible-yet", both(fo["n"] >= 0, eq(fo["n"] == 0, X(i) == 0))
    yield "joined-height-is-the-tallest-column-so-far", fo["rows"] == R(i)
    yield "every-part-fits-its-width", fo["ok"]
    shown, cx, cy = _focus_cursor(old, geo, focus, i)
    yield "cursor-so-far-is-the-focus-childs-shifted", both(eq(fo["has"], shown), implies(shown, both(fo["cx"] == cx + X(fp), fo["cy"] == cy)))
    yield "cursor-so-far-lies-inside-the-join", implies(fo["has"], both(0 <= fo["cx"], fo["cx"] < fo["cols"], 0 <= fo["cy"], fo["cy"] < fo["rows"]))
    mark = v.trace_mark_
    if mark is not None:
        rc = [e for e in st.trace[mark:] if e[0] == "call" and e[2] == "render"]
        yield "only-the-focus-child-is-rendered-with-focus", both(len(rc) <= 1, *[eq(e[3]["focus"], both(focus, fp == i - 1)) for e in rc])
    yield "self-untouched", both(v.self._contents._focus == fp, n_items(v.self) == n_items(old), v.self.dividechars == d, eq(v.focus, focus))


@contract(CO + "Columns.render", property=("C09", "C01", "C08"), inline=INL, replayable=False)
class columns_render:
    """C01 (ii): the canvas is size[0] wide and as tall as the tallest column drawn; C09 (i): its cursor is the focus
    child's canvas cursor shifted right by X(focus); C08: only the focus child is rendered with focus."""

    self_shape = COLUMNS
    params = dict(size=SIZE, focus=Bool)
    result = CCANVAS
    invariant = staticmethod(pile_ri)
    setup = staticmethod(ghost_setup)

    def requires(s, a):
        geo = sizes_of(s, a.size, a.focus)
        m = Q.seq_len(geo[0])
        x_unfold(geo[0], s.dividechars, m - 1)
        # fit precondition: the displayed columns and their dividers fit the width (Columns.column_widths, C19)
        fits = X(m) - _last_divider(geo[0], s.dividechars, m) <= a.size[0]
        return both(columns_wf(s), size_ok(a.size), fits)

    def ensures(old, s, a, r):
        st = cur()
        geo = sizes_of(old, a.size, a.focus)
        widths = geo[0]
        m = Q.seq_len(widths)
        d = old.dividechars
        fp = old._contents._focus
        J = st.ghost["any_column"]
        x_unfold(widths, d, m - 1)
        r_unfold(old, geo, a.focus, m - 1)
        yield "width", r.ncols == a.size[0]
        if X(m) == 0:
            yield "nothing-visible-a-blank-canvas", both(r.nrows == (a.size[1] if len(a.size) == 2 else 1), mk_bool(r.cursor.isnone))
            return
        if len(a.size) == 1:
            # C01: flow sizing yields exactly the rows the widget's own rows() reports, and Columns.rows() is
            # max(1, tallest column) (columns_rows: at-least-one-row / no-child-needs-more / the-tallest-child-or-one).
            # failed before fix: commit de488a0: Columns([BoxAdapter(SolidFill('x'), 0)]): rows((5,)) == 1 but
            # render((5,)).rows() == 0 (every visible column drew 0 rows; was bounded known finding C08-KF4)
            yield "flow-height-is-what-rows()-reports", r.nrows == imax(1, R(m))
        else:
            yield "height-is-the-tallest-column-drawn", r.nrows == R(m)
        r_unfold(old, geo, a.focus, J)
        yield "no-column-is-cut-short", implies(both(0 <= J, J < m, Q.seq_get(widths, J) > 0), r.nrows >= drawn_rows(old, geo, J, a.focus))
        shown, cx, cy = _focus_cursor(old, geo, a.focus, m)
        yield "cursor-is-the-focus-childs-shifted-by-the-columns-to-its-left", both(
            eq(neg(mk_bool(r.cursor.isnone)), shown), implies(shown, both(r.cursor.val[0] == cx + X(fp), r.cursor.val[1] == cy)))
        yield "nothing-written", both(s._contents._focus == fp, n_items(s) == n_items(old))

    loops = {0: Loop(invariant=_render_loop, shapes={"data": JoinList()})}


# ================================================================================================ lemmas
#
# Inductive facts about the spec functions, proved as base + step; instantiated (never assumed as axioms of their own)
# by x_unfold / x_mono / x_all_visible / gen_sum_is_X / r_unfold above.


@lemma("columns-x-monotone", property="C09")
class columns_x_monotone:
    """P(b) := X(a) <= X(b) for a <= b, and X(b) >= 0.  X(b+1) = X(b) + t with t = (w + d if w > 0 else 0) >= 0."""

    params = dict(w=Int, d=Int, xa=Int, xb=Int)

    def requires(x):
        return both(x.w >= 0, x.d >= 0, x.xa <= x.xb, x.xa >= 0)  # induction hypothesis X(a) <= X(b), X(a) >= 0

    def claim(x):
        t = ite(x.w > 0, x.w + x.d, 0)
        yield "base", both(x.xa <= x.xa, 0 <= 0)
        yield "step", both(x.xa <= x.xb + t, x.xb + t >= 0)


@lemma("columns-x-linear", property="C09")
class columns_x_linear:
    """P(k) := X(k) = psum(k) + k*d when w_j > 0 for all j < k.  Step: X(k+1) = X(k) + w + d, psum(k+1) = psum(k) + w."""

    params = dict(k=Int, w=Int, d=Int, xk=Int, pk=Int)

    def requires(x):
        return both(x.k >= 0, x.w > 0, x.xk == x.pk + x.k * x.d)

    def claim(x):
        yield "base", 0 == 0 + 0 * x.d
        yield "step", x.xk + ite(x.w > 0, x.w + x.d, 0) == (x.pk + x.w) + (x.k + 1) * x.d


@lemma("pointwise-equal-prefix-sums", property="C09")
class pointwise_equal_prefix_sums:
    """P(k) := G(k) = F(k) for two prefix sums from 0 whose summands agree below k."""

    params = dict(gk=Int, fk=Int, tg=Int, tf=Int)

    def requires(x):
        return both(x.gk == x.fk, x.tg == x.tf)

    def claim(x):
        yield "base", 0 == 0
        yield "step", x.gk + x.tg == x.fk + x.tf


@lemma("columns-r-monotone", property="C09")
class columns_r_monotone:
    """P(b) := 0 <= R(a) <= R(b) for a <= b.  R(b+1) = max(R(b), t)."""

    params = dict(ra=Int, rb=Int, t=Int)

    def requires(x):
        return both(0 <= x.ra, x.ra <= x.rb)

    def claim(x):
        yield "base", both(0 <= 0, x.ra <= x.ra)
        yield "step", both(x.ra <= imax(x.rb, x.t), imax(x.rb, x.t) >= 0)


# ---- the two engine models added for these contracts, compared with the plain encodings on lists whose length is
# symbolic but pinned (the plain encodings of max/min/sum/slices are cross-checked against CPython by XC)

_XK = "verif:spec/xcheck_cases.py:"


@contract(_XK + "x_max_min_star", property=("C09", "XC"), replayable=False)
class xc_max_min_star:
    params = dict(a=Int(-9, 40), items=ListOf(Int(-3, 9), max_len=4))
    result = Tup(Int, Int)

    def requires(a):
        return Q.seq_len(a.items) == 3

    def ensures(a, result):
        e = [Q.seq_get(a.items, j) for j in range(3)]
        yield "max-with-starred-list", result[0] == imax(a.a, *e)
        yield "min-with-starred-list", result[1] == imin(a.a, 7, *e)


@contract(_XK + "x_sum_filtered", property=("C09", "XC"), replayable=False)
class xc_sum_filtered:
    params = dict(items=ListOf(Int(-3, 9), max_len=4), d=Int(-3, 9), k=Int(-6, 6))
    result = Int

    def requires(a):
        return Q.seq_len(a.items) == 3

    def ensures(a, result):
        e = [Q.seq_get(a.items, j) for j in range(3)]
        for rec in cur().ghost.get("gen_sums", []):
            for j in range(3):
                rec.unfold(j)
        kk = ite(a.k < 0, imax(a.k + 3, 0), imin(a.k, 3))  # items[:k]
        want = 0
        for j in range(3):
            want = want + ite(both(j < kk, e[j] > 0), a.d + e[j], 0)
        yield "sum-of-the-filtered-mapped-slice", result == want
