"""C03 -- text layout structure, second file: LayoutSegment.subseg, trim_line, calc_coords, calc_line_pos, calc_pos,
StandardTextLayout.calculate_text_segments ('any' wrapping; 'clip' / 'ellipsis' = _calculate_trimmed_segments) on the
real functions of urwid/text_layout.py, over the abstract text model of contracts/C11_width.py (W = width prefix sums).
(contracts/C03_layout.py holds line_width, shift_line, align_layout, pack, layout and the primary LayoutSegment.__init__
contract; the contracts here on functions that file also covers are registered under an alias: verified against the
body, never used at other call sites -- the functions of this file reach the constructor contract through
`contract_overrides`.)  'space' wrapping stays with the bounded stand-in.

A layout is a list of lines; a line is a list of segments; a segment is one of
    (cols, offs | None)          padding / end-of-line marker ("removed character hint")
    (cols, offs, end_offs)       a run of the text  text[offs:end_offs]  shown in `cols` columns
    (cols, offs, bytes)          inserted text (the ellipsis mark)
modelled as a tagged union per list index (pyvc.seqs.fresh_seq, shape Union) whose first components carry a prefix-sum
model field (`colsum`).
"""
import z3

from pyvc import seqs as Q
from pyvc import values as V
from pyvc.api import *
from pyvc.values import cur, mk_bool, mk_int

TL = "urwid/text_layout.py:"

PAD = Tup(Int, Opt(Int))
RUN = Tup(Int, Int, Int)
SEG = Union(PAD, RUN)
LINE = ListOf(SEG)




# ---- spec helpers over lines (dual use where cheap: plain lists of tuples natively)

def _cases(e):
    return e.cases if isinstance(e, V.SCases) else [(z3.BoolVal(True), e)]


def seg_sel(e, fn):
    """fn(variant tuple) selected by the segment's variant, non-forking (fn returns ints / bools / optionals)."""
    if not isinstance(e, V.SCases):
        return fn(e)
    cs = e.cases
    r = fn(cs[-1][1])
    for g, v in reversed(cs[:-1]):
        r = ite(mk_bool(g), fn(v), r)
    return r


def seg_cols(e):
    return seg_sel(e, lambda t: t[0])


def seg_is_shift(e):
    """The segment is an (amount, None) pair: a shift when it leads a line."""
    return seg_sel(e, lambda t: both(len(t) == 2, opt_isnone(t[1])) if len(t) == 2 else False)


def seg_is_run(e):
    """(cols, offs, end_offs): a run of the text."""
    return seg_sel(e, lambda t: len(t) == 3 and V.is_num(t[2]))


def n_segs(line):
    return Q.seq_len(line)


def seg_at(line, j):
    return Q.seq_get(line, j)


def elem_is(line, j, tup):
    """line[j] exists and is the segment `tup` (non-forking; a list of concrete length is compared position by position)."""
    s = line.seq if isinstance(line, Q.LRef) else line
    if isinstance(s, (tuple, list)):
        return either(False, *[both(eq(j, k), V.struct_eq(s[k], tup)) for k in range(len(s))])
    return both(0 <= j, j < Q.seq_len(s), V.struct_eq(Q.seq_get(s, j), tup))


def colsum(line, k):
    """Sum of the columns of the first k segments of a line (prefix-sum model field of the list, component 0)."""
    if not V._current:
        return sum(s[0] for s in line[:k])
    f = Q.seq_cpsum(line, 0)
    if f is None:
        raise V.Unsupported("line without a column prefix-sum model")
    return f(k)


def has_shift(line):
    """The line starts with a shift (amount, None)."""
    n = n_segs(line)
    if isinstance(n, int):
        return n > 0 and seg_is_shift(seg_at(line, 0))
    return both(n > 0, seg_is_shift(seg_at(line, 0)))


def spec_line_width(line):
    """line_width's documentation: the columns of all segments, ignoring a leading shift."""
    n = n_segs(line)
    total = colsum(line, n)
    first = seg_cols(seg_at(line, 0))
    return ite(has_shift(line), total - first, total)


def same_from(res, k1, src, k0, callee=False):
    """res[k1:] == src[k0:] (same length, same segments in the same order).  As a proof goal: for an ARBITRARY index
    (universal generalisation, quantifier-free); as a fact at a call site: the quantified statement."""
    n = n_segs(src) - k0
    if not V._current:
        return list(res[k1:]) == list(src[k0:])
    if callee:
        return both(n_segs(res) - k1 == n, forall(0, n, lambda j: V.struct_eq(seg_at(res, k1 + j), seg_at(src, k0 + j)), check_empty=False))
    j = V.arbitrary("j")
    return both(n_segs(res) - k1 == n, implies(both(0 <= j, j < n), V.struct_eq(seg_at(res, k1 + j), seg_at(src, k0 + j))))


def _shift_ens(a, result, callee=False):
    segs, old = a.segs, a.old.segs
    k0 = ite(has_shift(old), 1, 0)
    total = a.amount + ite(has_shift(old), seg_cols(seg_at(old, 0)), 0)   # existing shift + requested shift
    k1 = ite(total != 0, 1, 0)
    yield "amount-is-an-int", isinstance(a.amount, (int, V.SInt))
    yield "columns-grow-by-exactly-the-amount", colsum(result, n_segs(result)) == colsum(old, n_segs(old)) + a.amount
    yield "one-leading-shift-holding-the-total-shift-or-none-when-zero", implies(total != 0, elem_is(result, 0, (total, None)))
    yield "every-other-segment-kept-in-order", same_from(result, k1, old, k0, callee)
    yield "argument-not-modified", same_from(segs, 0, old, 0, callee)


@contract(TL + "shift_line", property="C03", replayable=False, alias="layout2")
class shift_line:
    params = dict(segs=LINE, amount=Union(Int, Const(1.5)))  # 1.5: a representative of "not an int"
    result = LINE
    raises = (TypeError,)
    raises_iff = {TypeError: lambda a: not isinstance(a.amount, (int, V.SInt))}
    ensures = staticmethod(_shift_ens)
    ensures_callee = staticmethod(lambda a, result: _shift_ens(a, result, True))

    def on_raise(a, exc):
        yield "only-for-a-non-int-amount", not isinstance(a.amount, (int, V.SInt))


# ---- LayoutSegment

from urwid import text_layout as _tl  # noqa: E402
from pyvc.api import PROTOCOLS  # noqa: E402
from pyvc.protocol import Protocol  # noqa: E402


def _ins_nonempty(st, v):
    """Truth value of an inserted text (a bytes object): non-empty -- an uninterpreted predicate of the individual."""
    return mk_bool(z3.Function("InsText.nonempty", v.e.sort(), z3.BoolSort())(v.e))


class _InsTextProtocol(Protocol):
    """The third component of an inserted-text segment: some `bytes` object (the encoded ellipsis mark).  Opaque:
    only its type (bytes) and its truth value (non-empty or not) are observed by the functions under contract."""
    kind = "InsText"
    methods = {}

    def isinstance(self, ip, st, obj, cls):
        return issubclass(bytes, cls)


PROTOCOLS["InsText"] = _InsTextProtocol()
INSTEXT = Opaque("InsText", truth=_ins_nonempty)
INS = Tup(Int, Int, INSTEXT)
SEG3 = Union(PAD, RUN, INS)
LINE3 = ListOf(SEG3)

LSEG = Obj(_tl.LayoutSegment, dict(sc=Int, offs=Opt(Int), text=Opt(INSTEXT), end=Opt(Int)))

# what is not a segment: representatives of each way of being malformed (1.5: "not an int", None: "not a tuple")
BAD_SEGS = (Const(None), Tup(Int), Tup(Int, Int, Int, Int), Tup(Const(1.5), Opt(Int)), Tup(Const(1.5), Int, Int),
            Tup(Int, Const(1.5)), Tup(Int, Const(1.5), Int), Tup(Int, Opt(Int), Int), Tup(Int, Int, Const(1.5)), Tup(Int, Int, Const(None)))


def _isint(x):
    return isinstance(x, (int, V.SInt)) and not isinstance(x, V.SBool)


def _isint_f(x):
    """`isinstance(x, int)` as a formula for an optional int / a constant."""
    if isinstance(x, V.SOpt):
        return neg(mk_bool(x.isnone))
    return _isint(x)


def _isnone_f(x):
    return opt_isnone(x) if isinstance(x, V.SOpt) else x is None


def seg_errors(seg):
    """(type_error, value_error): formulas saying that `seg` is not a segment structure because of a component of
    the wrong type / of a wrong value.  Segment structures: (cols, offs | None) with cols >= 0 unless offs is None;
    (cols > 0, offs, end_offs); (cols > 0, offs, bytes).  Where both kinds of defect are present the constructor
    reports the one it meets first (arity, type of cols, then per arity: type of offs, value of cols, type of the
    third component) -- the order is the code's, the set of malformed values is the documentation's."""
    if not isinstance(seg, tuple):
        return True, False
    if len(seg) not in (2, 3):
        return False, True
    sc, offs = seg[0], seg[1]
    if not _isint(sc):
        return True, False
    if len(seg) == 3:
        t = seg[2]
        t_ok = _isint(t) or (isinstance(t, V.SOpaque) and t.kind == "InsText") or isinstance(t, bytes)
        oi = _isint_f(offs)
        return either(neg(oi), both(oi, sc > 0, not t_ok)), both(oi, sc <= 0)
    isn = _isnone_f(offs)
    return both(neg(isn), sc >= 0, neg(_isint_f(offs))), both(neg(isn), sc < 0)


def _lseg_ens(old, s, a, result):
    seg = a.seg
    te, ve = seg_errors(seg)
    yield "only-a-segment-structure-is-accepted", both(neg(te), neg(ve))
    if not isinstance(seg, tuple) or len(seg) not in (2, 3):
        return
    yield "columns-and-offset-are-the-segments", both(eq(s.sc, seg[0]), opt_eq(s.offs, seg[1]))
    if len(seg) == 3:
        t = seg[2]
        yield "shown-segments-have-columns", s.sc > 0
        if _isint(t):
            yield "text-run-keeps-its-end-and-has-no-inserted-text", both(opt_eq(s.end, t), _isnone_f(s.text))
        else:
            yield "inserted-text-kept-and-no-end", both(opt_eq(s.text, t), _isnone_f(s.end))
    else:
        yield "padding-has-neither-end-nor-inserted-text", both(_isnone_f(s.end), _isnone_f(s.text))
        yield "padding-with-an-offset-is-not-negative", implies(neg(_isnone_f(s.offs)), s.sc >= 0)


def _lseg_ens_callee(old, s, a, result):
    a = View(dict(a._d, seg=cur().force(a.seg)))  # at a call site the segment is an element of a line: split by variant
    yield from _lseg_ens(old, s, a, result)


def _lseg_raises(exc_cls):
    def cond(s, a):
        seg = cur().force(a.seg) if V._current else a.seg
        te, ve = seg_errors(seg)
        return te if exc_cls is TypeError else ve
    return cond


@contract(TL + "LayoutSegment.__init__", property="C03", replayable=False, alias="layout2")
class layout_segment_init:
    self_shape = LSEG
    constructs = LSEG
    ctor_params = ("seg",)
    params = dict(seg=Union(PAD, RUN, INS, *BAD_SEGS))
    raises = (TypeError, ValueError)
    raises_iff = {TypeError: _lseg_raises(TypeError), ValueError: _lseg_raises(ValueError)}
    modifies = ("sc", "offs", "text", "end")
    ensures = staticmethod(_lseg_ens)
    ensures_callee = staticmethod(_lseg_ens_callee)

    def on_raise(old, s, a, exc):
        te, ve = seg_errors(a.seg)
        if exc.cls is TypeError:
            yield "type-error-only-for-a-component-of-the-wrong-type", te
        else:
            yield "value-error-only-for-a-wrong-arity-or-column-count", ve


from contracts.C11_width import W, tlen  # noqa: E402  (the abstract text model: W(t, k) = columns of the first k characters)

TEXT = Text("str")


def run_ok(text, sc, offs, end):
    """A text run (sc, offs, end) of `text`: a slice of the text whose column count is the width of its characters."""
    return both(0 <= offs, offs <= end, end <= tlen(text), sc == W(text, end) - W(text, offs))


def lseg_wf(s, text):
    """The LayoutSegment object describes a segment of a line laid out for `text` (what the constructor accepts,
    plus: a run lies within the text and its columns are the width of its characters)."""
    is_run = neg(_isnone_f(s.end))
    offs_none = _isnone_f(s.offs)
    return both(
        implies(is_run, both(neg(offs_none), s.sc > 0, run_ok(text, s.sc, val(s.offs), val(s.end)))),
        implies(both(neg(is_run), neg(offs_none)), s.sc >= 0))



class Src:
    """A segment of the original line as the source of pieces: columns, offset (optional), end (0 for padding), and
    whether it is a run of the text."""
    def __init__(self, sc, offs, end, is_run):
        self.sc, self.offs, self.end, self.is_run = sc, offs, end, is_run


def src_of_obj(s):
    return Src(s.sc, s.offs, ite(_isnone_f(s.end), 0, val(s.end)) if isinstance(s.end, V.SOpt) else (s.end or 0), neg(_isnone_f(s.end)))


def src_of_seg(e):
    return Src(seg_cols(e), seg_sel(e, lambda t: t[1]), seg_sel(e, lambda t: t[2] if len(t) == 3 else 0), seg_is_run(e))


def piece(t, src, c, text):
    """Segment `t` of a trimmed line shows, starting at column `c` of the source segment `src`, what the source shows
    there:
      * part of a padding segment: padding with the same offset, within the source's columns;
      * part of a run (sc, o, e): a run (w, o', e') with o <= o' <= e' <= e whose first character has column c in
        the source -- so every character keeps its column -- or ONE column of padding (1, k) standing for the half
        of a character k of the run that is cut by the edge: the character ends right after this column
        (left edge) or starts at it (right edge)."""
    o = val(src.offs)
    e = src.end

    def fn(tt):
        if len(tt) == 2:
            w, k_opt = tt
            k = val(k_opt)
            from_pad = both(neg(src.is_run), opt_eq(k_opt, src.offs), 0 <= c, c + w <= src.sc)
            cut = False if k is None else both(src.is_run, neg(_isnone_f(k_opt)), w == 1, o <= k, k < e,
                                               either(W(text, k + 1) - W(text, o) == c + 1, W(text, k) - W(text, o) == c))
            return either(from_pad, cut)
        w, o2, e2 = tt
        return both(src.is_run, o <= o2, o2 <= e2, e2 <= e, W(text, o2) - W(text, o) == c)

    return seg_sel(t, fn)


def pieces_of(result, src, c0, text, callee):
    """Every segment q of `result` is a piece of `src` at column c0 + (columns of result before q)."""
    s_ = result.seq if isinstance(result, Q.LRef) else result
    if isinstance(s_, (tuple, list)):
        return both(True, *[piece(s_[q], src, c0 + colsum(result, q), text) for q in range(len(s_))])
    if callee:
        return forall(0, n_segs(result), lambda q: piece(seg_at(result, q), src, c0 + colsum(result, q), text), check_empty=False)
    q = V.arbitrary("piece")
    return implies(both(0 <= q, q < n_segs(result)), piece(seg_at(result, q), src, c0 + colsum(result, q), text))


def _subseg_witness(callee):
    st = cur()
    if callee:
        return tuple(st.fresh_int(n) for n in ("spos", "epos", "pad_left", "pad_right"))
    loc = st.ghost.get("exit_locals", {})
    if "spos" not in loc:
        return None
    return loc["spos"], loc["epos"], loc["pad_left"], loc["pad_right"]


def _subseg_ens(old, s, a, result, callee=False):
    t = a.text
    s0, e0 = imax(a.start, 0), imin(a.end, old.sc)     # the requested column range, clamped to the segment
    n = n_segs(result)
    yield "no-columns-left-gives-no-segments", implies(s0 >= e0, n == 0)
    yield "columns-are-exactly-the-clamped-range", implies(s0 < e0, colsum(result, n) == e0 - s0)
    is_run = neg(_isnone_f(old.end))
    yield "padding-is-cut-to-the-range-and-keeps-its-offset", implies(both(s0 < e0, neg(is_run)),
                                                                     both(n == 1, elem_is(result, 0, (e0 - s0, old.offs))))
    if callee or bool(both(s0 < e0, is_run)):
        # there are offsets spos <= epos and pad flags such that ... (witnesses: the function's own locals)
        wit = _subseg_witness(callee)
        if wit is None:
            yield "run-is-cut-at-character-boundaries", False
            return
        spos, epos, pl, pr = wit
        offs, end = val(old.offs), val(old.end)
        mid = e0 - s0 - pl - pr
        r = ite(mid > 0, 1, 0)
        yield "run-is-cut-at-character-boundaries", implies(both(s0 < e0, is_run), both(
            either(pl == 0, pl == 1), either(pr == 0, pr == 1), offs <= spos, spos <= epos, epos <= end,
            # the kept characters start at the first boundary at or after column s0 and end at the last one at or before
            # e0; a double-width character lying across an edge is replaced by one column of padding
            W(t, spos) - W(t, offs) == s0 + pl, W(t, epos) - W(t, offs) == e0 - pr))
        yield "result-is-left-pad-kept-run-right-pad", implies(both(s0 < e0, is_run), both(
            n == pl + r + pr,
            implies(pl == 1, elem_is(result, 0, (1, spos - 1))),
            implies(r == 1, elem_is(result, pl, (mid, spos, epos))),
            implies(pr == 1, elem_is(result, pl + r, (1, epos)))))
        yield "kept-run-is-a-run-of-the-text", implies(both(s0 < e0, is_run, r == 1), run_ok(t, mid, spos, epos))
    yield "each-result-segment-shows-part-of-this-segment-at-its-column", implies(s0 < e0, pieces_of(result, src_of_obj(old), s0, t, callee))


@contract(TL + "LayoutSegment.subseg", property="C03", replayable=False)
class layout_segment_subseg:
    self_shape = LSEG
    params = dict(text=TEXT, start=Int, end=Int)
    result = LINE
    raises = ()
    modifies = ()
    ensures = staticmethod(_subseg_ens)
    ensures_callee = staticmethod(lambda old, s, a, result: _subseg_ens(old, s, a, result, True))

    def requires(s, a):
        # inserted-text segments (cols, offs, bytes) are not covered: their bytes are cut by calc_trim_text, which is
        # under contract for str texts only (contracts/C11_width.py)
        return both(_isnone_f(s.text), lseg_wf(s, a.text))


# ---- layouts (lists of lines)

LAYOUT = ListOf(ListOf(SEG3))


def _row(layout, j):
    return Q.seq_get(layout, j)


def exists(lo, hi, fn):
    """Some integer j with lo <= j < hi satisfies fn(j) (dual of pyvc.values.forall, same treatment of side facts)."""
    return neg(forall(lo, hi, lambda j: neg(fn(j)), check_empty=False))


# ---- trim_line

def seg_ok(e, text, j):
    """Segment j of a line laid out for `text`: padding (cols >= 0, offs | None) -- only a leading shift (amount, None)
    may be negative --, or a run (cols > 0, offs, end) of the text whose columns are the width of its characters."""
    def ok(t):
        if len(t) == 2:
            return either(t[0] >= 0, both(j == 0, _isnone_f(t[1])))
        return both(t[0] > 0, run_ok(text, t[0], t[1], t[2]))
    return seg_sel(e, ok)


def line_wf(line, text, lo=0):
    return forall(lo, n_segs(line), lambda j: seg_ok(seg_at(line, j), text, j), check_empty=False)


@lemma("columns-prefix-sum-monotone", property="C03")
class cols_monotone:
    """A prefix sum of non-negative columns never decreases: P(b) := S(a) <= S(b) for a <= b, by induction on b
    (base b = a; step from the defining equation S(b+1) = S(b) + cols(b), cols(b) >= 0).  Used, instantiated, for the
    columns of the segments after a (possibly negative) leading shift."""
    params = dict(a=Int, b=Int, t=Int, sa=Int, sb=Int)

    def requires(x):
        return both(x.a <= x.b, x.t >= 0, x.sa <= x.sb)

    def claim(x):
        yield "base", x.sa <= x.sa
        yield "step", x.sa <= x.sb + x.t


def cols_mono(line, wf, a, b):
    """Instance of `columns-prefix-sum-monotone`: under the line's well-formedness `wf` (segments from index 1 on have
    non-negative columns), 1 <= a <= b <= len  =>  colsum(a) <= colsum(b)."""
    cur().assume(implies(both(wf, 1 <= a, a <= b, b <= n_segs(line)), colsum(line, a) <= colsum(line, b)))


def spec_trim_width(line, start, end):
    """Columns of the trimmed line: the part of [start, end) the line covers."""
    return imax(imin(end, colsum(line, n_segs(line))) - start, 0)


def shows_original(res, r, segs, upto, start0, text):
    """Segment r of the trimmed line is a piece of some original segment j < upto, at the column where it stands in
    the trimmed line plus `start0`, counted from where segment j starts in the original line."""
    y = colsum(res, r)
    return exists(0, upto, lambda j: piece(seg_at(res, r), src_of_seg(seg_at(segs, j)), y + start0 - colsum(segs, j), text))


def _trim_ens(a, result, callee=False):
    segs, t = a.old.segs, a.text
    n = n_segs(segs)
    wf = line_wf(segs, t)
    st = cur()
    if not callee:
        # instances of the monotonicity lemma at the indices in play: where the loop stopped, and the end of the line
        k = st.ghost.get("loop_index")
        if k is not None:
            cols_mono(segs, wf, k + 1, n)
            cols_mono(segs, wf, imax(k, 1), n)
    yield "columns-are-exactly-the-part-of-the-range-the-line-covers", colsum(result, n_segs(result)) == spec_trim_width(segs, a.start, a.end)   # (failed before /repo e099973: trim_line([(2,0,2),(2,2,4),(2,4,6)], 'abcdef', 0, 3) had 6 columns)
    if callee:
        yield "result-is-a-line-of-the-text", line_wf(result, t)
        yield "every-result-segment-shows-part-of-an-original-segment-at-its-column-minus-start", forall(
            0, n_segs(result), lambda r: shows_original(result, r, segs, n, a.start, t), check_empty=False)
    else:
        r = V.arbitrary("seg")
        yield "result-is-a-line-of-the-text", implies(both(0 <= r, r < n_segs(result)), seg_ok(seg_at(result, r), t, r))
        yield "every-result-segment-shows-part-of-an-original-segment-at-its-column-minus-start", implies(
            both(0 <= r, r < n_segs(result)), shows_original(result, r, segs, n, a.start, t))


def _trim_inv(v):
    segs, t = v.segs, v.text
    i, n = v.i_, n_segs(v.segs)
    start0 = v.old.start
    X = colsum(segs, i)
    res = v.result
    wf = line_wf(segs, t)
    cols_mono(segs, wf, 1, i)
    yield "x-is-the-column-where-the-next-segment-starts", v.x == X   # (inv-preserve failed before /repo e099973 on the path that keeps a whole segment: `x += sc` was missing)
    yield "start-is-what-is-left-to-skip", v.start == imax(start0 - X, 0)
    yield "columns-so-far-stay-within-the-range", X <= v.end
    yield "result-holds-the-columns-from-start-to-here", colsum(res, n_segs(res)) == imax(X - start0, 0)
    yield "next-segment-is-well-formed", implies(i < n, seg_ok(seg_at(segs, i), t, i))
    if isinstance(res.seq, tuple) and not res.seq:
        return
    r = V.arbitrary("seg")
    yield "result-so-far-is-a-line-of-the-text", implies(both(0 <= r, r < n_segs(res)), seg_ok(seg_at(res, r), t, r))
    yield "result-so-far-shows-parts-of-the-segments-done-at-their-columns-minus-start", implies(
        both(0 <= r, r < n_segs(res)), shows_original(res, r, segs, i, start0, t))


@contract(TL + "trim_line", property="C03", replayable=False)
class trim_line:
    contract_overrides = {TL + "LayoutSegment.__init__": layout_segment_init}   # the constructor contract with `constructs` (this file)
    params = dict(segs=LINE, text=TEXT, start=Int, end=Int)
    result = LINE
    raises = ()
    ensures = staticmethod(_trim_ens)
    ensures_callee = staticmethod(lambda a, result: _trim_ens(a, result, True))
    loops = {0: Loop(invariant=_trim_inv, shapes={"result": LINE})}
    qf_branching = True   # solver strategy only

    def requires(a):
        # (lines holding inserted-text segments are not covered: see LayoutSegment.subseg)
        return both(line_wf(a.segs, a.text), 0 <= a.start, a.start <= a.end)


# ---- calc_coords: the cell of a text position

def seg3_offs(e):
    return seg_sel(e, lambda t: t[1])


def seg3_end(e):
    return seg_sel(e, lambda t: t[2] if len(t) == 3 and V.is_num(t[2]) else 0)


def seg_has_offs(e):
    return neg(_isnone_f(seg3_offs(e)))


def seg_valid(e, text):
    """What LayoutSegment accepts, and a run lies within the text."""
    def ok(t):
        if len(t) == 2:
            return either(_isnone_f(t[1]), t[0] >= 0)
        if V.is_num(t[2]):
            return both(t[0] > 0, 0 <= t[1], t[1] <= t[2], t[2] <= tlen(text))
        return t[0] > 0
    return seg_sel(e, ok)


def layout_valid(layout, text):
    return forall(0, Q.seq_len(layout), lambda y: forall(0, n_segs(_row(layout, y)), lambda j: seg_valid(seg_at(_row(layout, y), j), text), check_empty=False), check_empty=False)


def seg_holds(e, pos):
    """The segment stands for text position pos: its offset is pos, or it is a run offs <= pos < end."""
    o = val(seg3_offs(e))
    return both(seg_has_offs(e), either(o == pos, both(seg_is_run(e), o <= pos, pos < seg3_end(e))))


def seg_dist(e, pos):
    """How far a segment that does not hold pos is from it: from its last character if it is a run ending before
    pos, else from its offset."""
    o = val(seg3_offs(e))
    end = seg3_end(e)
    return ite(both(seg_is_run(e), end < pos), pos - (end - 1), iabs(o - pos))


def _before(y1, j1, y2, j2):
    return either(y1 < y2, both(y1 == y2, j1 < j2))


def _cell_in(layout, ry, rj):
    return both(0 <= ry, ry < Q.seq_len(layout), 0 <= rj, rj < n_segs(_row(layout, ry)))


def _closest_facts(layout, text, pos, closest, yy, k):
    """closest is None while no visited segment has an offset; else (d, (x, y)): d is the least distance of the visited
    segments with an offset, attained by one that starts at cell (x, y).  Visited: before (yy, k) in reading order."""
    ry, rj = V.arbitrary("ry"), V.arbitrary("rj")
    e = seg_at(_row(layout, ry), rj)
    vis = both(_cell_in(layout, ry, rj), _before(ry, rj, yy, k))
    isn = _isnone_f(closest)
    yield "no-closest-while-no-offset-seen", implies(both(isn, vis), neg(seg_has_offs(e)))
    if closest is None:
        return
    d, (cx, cy) = val(closest)
    yield "closest-distance-is-minimal", implies(both(neg(isn), vis, seg_has_offs(e)), seg_dist(e, pos) >= d)
    yield "closest-distance-is-attained-at-its-cell", implies(neg(isn), exists(0, yy + 1, lambda y1: exists(0, n_segs(_row(layout, y1)), lambda j1: both(
        _before(y1, j1, yy, k), seg_has_offs(seg_at(_row(layout, y1), j1)), seg_dist(seg_at(_row(layout, y1), j1), pos) == d,
        cx == colsum(_row(layout, y1), j1), cy == y1))))


def _cc_common(v, yy, k):
    layout, pos = v.layout, v.pos
    ry, rj = V.arbitrary("ry"), V.arbitrary("rj")
    e = seg_at(_row(layout, ry), rj)
    vis = both(_cell_in(layout, ry, rj), _before(ry, rj, yy, k))
    yield "no-segment-so-far-holds-pos", implies(vis, neg(seg_holds(e, pos)))
    yield from _closest_facts(layout, v.text, pos, v.closest, yy, k)


def _cc_outer(v):
    yield "y-is-the-row", v.y == v.i_
    yield from _cc_common(v, v.i_, 0)


def _cc_inner(v):
    row = v.line_layout
    yield "row-in-hand", both(0 <= v.y, v.y < Q.seq_len(v.layout), n_segs(row) == n_segs(_row(v.layout, v.y)))
    yield "x-is-the-column-where-the-next-segment-starts", v.x == colsum(_row(v.layout, v.y), v.i_)
    yield from _cc_common(v, v.y, v.i_)


CLOSEST = Opt(Tup(Int, Tup(Int, Int)))


def _cc_ens(a, result, callee=False):
    layout, pos, t = a.layout, a.pos, a.text
    rx, ry_ = result
    n = Q.seq_len(layout)
    ry, rj = V.arbitrary("ry"), V.arbitrary("rj")
    e = seg_at(_row(layout, ry), rj)
    inr = _cell_in(layout, ry, rj)

    def first_holder(y1, j1):
        e1 = seg_at(_row(layout, y1), j1)
        return both(_cell_in(layout, y1, j1), seg_holds(e1, pos),
                    forall(0, y1 + 1, lambda y2: forall(0, n_segs(_row(layout, y2)), lambda j2: implies(_before(y2, j2, y1, j1), neg(seg_holds(seg_at(_row(layout, y2), j2), pos))), check_empty=False), check_empty=False))

    def cell_of(y1, j1):
        e1 = seg_at(_row(layout, y1), j1)
        o = val(seg3_offs(e1))
        return both(rx == colsum(_row(layout, y1), j1) + ite(o == pos, 0, W(t, pos) - W(t, o)), ry_ == y1)

    none_holds = forall(0, n, lambda y1: forall(0, n_segs(_row(layout, y1)), lambda j1: neg(seg_holds(seg_at(_row(layout, y1), j1), pos)), check_empty=False), check_empty=False)
    none_offs = forall(0, n, lambda y1: forall(0, n_segs(_row(layout, y1)), lambda j1: neg(seg_has_offs(seg_at(_row(layout, y1), j1))), check_empty=False), check_empty=False)
    if callee:
        yield "cell-of-the-character-at-pos-in-the-first-segment-that-holds-it", forall(0, n, lambda y1: forall(0, n_segs(_row(layout, y1)), lambda j1: implies(first_holder(y1, j1), cell_of(y1, j1)), check_empty=False), check_empty=False)
        d = cur().fresh_int("closest_d")
    else:
        yield "cell-of-the-character-at-pos-in-the-first-segment-that-holds-it", implies(first_holder(ry, rj), cell_of(ry, rj))
        cl = cur().ghost.get("exit_locals", {}).get("closest")
        d = None if cl is None or bool(_isnone_f(cl)) else val(cl)[0]
    yield "origin-when-no-segment-has-an-offset", implies(none_offs, both(rx == 0, ry_ == 0))
    if d is None:
        # the function met no segment with an offset (closest is still None): then there is none at all -- for an
        # arbitrary cell (universal generalisation) -- and the clause below has nothing to say
        yield "else-start-of-a-closest-segment", implies(both(inr, none_holds), neg(seg_has_offs(e)))
        return
    attained = exists(0, n, lambda y1: exists(0, n_segs(_row(layout, y1)), lambda j1: both(
        seg_has_offs(seg_at(_row(layout, y1), j1)), seg_dist(seg_at(_row(layout, y1), j1), pos) == d, rx == colsum(_row(layout, y1), j1), ry_ == y1)))
    if callee:
        minimal = forall(0, n, lambda y1: forall(0, n_segs(_row(layout, y1)), lambda j1: implies(seg_has_offs(seg_at(_row(layout, y1), j1)), seg_dist(seg_at(_row(layout, y1), j1), pos) >= d), check_empty=False), check_empty=False)
    else:
        minimal = implies(both(inr, seg_has_offs(e)), seg_dist(e, pos) >= d)
    yield "else-start-of-a-closest-segment", implies(both(none_holds, neg(none_offs)), both(attained, minimal))


@contract(TL + "calc_coords", property=("C03", "C10"), replayable=False)
class calc_coords:
    contract_overrides = {TL + "LayoutSegment.__init__": layout_segment_init}   # the constructor contract with `constructs` (this file)
    params = dict(text=TEXT, layout=LAYOUT, pos=Int, clamp=Int)
    result = Tup(Int, Int)
    raises = ()
    ensures = staticmethod(_cc_ens)
    ensures_callee = staticmethod(lambda a, result: _cc_ens(a, result, True))
    loops = {0: Loop(invariant=_cc_outer, shapes={"closest": CLOSEST}), 1: Loop(invariant=_cc_inner, shapes={"closest": CLOSEST})}
    qf_branching = True   # solver strategy only: branch feasibility on the quantifier-free part of the path condition

    def requires(a):
        return both(layout_valid(a.layout, a.text), 0 <= a.pos, a.pos <= tlen(a.text))


# ---- calc_line_pos: the text position closest to a column of one line

from contracts.C11_width import width_at  # noqa: E402


def line3_ok(line, text):
    """Segments LayoutSegment accepts, runs within the text, and only the first segment may have negative columns."""
    return forall(0, n_segs(line), lambda j: both(seg_valid(seg_at(line, j), text), implies(j >= 1, seg_cols(seg_at(line, j)) >= 0)), check_empty=False)


def obj_is(o, e):
    """The LayoutSegment object o was built from segment e."""
    if o is None or not isinstance(o, Q.SObj):
        return False
    return both(o.sc == seg_cols(e), opt_eq(o.offs, seg3_offs(e)),
                implies(seg_is_run(e), both(neg(_isnone_f(o.end)), val(o.end) == seg3_end(e))), implies(neg(seg_is_run(e)), _isnone_f(o.end)))


def char_at_col(text, p, o, e, col):
    """p is the position calc_text_pos(text, o, e, col) yields: the character of text[o:e] whose cell holds column col
    (counted from o) -- the end e when the run is shorter."""
    return both(o <= p, p <= e, W(text, p) - W(text, o) <= col, implies(p < e, W(text, p + 1) - W(text, o) > col))


def _none_has_offs(line, lo, hi):
    j = V.arbitrary("rj")
    return implies(both(lo <= j, j < hi), neg(seg_has_offs(seg_at(line, j))))


def _kept_obj_facts(cp, text, need_run):
    """Quantifier-free facts about a LayoutSegment kept in closest_pos: it has an offset; in the main loop it is a run
    (columns > 0) within the text."""
    f = [neg(_isnone_f(cp.offs)), implies(neg(_isnone_f(cp.end)), both(cp.sc > 0, 0 <= val(cp.offs), val(cp.offs) <= val(cp.end), val(cp.end) <= tlen(text)))]
    if need_run:
        f.append(neg(_isnone_f(cp.end)))
    return both(*f)


def _clp_left_inv(v):
    yield "no-segment-so-far-has-an-offset", _none_has_offs(v.line_layout, 0, v.i_)


def _last_offs_is(line, k, hi):
    """k is the last segment below hi that has an offset."""
    return both(0 <= k, k < hi, seg_has_offs(seg_at(line, k)), forall(k + 1, hi, lambda j: neg(seg_has_offs(seg_at(line, j))), check_empty=False))


def _clp_right_inv(v):
    line, cp = v.line_layout, v.closest_pos
    if cp is None:
        yield "no-segment-so-far-has-an-offset", _none_has_offs(line, 0, v.i_)
        return
    yield "kept-segment-has-an-offset-and-lies-in-the-text", _kept_obj_facts(cp, v.text, False)
    yield "holds-the-last-segment-with-an-offset-so-far", both(isinstance(cp, Q.SObj), exists(0, v.i_, lambda k: both(_last_offs_is(line, k, v.i_), obj_is(cp, seg_at(line, k)))))


def _cand_is(line, text, pref, csc, cp, hi, k):
    """The candidate (column csc, position / segment cp) comes from segment k < hi: its start (column X_k, position
    offs_k), or -- a run lying wholly left of pref -- its last column (the LayoutSegment is kept to find the position)."""
    e = seg_at(line, k)
    xk = colsum(line, k)
    start = both(csc == xk, V.is_num(cp), eq(cp, val(seg3_offs(e)))) if V.is_num(cp) else False
    last = both(seg_is_run(e), xk + seg_cols(e) <= pref, csc == xk + seg_cols(e) - 1, obj_is(cp, e)) if isinstance(cp, Q.SObj) else False
    return both(0 <= k, k < hi, seg_has_offs(e), either(start, last))


def _clp_main_inv(v):
    line, t, pref = v.line_layout, v.text, v.pref_col
    i = v.i_
    X = colsum(line, i)
    wf = line3_ok(line, t)
    cols_mono(line, wf, 1, i)
    j = V.arbitrary("rj")
    cols_mono(line, wf, imax(j, 1), i)
    cols_mono(line, wf, imax(j + 1, 1), i)
    ej = seg_at(line, j)
    vis = both(0 <= j, j < i)
    yield "current-sc-is-the-column-where-the-next-segment-starts", v.current_sc == X
    yield "no-run-so-far-holds-the-column", implies(both(vis, seg_is_run(ej)), neg(both(colsum(line, j) <= pref, pref < colsum(line, j) + seg_cols(ej))))
    csc, cp = v.closest_sc, v.closest_pos
    if isinstance(cp, V.SOpt):
        cp = val(cp)   # `closest_pos = s.offs` inside `if s.offs is not None`: the offset itself
    if csc is None or cp is None:
        yield "nothing-chosen-only-while-no-offset-seen", both(csc is None, cp is None, implies(vis, neg(seg_has_offs(ej))))
        return
    yield "chosen-column-is-not-right-of-here", csc <= X
    if isinstance(cp, Q.SObj):
        yield "kept-segment-is-a-run-of-the-text", _kept_obj_facts(cp, t, True)
    yield "chosen-candidate-comes-from-a-segment-so-far", exists(0, i, lambda k: _cand_is(line, t, pref, csc, cp, i, k))
    yield "no-segment-start-so-far-is-closer", implies(both(vis, seg_has_offs(ej)), iabs(pref - csc) <= iabs(pref - colsum(line, j)))


def _clp_ens(a, result, callee=False):
    line, t, pref = a.line_layout, a.text, a.pref_col
    n = n_segs(line)
    st = cur()
    j = V.arbitrary("rj")
    ej = seg_at(line, j)
    inr = both(0 <= j, j < n)
    any_offs = exists(0, n, lambda k: seg_has_offs(seg_at(line, k)))
    yield "no-position-exactly-when-no-segment-has-an-offset", eq(_isnone_f(result), neg(any_offs)) if callee else both(
        implies(_isnone_f(result), implies(inr, neg(seg_has_offs(ej)))), implies(neg(_isnone_f(result)), any_offs))
    if _isnone_f(result) is True or (not callee and bool(_isnone_f(result))):
        return
    p = val(result)
    if isinstance(pref, str) and pref == "left":
        first = lambda k: both(0 <= k, k < n, seg_has_offs(seg_at(line, k)), forall(0, k, lambda q: neg(seg_has_offs(seg_at(line, q))), check_empty=False))  # noqa: E731
        if callee:
            yield "left-is-the-offset-of-the-first-segment-that-has-one", forall(0, n, lambda k: implies(first(k), p == val(seg3_offs(seg_at(line, k)))), check_empty=False)
        else:
            yield "left-is-the-offset-of-the-first-segment-that-has-one", implies(first(j), p == val(seg3_offs(ej)))
        return
    if isinstance(pref, str) and pref == "right":
        def last_pos(k):
            e = seg_at(line, k)
            o = val(seg3_offs(e))
            return ite(seg_is_run(e), char_at_col(t, p, o, seg3_end(e), seg_cols(e) - 1), p == o)
        if callee:
            yield "right-is-the-last-position-of-the-last-segment-that-has-an-offset", forall(0, n, lambda k: implies(_last_offs_is(line, k, n), last_pos(k)), check_empty=False)
        else:
            yield "right-is-the-last-position-of-the-last-segment-that-has-an-offset", implies(_last_offs_is(line, j, n), last_pos(j))
        return
    # an integer column
    xj = colsum(line, j)
    holds = both(seg_is_run(ej), xj <= pref, pref < xj + seg_cols(ej))
    if callee:
        yield "a-column-inside-a-run-gives-the-character-whose-cell-it-is", forall(0, n, lambda k: implies(
            both(seg_is_run(seg_at(line, k)), colsum(line, k) <= pref, pref < colsum(line, k) + seg_cols(seg_at(line, k)),
                 forall(0, k, lambda q: neg(both(seg_is_run(seg_at(line, q)), colsum(line, q) <= pref, pref < colsum(line, q) + seg_cols(seg_at(line, q)))), check_empty=False)),
            char_at_col(t, p, val(seg3_offs(seg_at(line, k))), seg3_end(seg_at(line, k)), pref - colsum(line, k))), check_empty=False)
        return
    wf = line3_ok(line, t)
    loc = st.ghost.get("exit_locals", {})
    k_exit = st.ghost.get("loop_index")
    if k_exit is not None:
        # instances of the monotonicity lemma between where the loop stopped and the arbitrary segment
        cols_mono(line, wf, imax(k_exit, 1), j)
        cols_mono(line, wf, imax(k_exit + 1, 1), j)
        cols_mono(line, wf, imax(j, 1), k_exit)
        cols_mono(line, wf, imax(j + 1, 1), k_exit)
    first_holder = both(inr, holds, forall(0, j, lambda q: neg(both(seg_is_run(seg_at(line, q)), colsum(line, q) <= pref, pref < colsum(line, q) + seg_cols(seg_at(line, q)))), check_empty=False))
    yield "a-column-inside-a-run-gives-the-character-whose-cell-it-is", implies(first_holder, char_at_col(t, p, val(seg3_offs(ej)), seg3_end(ej), pref - xj))
    none_holds = forall(0, n, lambda q: neg(both(seg_is_run(seg_at(line, q)), colsum(line, q) <= pref, pref < colsum(line, q) + seg_cols(seg_at(line, q)))), check_empty=False)
    csc = loc.get("closest_sc")
    if csc is None:
        yield "else-a-position-of-the-line-closest-to-the-column", neg(none_holds)
        return
    csc = val(csc)
    # witness of "there is a candidate column c": the function's closest_sc at exit
    from_seg = exists(0, n, lambda k: both(seg_has_offs(seg_at(line, k)), either(
        both(csc == colsum(line, k), p == val(seg3_offs(seg_at(line, k)))),
        both(seg_is_run(seg_at(line, k)), colsum(line, k) + seg_cols(seg_at(line, k)) <= pref, csc == colsum(line, k) + seg_cols(seg_at(line, k)) - 1,
             char_at_col(t, p, val(seg3_offs(seg_at(line, k))), seg3_end(seg_at(line, k)), seg_cols(seg_at(line, k)) - 1)))))
    yield "else-a-position-of-the-line-closest-to-the-column", implies(none_holds, both(
        from_seg, implies(both(inr, seg_has_offs(ej)), iabs(pref - csc) <= iabs(pref - xj))))


CPOS = Union(Const(None), LSEG, Int)


@contract(TL + "calc_line_pos", property=("C03", "C10"), replayable=False)
class calc_line_pos:
    contract_overrides = {TL + "LayoutSegment.__init__": layout_segment_init}   # the constructor contract with `constructs` (this file)
    params = dict(text=TEXT, line_layout=LINE3, pref_col=Union(Int, Const("left"), Const("right")))
    result = Opt(Int)
    raises = ()
    ensures = staticmethod(_clp_ens)
    ensures_callee = staticmethod(lambda a, result: _clp_ens(a, result, True))
    qf_branching = True
    loops = {0: Loop(invariant=_clp_left_inv),
             1: Loop(invariant=_clp_right_inv, shapes={"closest_pos": Union(Const(None), LSEG)}),
             2: Loop(invariant=_clp_main_inv, shapes={"closest_pos": CPOS, "closest_sc": Union(Const(None), Int)})}

    def requires(a):
        return line3_ok(a.line_layout, a.text)


# ---- calc_pos: the text position closest to a cell of the layout

calc_line_pos.deterministic = True   # a pure function of its arguments (str texts: no encoding state involved)


@contract(TL + "calc_line_pos", property=("C03", "C10"), replayable=False, alias="value-only")
class calc_line_pos_value_only:
    """calc_line_pos seen only as a deterministic function (same precondition, no postcondition): what calc_pos needs
    -- it passes positions on, whatever they are.  Strictly weaker than the contract above; verified against the body
    like it (termination, no exception), and used at calc_pos's call sites instead of it so that calc_pos's
    obligations do not carry calc_line_pos's quantified postcondition three times."""
    params = calc_line_pos.params
    result = Opt(Int)
    raises = ()
    deterministic = True
    qf_branching = True
    contract_overrides = calc_line_pos.contract_overrides
    loops = calc_line_pos.loops
    requires = staticmethod(calc_line_pos.requires)


def clp_value(text, row, pref):
    """The value calc_line_pos(text, row, pref) has (an Optional[int]): the same uninterpreted function of the
    arguments that a call under contract yields (Contract.apply, `deterministic`), so "the position of row r" in
    calc_pos's postcondition is literally what the call on that row returned."""
    from pyvc.protocol import encode_arg, uf_shape_value
    st = cur()
    vals = dict(line_layout=row, pref_col=pref, text=text)
    terms = []
    for k in sorted(vals):
        terms.extend(encode_arg(st, vals[k]))
    return uf_shape_value(st, "fn:calc_line_pos", terms, calc_line_pos.result)


def row_has_pos(layout, r):
    """Line r has a text position at all: some segment of it has an offset (calc_line_pos: no position exactly when
    no segment has an offset)."""
    return exists(0, n_segs(_row(layout, r)), lambda k: seg_has_offs(seg_at(_row(layout, r), k)))


def layout3_ok(layout, text):
    return forall(0, Q.seq_len(layout), lambda y: line3_ok(_row(layout, y), text), check_empty=False)


def _row_none(layout, text, pref, r):
    return _isnone_f(clp_value(text, _row(layout, r), pref))


def _cp_inv(v):
    layout, row = v.layout, v.row
    n = Q.seq_len(layout)
    ab, be = v.rows_above, v.rows_below
    la, lb = Q.seq_len(ab), Q.seq_len(be)
    t = row - la                      # rows looked at on each side so far
    k = V.arbitrary("k")
    d = V.arbitrary("d")
    yield "lists-shrink-in-step", both(0 <= t, la >= 0, lb >= 0, t == (n - 1 - row) - lb)
    yield "rows-above-still-to-try-nearest-first", forall(0, la, lambda q: Q.seq_get(ab, q) == la - 1 - q, check_empty=False)
    yield "rows-below-still-to-try-nearest-first", forall(0, lb, lambda q: Q.seq_get(be, q) == n - lb + q, check_empty=False)
    yield "no-position-on-the-row-nor-within-the-distance-tried", both(
        _row_none(layout, v.text, v.pref_col, row),
        implies(both(1 <= d, d <= t), both(_row_none(layout, v.text, v.pref_col, row - d), _row_none(layout, v.text, v.pref_col, row + d))))


def _cp_ens(a, result, callee=False):
    layout, row, t, pref = a.layout, a.row, a.text, a.pref_col
    n = Q.seq_len(layout)
    yield "row-is-a-line-of-the-layout", both(0 <= row, row < n)
    here = clp_value(t, _row(layout, row), pref)
    yield "position-of-the-row-itself-when-it-has-one", implies(neg(_isnone_f(here)), result == val(here))
    m = imin(row, n - 1 - row)        # how far the search goes: as long as there are rows on both sides
    none_upto = lambda dd: forall(1, dd, lambda q: both(_row_none(layout, t, pref, row - q), _row_none(layout, t, pref, row + q)), check_empty=False)  # noqa: E731

    def nearest(d):
        up, down = clp_value(t, _row(layout, row - d), pref), clp_value(t, _row(layout, row + d), pref)
        return implies(both(1 <= d, d <= m, _isnone_f(here), none_upto(d)), both(
            implies(neg(_isnone_f(up)), result == val(up)),
            implies(both(_isnone_f(up), neg(_isnone_f(down))), result == val(down))))

    if not callee:
        # instances (tautologies) of the quantified premises at the distance the search had reached at the exit
        loc = cur().ghost.get("exit_locals", {})
        if "rows_above" in loc:
            D = row - Q.seq_len(loc["rows_above"])
            both_none = lambda q: both(_row_none(layout, t, pref, row - q), _row_none(layout, t, pref, row + q))  # noqa: E731
            for hi in (m + 1, V.arbitrary("d")):
                cur().assume(implies(both(none_upto(hi), 1 <= D, D < hi), both_none(D)))
    if callee:
        yield "else-position-of-the-nearest-row-that-has-one-above-before-below", forall(1, m + 1, nearest, check_empty=False)
    else:
        yield "else-position-of-the-nearest-row-that-has-one-above-before-below", nearest(V.arbitrary("d"))
    yield "zero-when-no-row-in-reach-has-a-position", implies(both(_isnone_f(here), none_upto(m + 1)), result == 0)


@contract(TL + "calc_pos", property=("C03", "C10"), replayable=False)
class calc_pos:
    contract_overrides = {TL + "calc_line_pos": calc_line_pos_value_only}
    params = dict(text=TEXT, layout=LAYOUT, pref_col=Union(Int, Const("left"), Const("right")), row=Int)
    result = Int
    raises = (ValueError,)
    raises_iff = {ValueError: lambda a: either(a.row < 0, a.row >= Q.seq_len(a.layout))}
    ensures = staticmethod(_cp_ens)
    ensures_callee = staticmethod(lambda a, result: _cp_ens(a, result, True))
    qf_branching = True
    loops = {0: Loop(invariant=_cp_inv, decreases=lambda v: Q.seq_len(v.rows_above),
                     shapes={"rows_above": ListOf(Int), "rows_below": ListOf(Int), "pos": Opt(Int), "r": Int})}

    def requires(a):
        return layout3_ok(a.layout, a.text)

    def on_raise(a, exc):
        yield "only-for-a-row-outside-the-layout", either(a.row < 0, a.row >= Q.seq_len(a.layout))


# ---- StandardTextLayout.calculate_text_segments ('any' wrapping; clip / ellipsis handed to _calculate_trimmed_segments)

from pyvc.text import chr_of, elem_eq  # noqa: E402

STL2 = Obj(_tl.StandardTextLayout, {})
LAYOUT2 = ListOf(ListOf(SEG))     # what calculate_text_segments builds: padding / end markers and runs (no inserted text)
NL = 10


def is_nl(text, k):
    return elem_eq(text.get(k), chr_of(NL))


def row_end(row):
    """The text position after what a line accounts for: after its end marker (one hidden character), else the end
    of its run."""
    e0 = seg_at(row, 0)
    one = ite(seg_is_run(e0), seg3_end(e0), val(seg3_offs(e0)) + 1)
    if isinstance(n_segs(row), int):
        return (val(seg3_offs(seg_at(row, 1))) + 1) if n_segs(row) == 2 else one
    return ite(n_segs(row) == 2, val(seg3_offs(seg_at(row, 1))) + 1, one)


def marker_ok(e, text, at=None):
    """(0, o): the hint for one hidden character -- a newline, or the end of the text."""
    o = val(seg3_offs(e))
    n = tlen(text)
    f = both(neg(seg_is_run(e)), seg_cols(e) == 0, seg_has_offs(e), 0 <= o, o <= n, implies(o < n, is_nl(text, o)))
    return f if at is None else both(f, o == at)


def run_in_width(e, text, width):
    return both(seg_is_run(e), val(seg3_offs(e)) < seg3_end(e), run_ok(text, seg_cols(e), val(seg3_offs(e)), seg3_end(e)), seg_cols(e) <= width)


def any_line_ok(row, text, width, prev):
    """A line of 'any' wrapping that starts at text position `prev`:
      * [(0, o)]: a line made solely of zero-width characters (prev .. o), its newline hidden;
      * [(sc, prev, b), (0, b)]: the rest of the paragraph, it fits; the newline at b hidden;
      * [(sc, prev, b)]: a full line: the next character (at b) no longer fits."""
    n = tlen(text)
    e0 = seg_at(row, 0)
    ns = n_segs(row)
    hint_only = both(ns == 1, marker_ok(e0, text), val(seg3_offs(e0)) >= prev, W(text, val(seg3_offs(e0))) == W(text, prev))
    b = seg3_end(e0)
    fits = both(ns == 2, run_in_width(e0, text, width), seg_cols(e0) > 0, val(seg3_offs(e0)) == prev, marker_ok(seg_at(row, 1), text, b))
    full = both(ns == 1, run_in_width(e0, text, width), val(seg3_offs(e0)) == prev, b < n, seg_cols(e0) + (W(text, b + 1) - W(text, b)) > width)
    return either(hint_only, fits, full)


def _prev_end(segs, k):
    return ite(k == 0, 0, row_end(_row(segs, k - 1))) if V.is_sym(k) else (0 if k == 0 else row_end(_row(segs, k - 1)))


def _zero_run(row):
    return both(n_segs(row) == 1, seg_is_run(seg_at(row, 0)), seg_cols(seg_at(row, 0)) == 0)


TEXT_QF = Text("str", monotone_widths=False)   # no quantified monotonicity fact: instances of the lemma where needed (w_mono)


def w_mono(text, a, b):
    """Instance of lemma `columns-prefix-sum-monotone` for the width prefix sums of a text (character widths are
    >= 0 by the width model): a <= b  =>  W(a) <= W(b)."""
    cur().assume(implies(a <= b, W(text, a) <= W(text, b)))


def _newline_has_no_width(st, self_obj, vals):
    """wcwidth('\\n') is -1, which get_char_width clamps to 0: a fact about the width model's individual chr(10)
    (checked against the real get_char_width by the static check below)."""
    from pyvc.text import char_width
    st.assume(char_width(chr_of(NL)) == 0)


def _xc_newline_width():
    from urwid.str_util import get_char_width
    return ("newline-has-no-width", get_char_width("\n") == 0, f"get_char_width('\\n') == {get_char_width(chr(10))}")


def _cts_inv(v):
    segs, t, width, idx = v.segments, v.text, v.width, v.idx
    n = tlen(t)
    m = Q.seq_len(segs)
    yield "idx-within-the-text-or-just-past-it", both(0 <= idx, idx <= n + 1)
    if isinstance(segs.seq, tuple) and not segs.seq:
        yield "idx-is-where-the-last-line-ends-or-the-start", idx == 0   # (the first disjunct below, for the empty list)
        return
    k = V.arbitrary("line")
    # instances of the monotonicity lemma: from just after the first character of the last line to the positions the
    # iteration that laid it out computed (when the invariant is re-established after that iteration)
    first_of_last = _prev_end(segs, m - 1)
    for name in ("nl_pos", "pos"):
        if name in v and V.is_num(getattr(v, name)):
            w_mono(t, first_of_last + 1, getattr(v, name))
    yield "idx-is-where-the-last-line-ends-or-the-start", either(both(m == 0, idx == 0), both(m >= 1, row_end(_row(segs, m - 1)) == idx))
    yield "every-line-so-far-continues-the-one-before-and-is-well-formed", implies(both(0 <= k, k < m), any_line_ok(_row(segs, k), t, width, _prev_end(segs, k)))
    yield "a-run-of-no-columns-only-as-the-last-line-before-a-character-that-cannot-fit", both(
        implies(both(0 <= k, k < m - 1), neg(_zero_run(_row(segs, k)))),
        implies(both(m >= 1, _zero_run(_row(segs, m - 1))), both(idx < n, W(t, idx + 1) - W(t, idx) > width)))


def _cts_ens(old, s, a, result, callee=False):
    t, width = a.text, a.width
    n = tlen(t)
    m = Q.seq_len(result)
    if bool(either(a.wrap == "clip", a.wrap == "ellipsis")):
        yield from _cts2_ens(old, s, a, result, callee)   # handed to _calculate_trimmed_segments: its postcondition
        return
    if not bool(a.wrap == "any"):   # (a normal exit with an unknown wrap mode: every paragraph fitted; nothing claimed)
        return
    yield "at-least-one-line", m >= 1
    yield "the-lines-account-for-the-whole-text", row_end(_row(result, m - 1)) == n + 1
    line_ok = lambda k: both(any_line_ok(_row(result, k), t, width, _prev_end(result, k)), neg(_zero_run(_row(result, k))))  # noqa: E731
    if callee:
        yield "every-line-continues-the-one-before-fits-the-width-and-is-filled", forall(0, m, line_ok, check_empty=False)
    else:
        k = V.arbitrary("line")
        yield "every-line-continues-the-one-before-fits-the-width-and-is-filled", implies(both(0 <= k, k < m), line_ok(k))


@contract(TL + "StandardTextLayout.calculate_text_segments", property="C03", replayable=False, alias="any-clip-ellipsis")
class calculate_text_segments_any:
    """'any' wrapping, on the abstract text model (str).  ('space' wrapping -- the scan back to the last space, the
    un-wrapping of the previous line -- stays with the bounded stand-in; 'clip' / 'ellipsis' are
    _calculate_trimmed_segments.)  Registered under an alias: contracts/C03_layout.py holds the (assumed) model that
    `layout` uses at its call site."""
    self_shape = STL2
    params = dict(text=TEXT_QF, width=Int, wrap=Atom("any", "clip", "ellipsis", "bogus"))
    setup = staticmethod(_newline_has_no_width)
    result = LAYOUT2
    raises = (_tl.CanNotDisplayText, ValueError)
    modifies = ()
    ensures = staticmethod(_cts_ens)
    loops = {0: Loop(invariant=_cts_inv, decreases=lambda v: tlen(v.text) + 1 - v.idx, shapes={"segments": LAYOUT2})}
    static_checks = [lambda: ("find-model-agrees-with-cpython", *__import__("pyvc.text", fromlist=["xcheck_find"]).xcheck_find()), _xc_newline_width]

    def requires(s, a):
        return a.width >= 0

    def on_raise(old, s, a, exc):
        if exc.cls is ValueError:
            yield "value-error-only-for-an-unknown-wrap-mode", a.wrap == "bogus"
        else:
            # witness: the function's idx at the raise
            idx = cur().ghost.get("exit_locals", {}).get("idx")
            t = a.text
            yield "cannot-display-only-a-character-wider-than-the-width", False if idx is None else both(0 <= idx, idx < tlen(t), W(t, idx + 1) - W(t, idx) > a.width)


# ---- StandardTextLayout._calculate_trimmed_segments ('clip' / 'ellipsis')

from pyvc.seqs import ModelObj  # noqa: E402

UT = "urwid/util.py:"
from pyvc.shapes import opaque_sort  # noqa: E402

ENCODING = Opaque("Encoding")
PROTOCOLS.setdefault("Encoding", type("EncodingProtocol", (Protocol,), {"kind": "Encoding", "methods": {}})())
_EWF = z3.Function("ellipsis.width", opaque_sort("Encoding"), z3.IntSort(), z3.IntSort())


def mark_width(enc, length):
    """Columns of the first `length` characters of the ellipsis mark, encoded for `enc` (what _get_width returns):
    uninterpreted, except that it is never negative and 0 exactly for the empty string."""
    e = _EWF(enc.e, V._z(length))
    cur().assume(z3.And(e >= 0, (e == 0) == (V._z(length) <= 0)))
    return mk_int(e)


class EllipsisStr(ModelObj):
    """The ellipsis mark as a str: "…" or "..." or a prefix of it -- modelled by its length only (truth value,
    `[:-1]`, `.encode(encoding)` are all the function does with it)."""

    def __init__(self, length):
        self.length = length

    def py_truth(self, st):
        return V._cmp(">", self.length, 0) if V.is_sym(self.length) else self.length > 0

    def py_len(self, st):
        return self.length

    def py_getitem(self, ip, st, idx):
        if isinstance(idx, Q.SSlice) and idx.start is None and idx.step is None and isinstance(idx.stop, int) and idx.stop == -1:
            return EllipsisStr(imax(self.length - 1, 0))   # s[:-1]: all but the last character ("" stays "")
        raise V.Unsupported("ellipsis string: only [:-1] is modelled")

    def py_call(self, ip, st, name, args, kwargs):
        if name == "encode" and len(args) == 1 and not kwargs:
            return INSTEXT.fresh(st, "mark")   # some bytes object
        raise V.Unsupported(f"ellipsis string: method {name}")

    def py_havoc(self, st):
        self.length = st.fresh_int("ell_len")


def _fresh_ellipsis(st, hint):
    n = st.fresh_int(hint + "_len")
    st.assume(either(n == 1, n == 3))
    return EllipsisStr(n)


@contract(TL + "get_ellipsis_string", property=(), assumed=True,
          notes="codec round trip of U+2026 (external: the codec registry): returns the one-character mark, or '...' where the "
                "encoding cannot express it; only its length (1 or 3) is modelled")
class get_ellipsis_string:
    params = dict(encoding=ENCODING)
    result = Custom(_fresh_ellipsis, "EllipsisStr")
    raises = ()


@contract(TL + "_get_width", property=(), assumed=True,
          notes="string.encode(encoding) (external codec) measured by calc_width on the bytes: trusted to be >= 0 and 0 exactly for "
                "the empty string (every character of '…' / '...' takes at least one column in every encoding); a function of "
                "the encoding and the string")
class get_width_of_mark:
    params = dict(string=Custom(_fresh_ellipsis, "EllipsisStr"), encoding=ENCODING)
    result = Int
    raises = ()
    pure_spec = staticmethod(lambda a: mark_width(a.encoding, a.string.length))


def _lru_cached_callee(ip, st, f, args, kwargs):
    """`get_ellipsis_string` is wrapped by functools.lru_cache (an object, not a function the engine can map to its
    AST): a call of the wrapper is a call of the function under its (assumed) contract -- caching a pure function
    does not change its results."""
    if f is _tl.get_ellipsis_string:
        from pyvc import source as SRC
        from pyvc.interp import FnVal
        return get_ellipsis_string.apply(ip, st, FnVal(SRC.resolve(TL + "get_ellipsis_string")), args, kwargs, site="lru_cache")
    return NotImplemented


def _ctt_combined_ens(a, result):
    """calc_trim_text's contract (contracts/C11_width.py) plus the clause proved under the alias below."""
    from contracts.C11_width import calc_trim_text as _c11
    yield from _c11._gen(_c11.ensures(a, result))
    yield from _ctt_no_left_trim(a, result)


def _ctt_no_left_trim(a, result):
    spos, pos, pl, pr = result
    yield "no-left-trim-when-the-range-starts-at-column-0", implies(a.start_col == 0, both(spos == a.start_offs, pl == 0))


from contracts.C11_width import calc_trim_text as _c11_ctt, ENC as _ENC  # noqa: E402


@contract(UT + "calc_trim_text", property="C03", replayable=False, alias="no-left-trim", globals_=_ENC)
class calc_trim_text_no_left_trim:
    """One more clause on calc_trim_text, proved against its body under the same precondition as the C11 contract:
    a range that starts at column 0 is not trimmed on the left (what _calculate_trimmed_segments checks defensively)."""
    params = _c11_ctt.params
    result = _c11_ctt.result
    raises = ()
    requires = staticmethod(_c11_ctt.requires)
    ensures = staticmethod(_ctt_no_left_trim)


class _CttCombined(type(_c11_ctt)):
    pass


calc_trim_text_combined = _CttCombined()
calc_trim_text_combined.__dict__.update({k: v for k, v in _c11_ctt.__dict__.items()})
calc_trim_text_combined.ensures = _ctt_combined_ens
calc_trim_text_combined.ensures_callee = None


# Paragraphs of a text (spec functions, defined by recursion on the paragraph number; the definitional axioms are
# instantiated groundly by par_unfold / par_min):
#   PAR(0) = 0,   NLP(k) = the first newline at or after PAR(k), len(text) when there is none,   PAR(k+1) = NLP(k) + 1
def PAR(text, k):
    return mk_int(z3.Function(f"{text.name}$PAR", z3.IntSort(), z3.IntSort())(V._z(k)))


def NLP(text, k):
    return mk_int(z3.Function(f"{text.name}$NLP", z3.IntSort(), z3.IntSort())(V._z(k)))


def par_unfold(text, k):
    n = tlen(text)
    st = cur()
    st.assume(PAR(text, 0) == 0)
    st.assume(implies(both(k >= 0, PAR(text, k) <= n), both(
        PAR(text, k) <= NLP(text, k), NLP(text, k) <= n, implies(NLP(text, k) < n, is_nl(text, NLP(text, k))), PAR(text, k + 1) == NLP(text, k) + 1)))


def par_min(text, k, q):
    """Instance at position q of: no newline in [PAR(k), NLP(k))."""
    cur().assume(implies(both(k >= 0, PAR(text, k) <= q, q < NLP(text, k)), neg(is_nl(text, q))))


def trimmed_line_ok(row, text, width, wrap, ew, P=None, N=None):
    """A line of 'clip' / 'ellipsis' wrapping, for the paragraph text[P:nl]:
      * not cut: [(sc, P, nl), (0, nl)] -- the run missing when the paragraph has no columns;
      * 'ellipsis' and wider than the width: [(sc, P, e), (ew, e, mark), (pad, e)] -- the run missing when nothing fits
        before the mark --, sc + ew + pad == width: the part beyond the width is replaced by the mark."""
    ns = n_segs(row)
    e0, e1, e2 = seg_at(row, 0), seg_at(row, 1), seg_at(row, 2)
    n = tlen(text)

    def end_marker(e, at, cols=None):
        return both(neg(seg_is_run(e)), seg_sel(e, lambda t: len(t) == 2), seg_has_offs(e), val(seg3_offs(e)) == at, seg_cols(e) == (0 if cols is None else cols))

    def mark(e, at):
        return both(seg_sel(e, lambda t: len(t) == 3 and not V.is_num(t[2])), seg_cols(e) == ew, val(seg3_offs(e)) == at)

    def run(e):
        return both(seg_is_run(e), seg_cols(e) > 0, run_ok(text, seg_cols(e), val(seg3_offs(e)), seg3_end(e)))

    o0 = val(seg3_offs(e0))
    if P is not None:
        # the line is the one of the paragraph text[P:N]
        too_wide = W(text, N) - W(text, P) > width
        whole = neg(both(wrap == "ellipsis", too_wide, ew > 0))
        whole_with_run = both(ns == 2, run(e0), o0 == P, seg3_end(e0) == N, end_marker(e1, N), whole)
        whole_no_run = both(ns == 1, end_marker(e0, N), W(text, N) == W(text, P), whole)
        pad1, pad2 = seg_cols(e1), seg_cols(e2)
        tail = lambda e: both(neg(seg_is_run(e)), seg_sel(e, lambda t: len(t) == 2), seg_has_offs(e))  # noqa: E731
        cut_with_run = both(ns == 3, run(e0), o0 == P, seg3_end(e0) <= N, mark(e1, seg3_end(e0)), tail(e2), val(seg3_offs(e2)) == seg3_end(e0),
                            either(pad2 == 0, pad2 == 1), seg_cols(e0) + ew + pad2 == width)
        cut_no_run = both(ns == 2, mark(e0, o0), tail(e1), val(seg3_offs(e1)) == o0, P <= o0, o0 <= N, W(text, o0) == W(text, P),
                          either(pad1 == 0, pad1 == 1), ew + pad1 == width)
        return either(whole_with_run, whole_no_run, both(wrap == "ellipsis", ew > 0, too_wide, either(cut_with_run, cut_no_run)))
    whole_with_run = both(ns == 2, run(e0), end_marker(e1, seg3_end(e0)))
    whole_no_run = both(ns == 1, end_marker(e0, o0), 0 <= o0, o0 <= n)
    pad1 = seg_cols(e1)
    pad2 = seg_cols(e2)
    cut_with_run = both(ns == 3, run(e0), mark(e1, seg3_end(e0)), neg(seg_is_run(e2)), seg_sel(e2, lambda t: len(t) == 2), seg_has_offs(e2), val(seg3_offs(e2)) == seg3_end(e0),
                        either(pad2 == 0, pad2 == 1), seg_cols(e0) + ew + pad2 == width)
    cut_no_run = both(ns == 2, mark(e0, o0), neg(seg_is_run(e1)), seg_sel(e1, lambda t: len(t) == 2), seg_has_offs(e1), val(seg3_offs(e1)) == o0, 0 <= o0, o0 <= n,
                      either(pad1 == 0, pad1 == 1), ew + pad1 == width)
    cut = both(wrap == "ellipsis", ew > 0, either(cut_with_run, cut_no_run))
    return either(whole_with_run, whole_no_run, cut)


def _cts2_shorten_inv(v):
    L = v.ellipsis_string.length
    yield "mark-is-a-prefix-of-the-ellipsis", both(0 <= L, L <= 3)
    yield "width-is-the-marks", v.ellipsis_width == mark_width(v.encoding, L)


def _cts2_main_inv(v):
    segs, t, idx = v.segments, v.text, v.idx
    n = tlen(t)
    m = Q.seq_len(segs)
    L = v.ellipsis_string.length
    ew = v.ellipsis_width
    yield "idx-within-the-text-or-just-past-it", both(0 <= idx, idx <= n + 1)
    yield "mark-fits-beside-one-column-or-is-empty", both(ew == mark_width(v.encoding, L), either(ew <= v.width - 1, ew == 0))
    k = V.arbitrary("line")
    for q in (m, m - 1, k):
        par_unfold(t, q)
    if "nl_pos" in v and V.is_num(v.nl_pos):
        # the newline position the iteration just executed found IS NLP(m - 1): both are the first newline at or after
        # PAR(m - 1) (instances of the two minimality facts at each other's position)
        par_min(t, m - 1, v.nl_pos)
        V.instantiate(NLP(t, m - 1))
    yield "idx-is-the-start-of-the-next-paragraph", idx == PAR(t, m)
    if isinstance(segs.seq, tuple) and not segs.seq:
        return
    # instances of the monotonicity lemma for the width prefix sums, at the offsets of the last line
    last = _row(segs, m - 1)
    for x in (val(seg3_offs(seg_at(last, 0))), seg3_end(seg_at(last, 0)), NLP(t, m - 1)):
        w_mono(t, PAR(t, m - 1), x)
        w_mono(t, x, NLP(t, m - 1))
    yield "line-k-is-paragraph-k-whole-or-cut-with-the-mark", implies(both(0 <= k, k < m), trimmed_line_ok(_row(segs, k), t, v.width, v.wrap, ew, PAR(t, k), NLP(t, k)))


def _cts2_ens(old, s, a, result, callee=False):
    t = a.text
    m = Q.seq_len(result)
    loc = cur().ghost.get("exit_locals", {})
    # witness of "there is a mark width ew such that": the function's own ellipsis_width; at a call site a fresh constant,
    # remembered so that a caller handing the result on can name the same witness
    if callee:
        ew = cur().fresh_int("mark_width")
        cur().ghost["mark_width_witness"] = ew
    else:
        ew = loc["ellipsis_width"] if "ellipsis_width" in loc else cur().ghost.get("mark_width_witness", cur().fresh_int("mark_width"))
    for q in (m, m - 1):
        par_unfold(t, q)
    yield "one-line-per-paragraph-of-the-text", both(m >= 1, PAR(t, m) == tlen(t) + 1)
    yield "mark-fits-beside-one-column-or-is-unused", either(both(0 < ew, ew <= a.width - 1), ew <= 0)
    ok = lambda k: trimmed_line_ok(_row(result, k), t, a.width, a.wrap, ew, PAR(t, k), NLP(t, k))  # noqa: E731
    if callee:
        yield "line-k-is-paragraph-k-whole-or-cut-with-the-mark-to-exactly-the-width", forall(0, m, ok, check_empty=False)
    else:
        k = V.arbitrary("line")
        par_unfold(t, k)
        yield "line-k-is-paragraph-k-whole-or-cut-with-the-mark-to-exactly-the-width", implies(both(0 <= k, k < m), ok(k))


@contract(TL + "StandardTextLayout._calculate_trimmed_segments", property="C03", replayable=False,
          inline=(UT + "get_encoding",), globals_=dict(_target_encoding=ENCODING, **_ENC))
class calculate_trimmed_segments:
    self_shape = STL2
    params = dict(text=TEXT_QF, width=Int, wrap=Atom("clip", "ellipsis"))
    result = LAYOUT
    raises = ()
    modifies = ()
    contract_overrides = {UT + "calc_trim_text": calc_trim_text_combined}
    call_real = staticmethod(_lru_cached_callee)
    ensures = staticmethod(_cts2_ens)
    ensures_callee = staticmethod(lambda old, s, a, result: _cts2_ens(old, s, a, result, True))
    loops = {0: Loop(invariant=_cts2_shorten_inv, decreases=lambda v: v.ellipsis_string.length),
             1: Loop(invariant=_cts2_main_inv, decreases=lambda v: tlen(v.text) + 1 - v.idx, shapes={"segments": LAYOUT})}

    def requires(s, a):
        return a.width >= 0


# ---- calculate_text_segments, 'space' wrapping: structure, order and fit of the lines (which characters are hidden is
# stated up to consecutive marker-only lines; that every break is at a space where words fit is the bounded stand-in's)

SP = 32


def is_sp(text, k):
    return elem_eq(text.get(k), chr_of(SP))


def _space_setup(st, self_obj, vals):
    """Width-model facts about two individuals: chr(10) has no width (see _newline_has_no_width); chr(32) takes one
    column (wcwidth(' ') == 1; static check below)."""
    from pyvc.text import char_width
    st.assume(char_width(chr_of(NL)) == 0)
    st.assume(char_width(chr_of(SP)) == 1)


def _xc_space_width():
    from urwid.str_util import get_char_width
    return ("space-takes-one-column", get_char_width(" ") == 1, f"get_char_width(' ') == {get_char_width(' ')}")


def sp_first_off(row):
    return val(seg3_offs(seg_at(row, 0)))


def sp_marker_only(row):
    return both(n_segs(row) == 1, neg(seg_is_run(seg_at(row, 0))))


def sp_next(row):
    """Where the text goes on after the line: after its end marker's hidden character; else at the end of its run.
    (For a marker-only line: at least after the marker's offset -- see sp_gap.)"""
    return row_end(row)


def hidden_char(text, h):
    """Position h holds a newline or a space, or is the end of the text (the slot after the last character)."""
    n = tlen(text)
    return both(0 <= h, h <= n, implies(h < n, either(is_nl(text, h), is_sp(text, h))))


def space_line_ok(row, text, width):
    """[(0, o)]  |  [(sc, a, b), (0, b)] with a hidden newline / space (or the end of the text) at b  |  [(sc, a, b)];
    runs are non-empty runs of the text, no wider than the width."""
    n = tlen(text)
    e0 = seg_at(row, 0)
    ns = n_segs(row)
    o = val(seg3_offs(e0))
    marker_only = both(ns == 1, neg(seg_is_run(e0)), seg_sel(e0, lambda t: len(t) == 2), seg_cols(e0) == 0, seg_has_offs(e0), 0 <= o, o <= n)
    e1 = seg_at(row, 1)
    with_marker = both(ns == 2, run_in_width(e0, text, width), seg_cols(e0) > 0, neg(seg_is_run(e1)), seg_cols(e1) == 0, seg_has_offs(e1),
                       val(seg3_offs(e1)) == seg3_end(e0), hidden_char(text, seg3_end(e0)))
    run_only = both(ns == 1, run_in_width(e0, text, width))
    return either(marker_only, with_marker, run_only)


def sp_gap(prev_row, row, text, first):
    """How line `row` continues after `prev_row` (first: there is no previous line; the text starts at 0).
    "The text goes on at s":  after a line that is not marker-only: s is exactly where it stopped (row_end);
                             after a marker-only line [(0, o)]: s > o, only zero-width characters lie between o and the
                             ONE hidden newline / space at s - 1.
    A line with a run starts where the text goes on.  A marker-only line [(0, o)] either starts there itself (o: the
    line start, zero-width characters and a hidden space follow), or marks the newline / end of the text that ends a
    paragraph of zero-width characters (then only that it lies behind the previous line, at no more columns)."""
    n = tlen(text)
    f = sp_first_off(row)
    g0 = ite(first, 0, sp_next(prev_row)) if V.is_sym(first) else (0 if first else sp_next(prev_row))
    po = sp_first_off(prev_row)
    prev_marker = both(neg(first), sp_marker_only(prev_row)) if V.is_sym(first) else (False if first else sp_marker_only(prev_row))
    goes_on_at_f = ite(prev_marker, both(f > po, W(text, f - 1) == W(text, po), hidden_char(text, f - 1), f - 1 < n), f == g0)
    has_run = seg_is_run(seg_at(row, 0))
    ends_paragraph = both(either(f == n, both(f < n, is_nl(text, ite(f < n, f, 0)))), ite(prev_marker, f > po, both(f >= g0, W(text, f) == W(text, g0))))
    return ite(has_run, goes_on_at_f, either(goes_on_at_f, ends_paragraph))


def _sp_unwrappable(row, text, width):
    """The last line ends in a marker for a hidden space and its run does not fill the width: the code may take it
    back (`del segments[-1]`) -- once, the replacement is not unwrappable or idx has moved on."""
    ns = n_segs(row)
    e0 = seg_at(row, 0)
    h = ite(ns == 2, val(seg3_offs(seg_at(row, 1))), val(seg3_offs(e0)))
    psc = ite(ns == 2, seg_cols(e0), 0)
    has_marker = either(ns == 2, both(ns == 1, neg(seg_is_run(e0))))
    return both(has_marker, psc < width, h < tlen(text), is_sp(text, ite(h < tlen(text), h, 0)))


def _sp_facts(v, inner=False):
    segs, t, width, idx = v.segments, v.text, v.width, v.idx
    n = tlen(t)
    m = Q.seq_len(segs)
    yield "idx-within-the-text-or-just-past-it", both(0 <= idx, idx <= n + 1)
    yield "no-line-yet-only-at-the-start", either(m >= 1, idx == 0)
    if isinstance(segs.seq, tuple) and not segs.seq:
        return
    k = V.arbitrary("line")
    last = _row(segs, m - 1)
    yield "idx-is-behind-the-last-line", implies(m >= 1, both(
        implies(neg(sp_marker_only(last)), idx == sp_next(last)),
        implies(sp_marker_only(last), both(idx > sp_first_off(last), W(t, idx - 1) == W(t, sp_first_off(last)), hidden_char(t, idx - 1), idx - 1 <= n,
                                           either(idx - 1 == sp_first_off(last), both(idx - 1 < n, is_sp(t, ite(idx - 1 < n, idx - 1, 0))))))))
    fact = lambda q: both(space_line_ok(_row(segs, q), t, width), sp_gap(_row(segs, q - 1), _row(segs, q), t, q == 0))  # noqa: E731
    yield "every-line-so-far-is-well-formed-fits-and-continues-the-one-before", implies(both(0 <= k, k < m), fact(k))
    # (the same for the last two lines by name: the code looks at the last line, and un-wrapping exposes the one before)
    yield "so-is-the-last-line/shape", implies(m >= 1, space_line_ok(_row(segs, m - 1), t, width))
    yield "so-is-the-last-line/continues", implies(m >= 1, sp_gap(_row(segs, m - 2), _row(segs, m - 1), t, m == 1))
    yield "so-is-the-line-before-it", implies(m >= 2, fact(m - 2))
    yield "a-run-of-no-columns-only-as-the-last-line-before-a-character-that-cannot-fit", both(
        implies(both(0 <= k, k < m - 1), neg(_zero_run(_row(segs, k)))),
        implies(both(m >= 1, _zero_run(last)), both(idx < n, W(t, idx + 1) - W(t, idx) > width)))


def _sp_outer_inv(v):
    t = v.text
    segs = v.segments
    if not (isinstance(segs.seq, tuple) and not segs.seq):
        m = Q.seq_len(segs)
        bases = [sp_first_off(_row(segs, m - 1)), sp_next(_row(segs, m - 2)), sp_first_off(_row(segs, m - 2))]
        here = [getattr(v, name) for name in ("nl_pos", "pos", "prev", "next_char", "idx") if name in v and V.is_num(getattr(v, name))]
        for x in here:
            for b_ in bases + here:
                if b_ is not x:
                    w_mono(t, b_, x)
                    w_mono(t, b_ + 1, x)
    if "h_off" in v and "pos" in v and V.is_num(v.pos) and V.is_num(val(v.h_off)):
        # un-wrapping: the line taken back and its hidden space fit the width, so the new break is not before them
        w_mono(t, v.pos + 1, val(v.h_off) + 1)
        w_mono(t, val(v.h_off) + 1, v.pos)
    yield from _sp_facts(v)


def _sp_flag(segs, t, width):
    m = Q.seq_len(segs)
    if isinstance(segs.seq, tuple) and not segs.seq:
        return 1
    return ite(both(m >= 1, _sp_unwrappable(_row(segs, m - 1), t, width)), 1, 0)


def _sp_measure(v):
    """Termination: idx moves on in every iteration -- except that un-wrapping the previous line may leave idx where it
    was, and then the new last line cannot be un-wrapped again."""
    segs, t = v.segments, v.text
    m = Q.seq_len(segs)
    return 2 * (tlen(t) + 1 - v.idx) + _sp_flag(segs, t, v.width)


def _sp_inner_inv(v):
    t = v.text
    idx, pos, prev = v.idx, v.pos, v.prev
    yield "scan-stays-between-the-line-start-and-the-break", both(idx <= prev, prev <= pos)
    e = v.at_entry
    if e is not None and "segments" in e:
        # nothing is laid out while scanning (the scan appends a line only when it stops): idx and the lines are those of
        # the loop entry, as far as the termination measure looks at them
        yield "nothing-laid-out-while-scanning", both(idx == e.idx, Q.seq_len(v.segments) == Q.seq_len(e.segments), _sp_flag(v.segments, t, v.width) == _sp_flag(e.segments, t, v.width))
    yield "this-line-does-not-fit-and-breaks-at-pos", both(
        idx < pos, pos < v.nl_pos, v.nl_pos <= tlen(t), v.screen_columns == W(t, pos) - W(t, idx), v.screen_columns <= v.width,
        v.screen_columns + (W(t, pos + 1) - W(t, pos)) > v.width, neg(is_sp(t, pos)), W(t, pos + 1) - W(t, pos) != 2)
    yield from _sp_facts(v, inner=True)


def _sp_ens(old, s, a, result, callee=False):
    t, width = a.text, a.width
    n = tlen(t)
    m = Q.seq_len(result)
    last = _row(result, m - 1)
    yield "at-least-one-line", m >= 1
    yield "the-last-line-ends-the-text", both(n_segs(last) >= 1, neg(seg_is_run(seg_at(last, n_segs(last) - 1))), val(seg3_offs(seg_at(last, n_segs(last) - 1))) == n)
    ok = lambda k: both(space_line_ok(_row(result, k), t, width), neg(_zero_run(_row(result, k))), sp_gap(_row(result, k - 1), _row(result, k), t, k == 0))  # noqa: E731
    if callee:
        yield "every-line-is-well-formed-fits-the-width-and-continues-the-one-before", forall(0, m, ok, check_empty=False)
    else:
        k = V.arbitrary("line")
        yield "every-line-is-well-formed-fits-the-width-and-continues-the-one-before", implies(both(0 <= k, k < m), ok(k))


@contract(TL + "StandardTextLayout.calculate_text_segments", property="C03", replayable=False, alias="space-wrap")
class calculate_text_segments_space:
    self_shape = STL2
    params = dict(text=TEXT_QF, width=Int, wrap=Const("space"))
    setup = staticmethod(_space_setup)
    result = LAYOUT2
    raises = (_tl.CanNotDisplayText,)
    modifies = ()
    qf_branching = True
    ensures = staticmethod(_sp_ens)
    loops = {0: Loop(invariant=_sp_outer_inv, decreases=_sp_measure, shapes={"segments": LAYOUT2}),
             1: Loop(invariant=_sp_inner_inv, decreases=lambda v: v.prev - v.idx, shapes={"segments": LAYOUT2, "line": LINE})}
    static_checks = [_xc_newline_width, _xc_space_width]

    def requires(s, a):
        return a.width >= 1

    def on_raise(old, s, a, exc):
        idx = cur().ghost.get("exit_locals", {}).get("idx")
        t = a.text
        yield "cannot-display-only-a-character-wider-than-the-width", False if idx is None else both(0 <= idx, idx < tlen(t), W(t, idx + 1) - W(t, idx) > a.width)


# ---- concrete cross-checks of the engine rules this file relies on (run with every check, as static obligations)

def _xc_char_literal():
    """`text[k] == " "` on a modelled str (Interp.equals: a character against a one-character literal) agrees with
    CPython on a constant text, for every position."""
    from pyvc.engine import Config, Explorer, State
    from pyvc.interp import Interp
    from pyvc.text import SConst
    bad = []
    for s_ in ("a b", " ", "\n ", "ab"):
        for lit in (" ", "\n", "a", "ab"):
            for k_ in range(len(s_)):
                st = State(Explorer(Config()), [])
                V._current.append(st)
                try:
                    r = Interp(None).equals(st, SConst(s_).get(k_), lit)
                    want = s_[k_] == lit
                    if isinstance(r, bool):
                        ok = r == want
                    else:
                        ok = st._check(V._zb(r) if want else z3.Not(V._zb(r)), 2000)[0] == z3.sat and st._check(z3.Not(V._zb(r)) if want else V._zb(r), 2000)[0] == z3.unsat
                    if not ok:
                        bad.append((s_, lit, k_))
                finally:
                    V._current.pop()
    return ("char-literal-comparison-agrees-with-cpython", not bad, f"mismatches {bad[:3]}" if bad else "agrees on the sample")


def _xc_variant_colsums():
    """Component prefix sums of lists of variant records (pyvc.seqs._tuple_cpsum / elt_comp, concatenation and slices)
    agree with CPython's sum(seg[0] for seg in line[:k]) on concrete lines."""
    bad = []
    lines = [((2, None), (3, 0, 3), (0, 3)), ((5, 1, 6),), (), ((1, 2), (1, 2, b"x"), (4, None), (0, 9))]
    for ln in lines:
        f = Q.seq_cpsum(ln, 0)
        for k_ in range(len(ln) + 1):
            want = sum(s_[0] for s_ in ln[:k_])
            if f(k_) != want:
                bad.append((ln, k_))
        for lo in range(len(ln) + 1):
            part = Q.seq_concat(((7, None),), Q.seq_slice1(ln, lo, len(ln)))
            g = Q.seq_cpsum(part, 0)
            for k_ in range(len(part) + 1):
                if g(k_) != sum(s_[0] for s_ in part[:k_]):
                    bad.append((ln, lo, k_))
    return ("variant-record-column-sums-agree-with-cpython", not bad, f"mismatches {bad[:3]}" if bad else "agrees on the sample")


trim_line.static_checks = [_xc_variant_colsums]
calculate_text_segments_space.static_checks = list(calculate_text_segments_space.static_checks) + [_xc_char_literal]
