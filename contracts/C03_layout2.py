"""C03 -- text layout structure: contracts on the real functions of urwid/text_layout.py.

A layout is a list of lines; a line is a list of segments; a segment is one of
    (cols, offs | None)          padding / end-of-line marker ("removed character hint")
    (cols, offs, end_offs)       a run of the text  text[offs:end_offs]  shown in `cols` columns
    (cols, offs, bytes)          inserted text (the ellipsis mark)
modelled as a tagged union per list index (pyvc.seqs.fresh_seq, shape Union).
"""
import z3

from pyvc import seqs as Q
from pyvc import values as V
from pyvc.api import *
from pyvc.values import cur, mk_bool, mk_int

TL = "urwid/text_layout.py:"

PAD = Tup(Int, Opt(Int))
RUN = Tup(Int, Int, Int)
SEG = Union(PAD, RUN)
LINE = ListOf(SEG)




# ---- spec helpers over lines (dual use where cheap: plain lists of tuples natively)

def _cases(e):
    return e.cases if isinstance(e, V.SCases) else [(z3.BoolVal(True), e)]


def seg_sel(e, fn):
    """fn(variant tuple) selected by the segment's variant, non-forking (fn returns ints / bools / optionals)."""
    if not isinstance(e, V.SCases):
        return fn(e)
    cs = e.cases
    r = fn(cs[-1][1])
    for g, v in reversed(cs[:-1]):
        r = ite(mk_bool(g), fn(v), r)
    return r


def seg_cols(e):
    return seg_sel(e, lambda t: t[0])


def seg_is_shift(e):
    """The segment is an (amount, None) pair: a shift when it leads a line."""
    return seg_sel(e, lambda t: both(len(t) == 2, opt_isnone(t[1])) if len(t) == 2 else False)


def seg_is_run(e):
    """(cols, offs, end_offs): a run of the text."""
    return seg_sel(e, lambda t: len(t) == 3 and V.is_num(t[2]))


def n_segs(line):
    return Q.seq_len(line)


def seg_at(line, j):
    return Q.seq_get(line, j)


def elem_is(line, j, tup):
    """line[j] exists and is the segment `tup` (non-forking; a list of concrete length is compared position by position)."""
    s = line.seq if isinstance(line, Q.LRef) else line
    if isinstance(s, (tuple, list)):
        return either(False, *[both(eq(j, k), V.struct_eq(s[k], tup)) for k in range(len(s))])
    return both(0 <= j, j < Q.seq_len(s), V.struct_eq(Q.seq_get(s, j), tup))


def colsum(line, k):
    """Sum of the columns of the first k segments of a line (prefix-sum model field of the list, component 0)."""
    if not V._current:
        return sum(s[0] for s in line[:k])
    f = Q.seq_cpsum(line, 0)
    if f is None:
        raise V.Unsupported("line without a column prefix-sum model")
    return f(k)


def has_shift(line):
    """The line starts with a shift (amount, None)."""
    n = n_segs(line)
    if isinstance(n, int):
        return n > 0 and seg_is_shift(seg_at(line, 0))
    return both(n > 0, seg_is_shift(seg_at(line, 0)))


def spec_line_width(line):
    """line_width's documentation: the columns of all segments, ignoring a leading shift."""
    n = n_segs(line)
    total = colsum(line, n)
    first = seg_cols(seg_at(line, 0))
    return ite(has_shift(line), total - first, total)


@contract(TL + "line_width", property="C03", replayable=False)
class line_width:
    params = dict(segs=LINE)
    result = Int
    raises = ()

    def ensures(a, result):
        yield "columns-of-all-segments-but-a-leading-shift", result == spec_line_width(a.segs)

    loops = {0: Loop(invariant=lambda v: v.sc == colsum(v.seglist, v.i_))}


def same_from(res, k1, src, k0, callee=False):
    """res[k1:] == src[k0:] (same length, same segments in the same order).  As a proof goal: for an ARBITRARY index
    (universal generalisation, quantifier-free); as a fact at a call site: the quantified statement."""
    n = n_segs(src) - k0
    if not V._current:
        return list(res[k1:]) == list(src[k0:])
    if callee:
        return both(n_segs(res) - k1 == n, forall(0, n, lambda j: V.struct_eq(seg_at(res, k1 + j), seg_at(src, k0 + j)), check_empty=False))
    j = V.arbitrary("j")
    return both(n_segs(res) - k1 == n, implies(both(0 <= j, j < n), V.struct_eq(seg_at(res, k1 + j), seg_at(src, k0 + j))))


def _shift_ens(a, result, callee=False):
    segs, old = a.segs, a.old.segs
    k0 = ite(has_shift(old), 1, 0)
    total = a.amount + ite(has_shift(old), seg_cols(seg_at(old, 0)), 0)   # existing shift + requested shift
    k1 = ite(total != 0, 1, 0)
    yield "amount-is-an-int", isinstance(a.amount, (int, V.SInt))
    yield "columns-grow-by-exactly-the-amount", colsum(result, n_segs(result)) == colsum(old, n_segs(old)) + a.amount
    yield "one-leading-shift-holding-the-total-shift-or-none-when-zero", implies(total != 0, elem_is(result, 0, (total, None)))
    yield "every-other-segment-kept-in-order", same_from(result, k1, old, k0, callee)
    yield "argument-not-modified", same_from(segs, 0, old, 0, callee)


@contract(TL + "shift_line", property="C03", replayable=False)
class shift_line:
    params = dict(segs=LINE, amount=Union(Int, Const(1.5)))  # 1.5: a representative of "not an int"
    result = LINE
    raises = (TypeError,)
    raises_iff = {TypeError: lambda a: not isinstance(a.amount, (int, V.SInt))}
    ensures = staticmethod(_shift_ens)
    ensures_callee = staticmethod(lambda a, result: _shift_ens(a, result, True))

    def on_raise(a, exc):
        yield "only-for-a-non-int-amount", not isinstance(a.amount, (int, V.SInt))


# ---- LayoutSegment

from urwid import text_layout as _tl  # noqa: E402
from pyvc.api import PROTOCOLS  # noqa: E402
from pyvc.protocol import Protocol  # noqa: E402


def _ins_nonempty(st, v):
    """Truth value of an inserted text (a bytes object): non-empty -- an uninterpreted predicate of the individual."""
    return mk_bool(z3.Function("InsText.nonempty", v.e.sort(), z3.BoolSort())(v.e))


class _InsTextProtocol(Protocol):
    """The third component of an inserted-text segment: some `bytes` object (the encoded ellipsis mark).  Opaque:
    only its type (bytes) and its truth value (non-empty or not) are observed by the functions under contract."""
    kind = "InsText"
    methods = {}

    def isinstance(self, ip, st, obj, cls):
        return issubclass(bytes, cls)


PROTOCOLS["InsText"] = _InsTextProtocol()
INSTEXT = Opaque("InsText", truth=_ins_nonempty)
INS = Tup(Int, Int, INSTEXT)
SEG3 = Union(PAD, RUN, INS)
LINE3 = ListOf(SEG3)

LSEG = Obj(_tl.LayoutSegment, dict(sc=Int, offs=Opt(Int), text=Opt(INSTEXT), end=Opt(Int)))

# what is not a segment: representatives of each way of being malformed (1.5: "not an int", None: "not a tuple")
BAD_SEGS = (Const(None), Tup(Int), Tup(Int, Int, Int, Int), Tup(Const(1.5), Opt(Int)), Tup(Const(1.5), Int, Int),
            Tup(Int, Const(1.5)), Tup(Int, Const(1.5), Int), Tup(Int, Opt(Int), Int), Tup(Int, Int, Const(1.5)), Tup(Int, Int, Const(None)))


def _isint(x):
    return isinstance(x, (int, V.SInt)) and not isinstance(x, V.SBool)


def _isint_f(x):
    """`isinstance(x, int)` as a formula for an optional int / a constant."""
    if isinstance(x, V.SOpt):
        return neg(mk_bool(x.isnone))
    return _isint(x)


def _isnone_f(x):
    return opt_isnone(x) if isinstance(x, V.SOpt) else x is None


def seg_errors(seg):
    """(type_error, value_error): formulas saying that `seg` is not a segment structure because of a component of
    the wrong type / of a wrong value.  Segment structures: (cols, offs | None) with cols >= 0 unless offs is None;
    (cols > 0, offs, end_offs); (cols > 0, offs, bytes).  Where both kinds of defect are present the constructor
    reports the one it meets first (arity, type of cols, then per arity: type of offs, value of cols, type of the
    third component) -- the order is the code's, the set of malformed values is the documentation's."""
    if not isinstance(seg, tuple):
        return True, False
    if len(seg) not in (2, 3):
        return False, True
    sc, offs = seg[0], seg[1]
    if not _isint(sc):
        return True, False
    if len(seg) == 3:
        t = seg[2]
        t_ok = _isint(t) or (isinstance(t, V.SOpaque) and t.kind == "InsText") or isinstance(t, bytes)
        oi = _isint_f(offs)
        return either(neg(oi), both(oi, sc > 0, not t_ok)), both(oi, sc <= 0)
    isn = _isnone_f(offs)
    return both(neg(isn), sc >= 0, neg(_isint_f(offs))), both(neg(isn), sc < 0)


def _lseg_ens(old, s, a, result):
    seg = a.seg
    te, ve = seg_errors(seg)
    yield "only-a-segment-structure-is-accepted", both(neg(te), neg(ve))
    if not isinstance(seg, tuple) or len(seg) not in (2, 3):
        return
    yield "columns-and-offset-are-the-segments", both(eq(s.sc, seg[0]), opt_eq(s.offs, seg[1]))
    if len(seg) == 3:
        t = seg[2]
        yield "shown-segments-have-columns", s.sc > 0
        if _isint(t):
            yield "text-run-keeps-its-end-and-has-no-inserted-text", both(opt_eq(s.end, t), _isnone_f(s.text))
        else:
            yield "inserted-text-kept-and-no-end", both(opt_eq(s.text, t), _isnone_f(s.end))
    else:
        yield "padding-has-neither-end-nor-inserted-text", both(_isnone_f(s.end), _isnone_f(s.text))
        yield "padding-with-an-offset-is-not-negative", implies(neg(_isnone_f(s.offs)), s.sc >= 0)


def _lseg_ens_callee(old, s, a, result):
    a = View(dict(a._d, seg=cur().force(a.seg)))  # at a call site the segment is an element of a line: split by variant
    yield from _lseg_ens(old, s, a, result)


def _lseg_raises(exc_cls):
    def cond(s, a):
        seg = cur().force(a.seg) if V._current else a.seg
        te, ve = seg_errors(seg)
        return te if exc_cls is TypeError else ve
    return cond


@contract(TL + "LayoutSegment.__init__", property="C03", replayable=False)
class layout_segment_init:
    self_shape = LSEG
    constructs = LSEG
    ctor_params = ("seg",)
    params = dict(seg=Union(PAD, RUN, INS, *BAD_SEGS))
    raises = (TypeError, ValueError)
    raises_iff = {TypeError: _lseg_raises(TypeError), ValueError: _lseg_raises(ValueError)}
    modifies = ("sc", "offs", "text", "end")
    ensures = staticmethod(_lseg_ens)
    ensures_callee = staticmethod(_lseg_ens_callee)

    def on_raise(old, s, a, exc):
        te, ve = seg_errors(a.seg)
        if exc.cls is TypeError:
            yield "type-error-only-for-a-component-of-the-wrong-type", te
        else:
            yield "value-error-only-for-a-wrong-arity-or-column-count", ve


from contracts.C11_width import W, tlen  # noqa: E402  (the abstract text model: W(t, k) = columns of the first k characters)

TEXT = Text("str")


def run_ok(text, sc, offs, end):
    """A text run (sc, offs, end) of `text`: a slice of the text whose column count is the width of its characters."""
    return both(0 <= offs, offs <= end, end <= tlen(text), sc == W(text, end) - W(text, offs))


def lseg_wf(s, text):
    """The LayoutSegment object describes a segment of a line laid out for `text` (what the constructor accepts,
    plus: a run lies within the text and its columns are the width of its characters)."""
    is_run = neg(_isnone_f(s.end))
    offs_none = _isnone_f(s.offs)
    return both(
        implies(is_run, both(neg(offs_none), s.sc > 0, run_ok(text, s.sc, val(s.offs), val(s.end)))),
        implies(both(neg(is_run), neg(offs_none)), s.sc >= 0))



class Src:
    """A segment of the original line as the source of pieces: columns, offset (optional), end (0 for padding), and
    whether it is a run of the text."""
    def __init__(self, sc, offs, end, is_run):
        self.sc, self.offs, self.end, self.is_run = sc, offs, end, is_run


def src_of_obj(s):
    return Src(s.sc, s.offs, ite(_isnone_f(s.end), 0, val(s.end)) if isinstance(s.end, V.SOpt) else (s.end or 0), neg(_isnone_f(s.end)))


def src_of_seg(e):
    return Src(seg_cols(e), seg_sel(e, lambda t: t[1]), seg_sel(e, lambda t: t[2] if len(t) == 3 else 0), seg_is_run(e))


def piece(t, src, c, text):
    """Segment `t` of a trimmed line shows, starting at column `c` of the source segment `src`, what the source shows
    there:
      * part of a padding segment: padding with the same offset, within the source's columns;
      * part of a run (sc, o, e): a run (w, o', e') with o <= o' <= e' <= e whose first character has column c in
        the source -- so every character keeps its column -- or ONE column of padding (1, k) standing for the half
        of a character k of the run that is cut by the edge: the character ends right after this column
        (left edge) or starts at it (right edge)."""
    o = val(src.offs)
    e = src.end

    def fn(tt):
        if len(tt) == 2:
            w, k_opt = tt
            k = val(k_opt)
            from_pad = both(neg(src.is_run), opt_eq(k_opt, src.offs), 0 <= c, c + w <= src.sc)
            cut = False if k is None else both(src.is_run, neg(_isnone_f(k_opt)), w == 1, o <= k, k < e,
                                               either(W(text, k + 1) - W(text, o) == c + 1, W(text, k) - W(text, o) == c))
            return either(from_pad, cut)
        w, o2, e2 = tt
        return both(src.is_run, o <= o2, o2 <= e2, e2 <= e, W(text, o2) - W(text, o) == c)

    return seg_sel(t, fn)


def pieces_of(result, src, c0, text, callee):
    """Every segment q of `result` is a piece of `src` at column c0 + (columns of result before q)."""
    s_ = result.seq if isinstance(result, Q.LRef) else result
    if isinstance(s_, (tuple, list)):
        return both(True, *[piece(s_[q], src, c0 + colsum(result, q), text) for q in range(len(s_))])
    if callee:
        return forall(0, n_segs(result), lambda q: piece(seg_at(result, q), src, c0 + colsum(result, q), text), check_empty=False)
    q = V.arbitrary("piece")
    return implies(both(0 <= q, q < n_segs(result)), piece(seg_at(result, q), src, c0 + colsum(result, q), text))


def _subseg_witness(callee):
    st = cur()
    if callee:
        return tuple(st.fresh_int(n) for n in ("spos", "epos", "pad_left", "pad_right"))
    loc = st.ghost.get("exit_locals", {})
    if "spos" not in loc:
        return None
    return loc["spos"], loc["epos"], loc["pad_left"], loc["pad_right"]


def _subseg_ens(old, s, a, result, callee=False):
    t = a.text
    s0, e0 = imax(a.start, 0), imin(a.end, old.sc)     # the requested column range, clamped to the segment
    n = n_segs(result)
    yield "no-columns-left-gives-no-segments", implies(s0 >= e0, n == 0)
    yield "columns-are-exactly-the-clamped-range", implies(s0 < e0, colsum(result, n) == e0 - s0)
    is_run = neg(_isnone_f(old.end))
    yield "padding-is-cut-to-the-range-and-keeps-its-offset", implies(both(s0 < e0, neg(is_run)),
                                                                     both(n == 1, elem_is(result, 0, (e0 - s0, old.offs))))
    if callee or bool(both(s0 < e0, is_run)):
        # there are offsets spos <= epos and pad flags such that ... (witnesses: the function's own locals)
        wit = _subseg_witness(callee)
        if wit is None:
            yield "run-is-cut-at-character-boundaries", False
            return
        spos, epos, pl, pr = wit
        offs, end = val(old.offs), val(old.end)
        mid = e0 - s0 - pl - pr
        r = ite(mid > 0, 1, 0)
        yield "run-is-cut-at-character-boundaries", implies(both(s0 < e0, is_run), both(
            either(pl == 0, pl == 1), either(pr == 0, pr == 1), offs <= spos, spos <= epos, epos <= end,
            # the kept characters start at the first boundary at or after column s0 and end at the last one at or before
            # e0; a double-width character lying across an edge is replaced by one column of padding
            W(t, spos) - W(t, offs) == s0 + pl, W(t, epos) - W(t, offs) == e0 - pr))
        yield "result-is-left-pad-kept-run-right-pad", implies(both(s0 < e0, is_run), both(
            n == pl + r + pr,
            implies(pl == 1, elem_is(result, 0, (1, spos - 1))),
            implies(r == 1, elem_is(result, pl, (mid, spos, epos))),
            implies(pr == 1, elem_is(result, pl + r, (1, epos)))))
        yield "kept-run-is-a-run-of-the-text", implies(both(s0 < e0, is_run, r == 1), run_ok(t, mid, spos, epos))
    yield "each-result-segment-shows-part-of-this-segment-at-its-column", implies(s0 < e0, pieces_of(result, src_of_obj(old), s0, t, callee))


@contract(TL + "LayoutSegment.subseg", property="C03", replayable=False)
class layout_segment_subseg:
    self_shape = LSEG
    params = dict(text=TEXT, start=Int, end=Int)
    result = LINE
    raises = ()
    modifies = ()
    ensures = staticmethod(_subseg_ens)
    ensures_callee = staticmethod(lambda old, s, a, result: _subseg_ens(old, s, a, result, True))

    def requires(s, a):
        # inserted-text segments (cols, offs, bytes) are not covered: their bytes are cut by calc_trim_text, which is
        # under contract for str texts only (contracts/C11_width.py)
        return both(_isnone_f(s.text), lseg_wf(s, a.text))


# ---- StandardTextLayout.align_layout / pack / layout

STL = Obj(_tl.StandardTextLayout, {})
LAYOUT = ListOf(ListOf(SEG3))
ALIGN = Atom("left", "center", "right", "justify")   # "justify": a representative of an unsupported alignment


def spec_pad(align, width, lw):
    """The statement's alignment rule: pad by exactly 0, half (rounded up) or all of the spare columns."""
    spare = width - lw
    return ite(either(align == "left", spare == 0), 0, ite(align == "right", spare, (spare + 1) // 2))


def aligned_line(out_line, in_line, align, width, callee=False):
    """out_line is in_line with the statement's padding in front (one (pad, None) segment, none when the pad is 0)."""
    lw = colsum(in_line, n_segs(in_line))
    pad = spec_pad(align, width, lw)
    k1 = ite(pad != 0, 1, 0)
    return both(implies(pad != 0, elem_is(out_line, 0, (pad, None))), same_from(out_line, k1, in_line, 0, callee),
                colsum(out_line, n_segs(out_line)) == pad + lw)


def _row(layout, j):
    return Q.seq_get(layout, j)


def _align_ens(old, s, a, result, callee=False):
    n = Q.seq_len(a.old.segs)
    known = either(a.align == "left", a.align == "center", a.align == "right")
    yield "one-line-out-per-line-in", Q.seq_len(result) == n
    if callee:
        yield "each-line-padded-by-0-half-rounded-up-or-all-spare-columns", forall(0, n, lambda j: aligned_line(_row(result, j), _row(a.old.segs, j), a.align, a.width, True), check_empty=False)
        yield "unknown-alignment-only-if-nothing-to-align", implies(neg(known), forall(0, n, lambda j: colsum(_row(a.old.segs, j), n_segs(_row(a.old.segs, j))) == a.width, check_empty=False))
        return
    j = V.arbitrary("row")
    inr = both(0 <= j, j < n)
    yield "each-line-padded-by-0-half-rounded-up-or-all-spare-columns", implies(inr, aligned_line(_row(result, j), _row(a.old.segs, j), a.align, a.width))
    lw = colsum(_row(a.old.segs, j), n_segs(_row(a.old.segs, j)))
    yield "a-line-that-fits-stays-within-the-width", implies(both(inr, lw <= a.width, known), colsum(_row(result, j), n_segs(_row(result, j))) <= a.width)
    yield "unknown-alignment-only-if-nothing-to-align", implies(both(neg(known), inr), lw == a.width)


def _align_inv(v):
    j = V.arbitrary("row")
    out, segs = v.out, v.segs
    yield "one-line-out-per-line-done", Q.seq_len(out) == v.i_
    if isinstance(out.seq, tuple) and not out.seq:
        return  # the empty list at loop entry: nothing is done yet
    yield "lines-done-are-aligned", implies(both(0 <= j, j < v.i_), aligned_line(_row(out, j), _row(segs, j), v.align, v.width))
    yield "unknown-alignment-met-only-full-lines", implies(both(neg(either(v.align == "left", v.align == "center", v.align == "right")), 0 <= j, j < v.i_),
                                                           colsum(_row(segs, j), n_segs(_row(segs, j))) == v.width)


def no_shift_lines(layout):
    """No line starts with a shift (amount, None): the lines come from calculate_text_segments, unaligned."""
    return forall(0, Q.seq_len(layout), lambda j: neg(has_shift(_row(layout, j))), check_empty=False)


@contract(TL + "StandardTextLayout.align_layout", property="C03", replayable=False)
class align_layout:
    self_shape = STL
    params = dict(text=TEXT, width=Int, segs=LAYOUT, wrap=Atom("any", "space", "clip", "ellipsis"), align=ALIGN)
    result = LAYOUT
    raises = (ValueError,)
    modifies = ()
    ensures = staticmethod(_align_ens)
    ensures_callee = staticmethod(lambda old, s, a, result: _align_ens(old, s, a, result, True))
    loops = {0: Loop(invariant=_align_inv, shapes={"out": LAYOUT})}

    def requires(s, a):
        return no_shift_lines(a.segs)

    def on_raise(old, s, a, exc):
        yield "only-for-an-unknown-alignment", neg(either(a.align == "left", a.align == "center", a.align == "right"))


def exists(lo, hi, fn):
    """Some integer j with lo <= j < hi satisfies fn(j) (dual of pyvc.values.forall, same treatment of side facts)."""
    return neg(forall(lo, hi, lambda j: neg(fn(j)), check_empty=False))


def row_width(layout, j):
    """line_width of line j of a layout (the columns of its segments, a leading shift ignored)."""
    return spec_line_width(_row(layout, j))


def _pack_ens(old, s, a, result, callee=False):
    lay = a.old.layout
    n = Q.seq_len(lay)
    yield "layout-has-a-line", n > 0
    all_below = forall(0, n, lambda k: row_width(lay, k) < a.maxcol, check_empty=False)
    attained = either(result == 0, exists(0, n, lambda k: row_width(lay, k) == result))
    if callee:
        yield "maxcol-as-soon-as-a-line-reaches-it", implies(neg(all_below), result == a.maxcol)
        yield "else-the-widest-line", implies(all_below, both(result >= 0, attained, forall(0, n, lambda k: row_width(lay, k) <= result, check_empty=False)))
        return
    j = V.arbitrary("row")
    inr = both(0 <= j, j < n)
    yield "maxcol-as-soon-as-a-line-reaches-it", implies(both(inr, row_width(lay, j) >= a.maxcol), result == a.maxcol)
    yield "else-at-least-as-wide-as-every-line", implies(both(all_below, inr), row_width(lay, j) <= result)
    yield "else-exactly-the-widest-line-or-zero", implies(all_below, both(result >= 0, attained))


def _pack_inv(v):
    j = V.arbitrary("row")
    lay = v.layout
    yield "widest-so-far-not-negative", v.maxwidth >= 0
    yield "lines-so-far-below-maxcol-and-covered", implies(both(0 <= j, j < v.i_), both(row_width(lay, j) < v.maxcol, row_width(lay, j) <= v.maxwidth))
    yield "widest-so-far-is-some-lines-width-or-zero", either(v.maxwidth == 0, exists(0, v.i_, lambda k: row_width(lay, k) == v.maxwidth))


@contract(TL + "StandardTextLayout.pack", property="C03", replayable=False)
class pack:
    self_shape = STL
    params = dict(maxcol=Int, layout=LAYOUT)
    result = Int
    raises = (ValueError,)
    raises_iff = {ValueError: lambda s, a: Q.seq_len(a.layout) == 0}
    modifies = ()
    ensures = staticmethod(_pack_ens)
    ensures_callee = staticmethod(lambda old, s, a, result: _pack_ens(old, s, a, result, True))
    loops = {0: Loop(invariant=_pack_inv)}

    def on_raise(old, s, a, exc):
        yield "only-for-an-empty-layout", Q.seq_len(a.layout) == 0


# ---- trim_line

def seg_ok(e, text, j):
    """Segment j of a line laid out for `text`: padding (cols >= 0, offs | None) -- only a leading shift (amount, None)
    may be negative --, or a run (cols > 0, offs, end) of the text whose columns are the width of its characters."""
    def ok(t):
        if len(t) == 2:
            return either(t[0] >= 0, both(j == 0, _isnone_f(t[1])))
        return both(t[0] > 0, run_ok(text, t[0], t[1], t[2]))
    return seg_sel(e, ok)


def line_wf(line, text, lo=0):
    return forall(lo, n_segs(line), lambda j: seg_ok(seg_at(line, j), text, j), check_empty=False)


@lemma("columns-prefix-sum-monotone", property="C03")
class cols_monotone:
    """A prefix sum of non-negative columns never decreases: P(b) := S(a) <= S(b) for a <= b, by induction on b
    (base b = a; step from the defining equation S(b+1) = S(b) + cols(b), cols(b) >= 0).  Used, instantiated, for the
    columns of the segments after a (possibly negative) leading shift."""
    params = dict(a=Int, b=Int, t=Int, sa=Int, sb=Int)

    def requires(x):
        return both(x.a <= x.b, x.t >= 0, x.sa <= x.sb)

    def claim(x):
        yield "base", x.sa <= x.sa
        yield "step", x.sa <= x.sb + x.t


def cols_mono(line, wf, a, b):
    """Instance of `columns-prefix-sum-monotone`: under the line's well-formedness `wf` (segments from index 1 on have
    non-negative columns), 1 <= a <= b <= len  =>  colsum(a) <= colsum(b)."""
    cur().assume(implies(both(wf, 1 <= a, a <= b, b <= n_segs(line)), colsum(line, a) <= colsum(line, b)))


def spec_trim_width(line, start, end):
    """Columns of the trimmed line: the part of [start, end) the line covers."""
    return imax(imin(end, colsum(line, n_segs(line))) - start, 0)


def shows_original(res, r, segs, upto, start0, text):
    """Segment r of the trimmed line is a piece of some original segment j < upto, at the column where it stands in
    the trimmed line plus `start0`, counted from where segment j starts in the original line."""
    y = colsum(res, r)
    return exists(0, upto, lambda j: piece(seg_at(res, r), src_of_seg(seg_at(segs, j)), y + start0 - colsum(segs, j), text))


def _trim_ens(a, result, callee=False):
    segs, t = a.old.segs, a.text
    n = n_segs(segs)
    wf = line_wf(segs, t)
    st = cur()
    if not callee:
        # instances of the monotonicity lemma at the indices in play: where the loop stopped, and the end of the line
        k = st.ghost.get("loop_index")
        if k is not None:
            cols_mono(segs, wf, k + 1, n)
            cols_mono(segs, wf, imax(k, 1), n)
    yield "columns-are-exactly-the-part-of-the-range-the-line-covers", colsum(result, n_segs(result)) == spec_trim_width(segs, a.start, a.end)   # FAILS-ON-TREE: trim_line([(2,0,2),(2,2,4),(2,4,6)], 'abcdef', 0, 3) has 6 columns (x is not advanced over segments kept whole)
    if callee:
        yield "result-is-a-line-of-the-text", line_wf(result, t)
        yield "every-result-segment-shows-part-of-an-original-segment-at-its-column-minus-start", forall(
            0, n_segs(result), lambda r: shows_original(result, r, segs, n, a.start, t), check_empty=False)
    else:
        r = V.arbitrary("seg")
        yield "result-is-a-line-of-the-text", implies(both(0 <= r, r < n_segs(result)), seg_ok(seg_at(result, r), t, r))
        yield "every-result-segment-shows-part-of-an-original-segment-at-its-column-minus-start", implies(
            both(0 <= r, r < n_segs(result)), shows_original(result, r, segs, n, a.start, t))


def _trim_inv(v):
    segs, t = v.segs, v.text
    i, n = v.i_, n_segs(v.segs)
    start0 = v.old.start
    X = colsum(segs, i)
    res = v.result
    wf = line_wf(segs, t)
    cols_mono(segs, wf, 1, i)
    yield "x-is-the-column-where-the-next-segment-starts", v.x == X   # FAILS-ON-TREE (inv-preserve on the path that keeps a whole segment: `x += sc` is missing there)
    yield "start-is-what-is-left-to-skip", v.start == imax(start0 - X, 0)
    yield "columns-so-far-stay-within-the-range", X <= v.end
    yield "result-holds-the-columns-from-start-to-here", colsum(res, n_segs(res)) == imax(X - start0, 0)
    yield "next-segment-is-well-formed", implies(i < n, seg_ok(seg_at(segs, i), t, i))
    if isinstance(res.seq, tuple) and not res.seq:
        return
    r = V.arbitrary("seg")
    yield "result-so-far-is-a-line-of-the-text", implies(both(0 <= r, r < n_segs(res)), seg_ok(seg_at(res, r), t, r))
    yield "result-so-far-shows-parts-of-the-segments-done-at-their-columns-minus-start", implies(
        both(0 <= r, r < n_segs(res)), shows_original(res, r, segs, i, start0, t))


@contract(TL + "trim_line", property="C03", replayable=False)
class trim_line:
    params = dict(segs=LINE, text=TEXT, start=Int, end=Int)
    result = LINE
    raises = ()
    ensures = staticmethod(_trim_ens)
    ensures_callee = staticmethod(lambda a, result: _trim_ens(a, result, True))
    loops = {0: Loop(invariant=_trim_inv, shapes={"result": LINE})}

    def requires(a):
        # (lines holding inserted-text segments are not covered: see LayoutSegment.subseg)
        return both(line_wf(a.segs, a.text), 0 <= a.start, a.start <= a.end)


# ---- calc_coords: the cell of a text position

def seg3_offs(e):
    return seg_sel(e, lambda t: t[1])


def seg3_end(e):
    return seg_sel(e, lambda t: t[2] if len(t) == 3 and V.is_num(t[2]) else 0)


def seg_has_offs(e):
    return neg(_isnone_f(seg3_offs(e)))


def seg_valid(e, text):
    """What LayoutSegment accepts, and a run lies within the text."""
    def ok(t):
        if len(t) == 2:
            return either(_isnone_f(t[1]), t[0] >= 0)
        if V.is_num(t[2]):
            return both(t[0] > 0, 0 <= t[1], t[1] <= t[2], t[2] <= tlen(text))
        return t[0] > 0
    return seg_sel(e, ok)


def layout_valid(layout, text):
    return forall(0, Q.seq_len(layout), lambda y: forall(0, n_segs(_row(layout, y)), lambda j: seg_valid(seg_at(_row(layout, y), j), text), check_empty=False), check_empty=False)


def seg_holds(e, pos):
    """The segment stands for text position pos: its offset is pos, or it is a run offs <= pos < end."""
    o = val(seg3_offs(e))
    return both(seg_has_offs(e), either(o == pos, both(seg_is_run(e), o <= pos, pos < seg3_end(e))))


def seg_dist(e, pos):
    """How far a segment that does not hold pos is from it: from its last character if it is a run ending before
    pos, else from its offset."""
    o = val(seg3_offs(e))
    end = seg3_end(e)
    return ite(both(seg_is_run(e), end < pos), pos - (end - 1), iabs(o - pos))


def _before(y1, j1, y2, j2):
    return either(y1 < y2, both(y1 == y2, j1 < j2))


def _cell_in(layout, ry, rj):
    return both(0 <= ry, ry < Q.seq_len(layout), 0 <= rj, rj < n_segs(_row(layout, ry)))


def _closest_facts(layout, text, pos, closest, yy, k):
    """closest is None while no visited segment has an offset; else (d, (x, y)): d is the least distance of the visited
    segments with an offset, attained by one that starts at cell (x, y).  Visited: before (yy, k) in reading order."""
    ry, rj = V.arbitrary("ry"), V.arbitrary("rj")
    e = seg_at(_row(layout, ry), rj)
    vis = both(_cell_in(layout, ry, rj), _before(ry, rj, yy, k))
    isn = _isnone_f(closest)
    yield "no-closest-while-no-offset-seen", implies(both(isn, vis), neg(seg_has_offs(e)))
    if closest is None:
        return
    d, (cx, cy) = val(closest)
    yield "closest-distance-is-minimal", implies(both(neg(isn), vis, seg_has_offs(e)), seg_dist(e, pos) >= d)
    yield "closest-distance-is-attained-at-its-cell", implies(neg(isn), exists(0, yy + 1, lambda y1: exists(0, n_segs(_row(layout, y1)), lambda j1: both(
        _before(y1, j1, yy, k), seg_has_offs(seg_at(_row(layout, y1), j1)), seg_dist(seg_at(_row(layout, y1), j1), pos) == d,
        cx == colsum(_row(layout, y1), j1), cy == y1))))


def _cc_common(v, yy, k):
    layout, pos = v.layout, v.pos
    ry, rj = V.arbitrary("ry"), V.arbitrary("rj")
    e = seg_at(_row(layout, ry), rj)
    vis = both(_cell_in(layout, ry, rj), _before(ry, rj, yy, k))
    yield "no-segment-so-far-holds-pos", implies(vis, neg(seg_holds(e, pos)))
    yield from _closest_facts(layout, v.text, pos, v.closest, yy, k)


def _cc_outer(v):
    yield "y-is-the-row", v.y == v.i_
    yield from _cc_common(v, v.i_, 0)


def _cc_inner(v):
    row = v.line_layout
    yield "row-in-hand", both(0 <= v.y, v.y < Q.seq_len(v.layout), n_segs(row) == n_segs(_row(v.layout, v.y)))
    yield "x-is-the-column-where-the-next-segment-starts", v.x == colsum(_row(v.layout, v.y), v.i_)
    yield from _cc_common(v, v.y, v.i_)


CLOSEST = Opt(Tup(Int, Tup(Int, Int)))


def _cc_ens(a, result, callee=False):
    layout, pos, t = a.layout, a.pos, a.text
    rx, ry_ = result
    n = Q.seq_len(layout)
    ry, rj = V.arbitrary("ry"), V.arbitrary("rj")
    e = seg_at(_row(layout, ry), rj)
    inr = _cell_in(layout, ry, rj)

    def first_holder(y1, j1):
        e1 = seg_at(_row(layout, y1), j1)
        return both(_cell_in(layout, y1, j1), seg_holds(e1, pos),
                    forall(0, y1 + 1, lambda y2: forall(0, n_segs(_row(layout, y2)), lambda j2: implies(_before(y2, j2, y1, j1), neg(seg_holds(seg_at(_row(layout, y2), j2), pos))), check_empty=False), check_empty=False))

    def cell_of(y1, j1):
        e1 = seg_at(_row(layout, y1), j1)
        o = val(seg3_offs(e1))
        return both(rx == colsum(_row(layout, y1), j1) + ite(o == pos, 0, W(t, pos) - W(t, o)), ry_ == y1)

    none_holds = forall(0, n, lambda y1: forall(0, n_segs(_row(layout, y1)), lambda j1: neg(seg_holds(seg_at(_row(layout, y1), j1), pos)), check_empty=False), check_empty=False)
    none_offs = forall(0, n, lambda y1: forall(0, n_segs(_row(layout, y1)), lambda j1: neg(seg_has_offs(seg_at(_row(layout, y1), j1))), check_empty=False), check_empty=False)
    if callee:
        yield "cell-of-the-character-at-pos-in-the-first-segment-that-holds-it", forall(0, n, lambda y1: forall(0, n_segs(_row(layout, y1)), lambda j1: implies(first_holder(y1, j1), cell_of(y1, j1)), check_empty=False), check_empty=False)
        d = cur().fresh_int("closest_d")
    else:
        yield "cell-of-the-character-at-pos-in-the-first-segment-that-holds-it", implies(first_holder(ry, rj), cell_of(ry, rj))
        cl = cur().ghost.get("exit_locals", {}).get("closest")
        d = None if cl is None or bool(_isnone_f(cl)) else val(cl)[0]
    yield "origin-when-no-segment-has-an-offset", implies(none_offs, both(rx == 0, ry_ == 0))
    if d is None:
        # the function met no segment with an offset (closest is still None): then there is none at all -- for an
        # arbitrary cell (universal generalisation) -- and the clause below has nothing to say
        yield "else-start-of-a-closest-segment", implies(both(inr, none_holds), neg(seg_has_offs(e)))
        return
    attained = exists(0, n, lambda y1: exists(0, n_segs(_row(layout, y1)), lambda j1: both(
        seg_has_offs(seg_at(_row(layout, y1), j1)), seg_dist(seg_at(_row(layout, y1), j1), pos) == d, rx == colsum(_row(layout, y1), j1), ry_ == y1)))
    if callee:
        minimal = forall(0, n, lambda y1: forall(0, n_segs(_row(layout, y1)), lambda j1: implies(seg_has_offs(seg_at(_row(layout, y1), j1)), seg_dist(seg_at(_row(layout, y1), j1), pos) >= d), check_empty=False), check_empty=False)
    else:
        minimal = implies(both(inr, seg_has_offs(e)), seg_dist(e, pos) >= d)
    yield "else-start-of-a-closest-segment", implies(both(none_holds, neg(none_offs)), both(attained, minimal))


@contract(TL + "calc_coords", property=("C03", "C10"), replayable=False)
class calc_coords:
    params = dict(text=TEXT, layout=LAYOUT, pos=Int, clamp=Int)
    result = Tup(Int, Int)
    raises = ()
    ensures = staticmethod(_cc_ens)
    ensures_callee = staticmethod(lambda a, result: _cc_ens(a, result, True))
    loops = {0: Loop(invariant=_cc_outer, shapes={"closest": CLOSEST}), 1: Loop(invariant=_cc_inner, shapes={"closest": CLOSEST})}
    qf_branching = True   # solver strategy only: branch feasibility on the quantifier-free part of the path condition

    def requires(a):
        return both(layout_valid(a.layout, a.text), 0 <= a.pos, a.pos <= tlen(a.text))
