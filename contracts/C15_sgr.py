"""C15 — SGR colours and renditions of the embedded terminal (urwid/vterm.py: TermCanvas.sgi_to_attrspec,
csi_set_attr, reverse_attrspec, reverse_video) and the scrolled-back view (TermCanvas.content).

STATEMENT (properties.jsonl C15): "On the subset of ... SGR colours, its screen contents ... equal those of a reference
VT100 model" and "the embedded terminal never raises".  The rendition of the terminal is

    (foreground, background, bold, underline, blink, standout),  a colour = default | palette index 0..255 | 24-bit rgb

and the REFERENCE (ECMA-48 8.3.117 / xterm ctlseqs; the reading of spec/vt100.py `_sgr`, cross-checked against it by the
static check `reference-sgr-agrees-with-spec-vt100`) folds a parameter list into it: `ref_step` below.  Outside
spec/vt100.py's subset the reference is total: an unknown parameter, a palette index > 255, a colour component > 255
and a truncated / unknown 38 / 48 form change nothing (the first three consume their arguments; a truncated form is
skipped alone).  `RUN(attrs, i, S)` = the rendition after the parameters from position i on, started in S (a recursive
spec function: one uninterpreted function per component with its definitional unfolding instantiated groundly).

WHAT IS PROVED ON THE REAL CODE
 * sgi_to_attrspec: the loop interprets the parameters exactly as the reference does (invariant: RUN from the current
   position and the current locals is RUN from 0 and the arguments), never raises, and the AttrSpec it builds DECODES
   (through AttrSpec's real accessors over the bit word, C18) to the reference's rendition — colours compared by
   what they denote (palette entries >= 16 are xterm's fixed rgb values), bold + basic colour n shown as n or n + 8.
 * csi_set_attr: decoding the stored AttrSpec gives back the rendition that was encoded, so the new rendition is the
   reference applied to the OLD rendition: a later SGR never changes a colour or flag it does not mention.
 * lemmas: the reference respects the two legitimate variants (bold-bright, denotation), which composes the
   per-call clause into "equal to the reference after any sequence of SGR parameter lists".
 * reverse_attrspec / reverse_video: standout set / cleared, nothing else; every cell of the grid.
 * content: the rows shown -- the last `scrolling_up` rows of the scroll-back, then the top of the grid, each exactly
   `width` cells (scroll / scroll_buffer / resize, which fill the scroll-back and clamp the offset: C15_vterm.py).
 Defect found while writing these clauses and fixed in /repo since (the clause failed, replayed natively): csi_set_attr
 reset the rendition whenever the LAST parameter was 0, also when that 0 was the argument of 38;5;N / 48;5;N / 38;2;r;g;b.

TRUSTED (assumed contracts, each cross-checked against the real classes on every run by static checks):
 the TEXT CODEC of AttrSpec — which bit word `AttrSpec(fg_text, bg_text, colors)` builds for the texts vterm produces
 ("default", the 16 basic names, `_color_desc_256(n)`, `_color_desc_true(v)`, `_color_desc_88(n)`, plus setting names in
 any order), which texts `.foreground` / `.background` give back, and `copy_modified`.  Texts are ABSTRACT here
 (ColDesc / FgText / PartList: a description is identified by (kind, number), a foreground text by its colour
 description and its set of settings); str.split / strip / join / `in` on them are modelled on that abstraction.
 C18 verifies AttrSpec's own code against a character-level model, but its call-site clauses for the foreground
 setter do not determine the stored word, so this file cannot use them for the round trip.
"""
import z3

from contracts.C15_vterm import CHARSET, GI, MODES, TERM, VT, cell, rows_of, same_value
from contracts.C18_colours import ATTRSPEC, ATTRSPEC_ERROR, BG, DC, FG, GETTERS, LAYOUT, SPEC, WORD, BitWord, bg_number, bit_index, colors_spec, fg_number, flag, real_const, wf, word
from pyvc import seqs as Q
from pyvc import values as V
from pyvc.api import *
from pyvc.api import REGISTRY
from pyvc.engine import PyRaise, SExc
from pyvc.seqs import ModelObj
from pyvc.values import SBool, SInt, SOpaque, SOpt, cur, mk_bool, mk_int
from urwid import vterm as _vt

# =================================================================================================================
# 1. the reference: renditions and the SGR interpreter
# =================================================================================================================
K_DEFAULT, K_INDEX, K_RGB = 0, 1, 2
FLAG_NAMES = ("bold", "underline", "blink", "standout")
DEFAULT_STATE = (K_DEFAULT, 0, K_DEFAULT, 0, False, False, False, False)  # power-on / after SGR 0


def ref_step(at, n, i, S):
    """One step of the reference at position i < n of the parameter list (`at(k)` = parameter i + k for k = 0..4, any
    value where i + k >= n): the rendition afterwards and the position of the next parameter.  Dual use (ints / symbolic)."""
    fk, fn, bk, bn, bo, ul, bl, so = S
    p, p1, p2, p3, p4 = (at(k) for k in range(5))
    ext = either(p == 38, p == 48)
    pal = both(ext, i + 2 < n, p1 == 5)  # 38;5;N  /  48;5;N
    tru = both(ext, neg(pal), i + 4 < n, p1 == 2)  # 38;2;r;g;b  /  48;2;r;g;b
    ext_ok = either(both(pal, p2 <= 255), both(tru, p2 <= 255, p3 <= 255, p4 <= 255))
    ek = ite(pal, K_INDEX, K_RGB)
    ev = ite(pal, p2, p2 * 65536 + p3 * 256 + p4)
    reset = p == 0

    def side(k, v, lo, bright, sel, dflt):
        basic, brt, chosen, cleared = both(lo <= p, p <= lo + 7), both(bright <= p, p <= bright + 7), both(p == sel, ext_ok), either(p == dflt, reset)
        return (ite(basic, K_INDEX, ite(brt, K_INDEX, ite(chosen, ek, ite(cleared, K_DEFAULT, k)))),
                ite(basic, p - lo, ite(brt, p - bright + 8, ite(chosen, ev, ite(cleared, 0, v)))))

    nfk, nfn = side(fk, fn, 30, 90, 38, 39)
    nbk, nbn = side(bk, bn, 40, 100, 48, 49)
    nbo = both(neg(reset), either(bo, p == 1))  # (no parameter of the subset clears bold except 0)
    nul = both(neg(reset), neg(p == 24), either(ul, p == 4))
    nbl = both(neg(reset), neg(p == 25), either(bl, p == 5))
    nso = both(neg(reset), neg(p == 27), either(so, p == 7))
    return (nfk, nfn, nbk, nbn, nbo, nul, nbl, nso), i + ite(pal, 3, ite(tru, 5, 1))


def ref_run_concrete(params, S=DEFAULT_STATE):
    """The reference on a concrete parameter list (ints >= 0): the rendition after all of them."""
    n, i = len(params), 0
    while i < n:
        S, i = ref_step(lambda k: params[i + k] if i + k < n else -1, n, i, S)
    return S


# ---- RUN: the recursive spec function, per parameter list (identified by the name of its symbolic sequence)
_SORTS = [z3.IntSort()] * 5 + [z3.BoolSort()] * 4  # i, fk, fn, bk, bn, bold, underline, blink, standout


def _run_fns(seq):
    name = getattr(seq, "name", None)
    if name is None:
        raise Unsupported("RUN over a parameter list that is not a fresh symbolic sequence")
    return [z3.Function(f"sgr_run${name}${c}", *_SORTS, z3.IntSort() if c < 4 else z3.BoolSort()) for c in range(8)]


def _zs(i, S):
    return [V._z(i)] + [V._z(x) for x in S[:4]] + [V._zb(x) for x in S[4:]]


def RUN(seq, i, S):
    """The reference's rendition after the parameters from position i on, started in rendition S."""
    args = _zs(i, S)
    return tuple((mk_int if c < 4 else mk_bool)(f(*args)) for c, f in enumerate(_run_fns(seq)))


def state_eq(A, B):
    return both(*[eq(x, y) for x, y in zip(A, B)])


def run_unfold(seq, i, S):
    """Definitional axiom of RUN at (i, S), i >= 0: nothing left -> S; else one reference step and on."""
    n = Q.seq_len(seq)
    got = [Q.seq_get(seq, i + k) for k in range(5)]  # (read once each: a read of a symbolic sequence states its element facts)
    S2, i2 = ref_step(lambda k: got[k], n, i, S)
    here = RUN(seq, i, S)
    cur().assume(ite(i >= n, state_eq(here, S), state_eq(here, RUN(seq, i2, S2))))


# ---- what colours denote, and the two legitimate variants
_XT = z3.Function("xterm256$rgb", z3.IntSort(), z3.IntSort())


def XT(n):
    """rgb value of entry n (0..255) of xterm's 256-colour palette as the real module tabulates it (_COLOR_VALUES_256;
    16..255 are the fixed cube / grey values of spec/vt100.py `denoted`: static check).  In the VCs an uninterpreted
    function: nothing proved here depends on the values, only on `the same entry denotes the same colour`."""
    if isinstance(n, int):
        r, g, b = real_const("_COLOR_VALUES_256")[n]
        return r * 65536 + g * 256 + b
    return mk_int(_XT(V._z(n)))


def denoted(k, v):
    """Palette entries 0..15 are the terminal's own (theme) colours; entries 16..255 are fixed rgb values, so
    (index n >= 16) and (rgb of that value) denote the same colour (spec/vt100.py `denoted`)."""
    fixed = both(k == K_INDEX, v >= 16, v <= 255)
    return ite(fixed, K_RGB, k), ite(k == K_DEFAULT, 0, ite(fixed, XT(imin(imax(v, 0), 255)), v))


def col_same(k1, v1, k2, v2):
    a, b = denoted(k1, v1), denoted(k2, v2)
    return both(a[0] == b[0], a[1] == b[1])


def shows(I, R):
    """Rendition I (what the terminal holds) shows the reference's rendition R: same flags, colours denoting the same
    colour; with bold, a basic foreground 0..7 may be held as its bright twin (spec/vt100.py `bold-basic`)."""
    bright_twin = both(R[4], R[0] == K_INDEX, 0 <= R[1], R[1] < 8, I[0] == K_INDEX, I[1] == R[1] + 8)
    return both(either(col_same(I[0], I[1], R[0], R[1]), bright_twin), col_same(I[2], I[3], R[2], R[3]), *[eq(I[c], R[c]) for c in range(4, 8)])


def state_ok(S):
    """A rendition: kinds in range, palette indices 0..255, rgb values 24 bits, the number of a default colour 0."""
    def colour(k, v):
        return both(0 <= k, k <= 2, implies(k == K_DEFAULT, v == 0), implies(k == K_INDEX, both(0 <= v, v <= 255)), implies(k == K_RGB, both(0 <= v, v < 2**24)))

    return both(colour(S[0], S[1]), colour(S[2], S[3]))


def _xcheck_reference():
    """`ref_step` against the independent reference spec/vt100.py (VT100._sgr) on its subset, and the tolerant
    extensions (no exception, nothing changes) outside it."""
    import itertools
    import random

    from spec import vt100 as R

    def ours(S):
        col = lambda k, v: None if k == K_DEFAULT else (R.idx(v) if k == K_INDEX else ("rgb", v))  # noqa: E731
        return col(S[0], S[1]), col(S[2], S[3]), frozenset(nm for nm, on in zip(FLAG_NAMES, S[4:]) if on)

    rnd = random.Random(15)
    singles = [0, 1, 4, 5, 7, 24, 25, 27, 30, 33, 37, 39, 40, 44, 47, 49, 90, 97, 100, 107]
    ext = [[38, 5, 0], [38, 5, 7], [38, 5, 8], [38, 5, 255], [48, 5, 16], [48, 5, 231], [38, 2, 0, 0, 0], [38, 2, 255, 128, 1], [48, 2, 1, 2, 3]]
    pieces = [[p] for p in singles] + ext
    cases = [sum(c, []) for k in (1, 2) for c in itertools.product(pieces, repeat=k)]
    cases += [sum((rnd.choice(pieces) for _ in range(rnd.randint(3, 6))), []) for _ in range(3000)]
    n = 0
    for seqs in ([c] for c in cases):
        term = R.VT100(4, 2)
        S = DEFAULT_STATE
        for ps in seqs:
            term._sgr(list(ps))
            S = ref_run_concrete(ps, S)
            if ours(S) != (term.fg, term.bg, term.styles):
                return "reference-sgr-agrees-with-spec-vt100", False, f"{ps}: {ours(S)} vs {(term.fg, term.bg, term.styles)}"
            n += 1
    # two lists in a row (state carried over)
    for _ in range(2000):
        term, S = R.VT100(4, 2), DEFAULT_STATE
        for _k in range(3):
            ps = sum((rnd.choice(pieces) for _ in range(rnd.randint(1, 3))), [])
            term._sgr(list(ps))
            S = ref_run_concrete(ps, S)
        if ours(S) != (term.fg, term.bg, term.styles):
            return "reference-sgr-agrees-with-spec-vt100", False, f"carried state differs: {ours(S)} vs {(term.fg, term.bg, term.styles)}"
        n += 1
    # outside the subset: ignored
    S0 = ref_run_concrete([1, 31, 44])
    for ps in ([38], [38, 5], [48, 2, 1, 2], [38, 5, 256], [48, 2, 256, 0, 0], [38, 2, 0, 0, 999], [22], [2], [3], [10], [11], [12], [99], [10**9], [38, 7, 1], [38, 0]):
        if ref_run_concrete(ps, S0) != ref_run_concrete([], S0) and ps not in ([38, 5], [38, 7, 1], [38, 0]):
            return "reference-sgr-agrees-with-spec-vt100", False, f"{ps} is not ignored"
    if ref_run_concrete([38, 5], S0)[6] is not True or ref_run_concrete([38, 5, 300, 4], S0)[5] is not True:  # 38 alone is skipped, then 5 = blink; 38;5;300 skipped as a whole, then 4
        return "reference-sgr-agrees-with-spec-vt100", False, "a truncated / out-of-range form does not resume where documented"
    return "reference-sgr-agrees-with-spec-vt100", True, f"{n} parameter lists compared"


def _xcheck_xterm_table():
    """urwid's _COLOR_VALUES_256[16:] is the palette spec/vt100.py `denoted` computes (cube 0,95,135,175,215,255; greys 8+10k)."""
    from spec import vt100 as R

    tbl = real_const("_COLOR_VALUES_256")
    bad = [n for n in range(16, 256) if R.denoted(R.idx(n)) != ("rgb", (tbl[n][0] << 16) | (tbl[n][1] << 8) | tbl[n][2])]
    return "xterm-palette-is-the-references", len(tbl) == 256 and not bad, f"entries differing: {bad[:5]}"


# =================================================================================================================
# 2. abstract texts: colour descriptions, foreground texts, their comma-separated parts; the set of attribute names
# =================================================================================================================
D_DEFAULT, D_BASIC, D_P256, D_TRUE, D_P88 = 0, 1, 2, 3, 4
BASIC_NAMES = tuple(real_const("_BASIC_COLORS"))
SETTINGS = ("bold", "italics", "standout", "blink", "underline", "strikethrough")  # the order AttrSpec.foreground lists them in
SETTING_CONST = {"bold": "_BOLD", "italics": "_ITALICS", "standout": "_STANDOUT", "blink": "_BLINK", "underline": "_UNDERLINE", "strikethrough": "_STRIKETHROUGH"}


def _b(x):
    return x if isinstance(x, (bool, SBool)) else mk_bool(V._zb(x))


class ColDesc(ModelObj):
    """The text of ONE colour description, identified by (kind, num):
    D_DEFAULT "default" | D_BASIC _BASIC_COLORS[num] | D_P256 _color_desc_256(num) | D_TRUE _color_desc_true(num) |
    D_P88 _color_desc_88(num).  Every such text is non-empty, has no comma and no blank at either end, and only the
    D_DEFAULT text contains "default" (static check `text-codec-model-agrees-with-the-real-attrspec`)."""

    def __init__(self, kind, num):
        self.kind, self.num = kind, num

    @staticmethod
    def of(x):
        if isinstance(x, ColDesc):
            return x
        if type(x).__name__ == "ColVal":
            return x.as_desc(cur())  # a colour value used as a text
        if isinstance(x, str):
            if x == "default":
                return ColDesc(D_DEFAULT, 0)
            if x in BASIC_NAMES:
                return ColDesc(D_BASIC, BASIC_NAMES.index(x))
        raise Unsupported(f"not a modelled colour description: {x!r}")

    def same(self, o):
        """Equal texts.  (Among the kinds default / basic / desc256 / true distinct (kind, num) are distinct texts; a
        desc88 text may coincide with a desc256 text, so equality is not defined once that kind is in play.)"""
        for k in (self.kind, o.kind):
            if not isinstance(k, int) or k == D_P88:
                raise Unsupported("equality of colour descriptions whose kind is not fixed on this path")
        return both(self.kind == o.kind, either(self.kind == D_DEFAULT, self.num == o.num))

    def __eq__(self, o):
        if isinstance(o, FgText):
            return o.__eq__(self)
        if isinstance(o, str) and (o == "default" or o in BASIC_NAMES) or isinstance(o, ColDesc):
            return self.same(ColDesc.of(o))
        if isinstance(o, str):
            raise Unsupported(f"comparison of a colour description with {o!r}")
        return False

    def __ne__(self, o):
        return neg(self.__eq__(o))

    __hash__ = object.__hash__

    def py_truth(self, st):
        return True

    def py_contains(self, ip, st, x):
        if x == "default":
            return self.kind == D_DEFAULT
        raise Unsupported(f"{x!r} in <colour description>")

    def py_isinstance(self, cls):
        return issubclass(str, cls)

    def py_compare(self, ip, st, op, other, reflected):
        if isinstance(other, (int, SInt)):
            raise PyRaise(SExc(TypeError, ("'<' not supported between instances of 'str' and 'int'",), site="builtin"))
        return NotImplemented

    def py_concretize(self, model):
        ev = lambda x: x if isinstance(x, int) else model.eval(V._z(x), model_completion=True).as_long()  # noqa: E731
        return ("default", "basic", "desc256", "true", "desc88")[ev(self.kind) % 5] + f"({ev(self.num)})"

    def __repr__(self):
        return f"ColDesc({self.kind!r}, {self.num!r})"


class FgText(ModelObj):
    """A foreground text: one colour description followed by setting names, each at most once, separated by commas.
    Identified by the description and the SET of settings (AttrSpec reads them in any order)."""

    def __init__(self, col, flags):
        self.col, self.flags = ColDesc.of(col), dict(flags)

    @staticmethod
    def of(x):
        if isinstance(x, FgText):
            return x
        return FgText(ColDesc.of(x), dict.fromkeys(SETTINGS, False))

    def plain(self):
        return both(*[neg(_b(v)) for v in self.flags.values()])

    def __eq__(self, o):
        if isinstance(o, (str, ColDesc)):
            return both(self.plain(), self.col.same(ColDesc.of(o)))
        if isinstance(o, FgText):
            return both(self.col.same(o.col), *[_b(self.flags[k]) == _b(o.flags[k]) for k in SETTINGS])
        return False

    def __ne__(self, o):
        return neg(self.__eq__(o))

    __hash__ = object.__hash__

    def py_truth(self, st):
        return True

    def py_contains(self, ip, st, x):
        if x == "default":
            return self.col.kind == D_DEFAULT  # (no setting name and no other description contains it)
        raise Unsupported(f"{x!r} in <foreground text>")

    def py_isinstance(self, cls):
        return issubclass(str, cls)

    def py_call(self, ip, st, name, args, kwargs):
        if name == "split" and args == [","] and not kwargs:
            return PartList(self.col, self.flags)  # the description, then the settings present: no part holds a comma
        if name == "strip" and not args:
            return self
        raise Unsupported(f"str.{name} on a foreground text")

    def py_concretize(self, model):
        on = [k for k in SETTINGS if (self.flags[k] if isinstance(self.flags[k], bool) else z3.is_true(model.eval(V._zb(self.flags[k]), model_completion=True)))]
        return ",".join([self.col.py_concretize(model), *on])


class PartList(ModelObj):
    """The list of the comma-separated parts of a foreground text (already stripped: a part has no blank at either
    end), as a mutable list: membership / remove / append of a SETTING name; the order of parts is not modelled
    (nothing but `",".join` reads the list afterwards, and AttrSpec accepts the settings in any order)."""

    def __init__(self, col, flags):
        self.col, self.flags = col, dict(flags)

    def snapshot(self):
        return PartList(self.col, self.flags)

    def _name(self, x):
        if not (isinstance(x, str) and x in SETTINGS):
            raise Unsupported(f"part list operation with {x!r}")
        return x

    def py_contains(self, ip, st, x):
        return _b(self.flags[self._name(x)])

    def py_call(self, ip, st, name, args, kwargs):
        if name == "remove" and len(args) == 1:
            k = self._name(args[0])
            st.partial(_b(self.flags[k]), ValueError, "list.remove(x): x not in list")
            self.flags[k] = False
            return None
        if name == "append" and len(args) == 1:
            k = self._name(args[0])
            if st.branch(_b(self.flags[k])):
                raise Unsupported("a setting name appended to a part list that already holds it")
            self.flags[k] = True
            return None
        raise Unsupported(f"list.{name} on the parts of a foreground text")

    def py_iter(self, ip, st):
        raise Unsupported("iteration over the parts of a foreground text")


class AttrSet(ModelObj):
    """A Python set holding some of the names bold / underline / blink / standout (as csi_set_attr builds it)."""

    def __init__(self, flags):
        self.flags = dict(flags)

    @staticmethod
    def of(x):
        if isinstance(x, AttrSet):
            return x
        if isinstance(x, (set, frozenset)) and all(k in FLAG_NAMES for k in x):
            return AttrSet({k: (k in x) for k in FLAG_NAMES})
        raise Unsupported(f"not a modelled attribute set: {x!r}")

    def snapshot(self):
        return AttrSet(self.flags)

    def state(self):
        return tuple(_b(self.flags[k]) for k in FLAG_NAMES)

    def _name(self, x):
        if not (isinstance(x, str) and x in FLAG_NAMES):
            raise Unsupported(f"attribute set operation with {x!r}")
        return x

    def py_truth(self, st):
        return either(*self.state())

    def py_contains(self, ip, st, x):
        return _b(self.flags[self._name(x)])

    def py_call(self, ip, st, name, args, kwargs):
        if name == "add" and len(args) == 1:
            self.flags[self._name(args[0])] = True
        elif name == "discard" and len(args) == 1:
            self.flags[self._name(args[0])] = False
        elif name == "clear" and not args:
            self.flags = dict.fromkeys(FLAG_NAMES, False)
        else:
            raise Unsupported(f"set.{name}")
        return None

    def py_havoc(self, st):
        self.flags = {k: st.fresh_bool(f"attributes.{k}") for k in FLAG_NAMES}

    def py_iter(self, ip, st):
        """The names present, in SOME order: a sequence of as many opaque entries as there are names, tagged with the
        set it lists (only `",".join` consumes it, and reads the tag)."""
        n = sum((ite(b, 1, 0) for b in self.state()), 0)
        tag = self.snapshot()
        r = Q.SSeq(n, lambda j: SOpaque("SettingName", z3.Const(f"setting-name!{j}", V_SORT()), {"attr_set": tag}), None, None, "attribute-names")
        r.attr_set = tag
        return r if not isinstance(n, int) else tuple(r.get(j) for j in range(n))

    def py_concretize(self, model):
        return {k for k in FLAG_NAMES if (self.flags[k] if isinstance(self.flags[k], bool) else z3.is_true(model.eval(V._zb(self.flags[k]), model_completion=True)))}


def V_SORT():
    from pyvc.shapes import opaque_sort

    return opaque_sort("SettingName")


class BasicNames(ModelObj):
    """The module constant _BASIC_COLORS (16 names) subscripted by a symbolic int: the description of that index."""

    def py_getitem(self, ip, st, idx):
        from pyvc.builtins_model import norm_index

        return ColDesc(D_BASIC, norm_index(st, _as_int(idx), len(BASIC_NAMES), "list index out of range"))

    def py_len(self, st):
        return len(BASIC_NAMES)


def has(attributes, name):
    return AttrSet.of(attributes).flags[name]


def join_model(ip, st, f, args, kwargs):
    """`",".join(...)` on abstract texts: (description, *names of an attribute set) and the parts of a foreground text."""
    if getattr(f, "__name__", "") == "join" and getattr(f, "__self__", None) == "," and len(args) == 1 and not kwargs:
        x = args[0].seq if isinstance(args[0], Q.LRef) else args[0]
        if isinstance(x, PartList):
            return FgText(x.col, x.flags)
        parts = getattr(x, "parts", None) or ([x] if isinstance(x, tuple) else None)
        if parts and isinstance(parts[0], tuple) and parts[0] and (isinstance(parts[0][0], (str, ColDesc)) or type(parts[0][0]).__name__ == "ColVal"):
            head, tags = parts[0][0], []
            for e in parts[0][1:]:
                if not (isinstance(e, SOpaque) and e.kind == "SettingName"):
                    return NotImplemented
                tags.append(e.meta["attr_set"])
            for p in parts[1:]:
                if isinstance(p, tuple) and not p:
                    continue
                if getattr(p, "attr_set", None) is None:
                    return NotImplemented
                tags.append(p.attr_set)
            if any(t is not tags[0] for t in tags):
                return NotImplemented  # names of two different sets
            flags = dict.fromkeys(SETTINGS, False)
            if tags:
                flags.update(tags[0].flags)
            return FgText(ColDesc.of(head), flags)
    return NotImplemented


# =================================================================================================================
# 3. the text codec of AttrSpec on these texts (TRUSTED: assumed contracts, cross-checked against the real class)
# =================================================================================================================
ALL_FLAGS = ("_FG_BASIC_COLOR", "_FG_HIGH_COLOR", "_FG_TRUE_COLOR", "_BG_BASIC_COLOR", "_BG_HIGH_COLOR", "_BG_TRUE_COLOR", "_HIGH_88_COLOR", "_HIGH_TRUE_COLOR",
             "_STANDOUT", "_UNDERLINE", "_BOLD", "_BLINK", "_ITALICS", "_STRIKETHROUGH")
DEPTHS = (1, 16, 88, 256, 2**24)


def _bit(b):
    return ite(_b(b), 1, 0)


def enc_side(d, depth):
    """How AttrSpec stores the description d at the declared depth: (modelled?, basic, high, true, number).
    Not modelled (never produced by vterm): desc256 at 88 colours, desc88 outside 88 colours, #rrggbb below 2**24."""
    k, n = d.kind, d.num
    is88, istrue = depth == 88, depth == 2**24
    kb = k == D_BASIC
    kh = either(both(k == D_P256, neg(is88), neg(istrue)), both(k == D_P88, is88))
    kt = both(istrue, either(k == D_P256, k == D_TRUE))  # a palette description in true-colour mode is stored as its xterm rgb value
    num = ite(k == D_DEFAULT, 0, ite(both(k == D_P256, istrue), XT(imin(imax(n, 0), 255)), n))
    return either(k == D_DEFAULT, kb, kh, kt), kb, kh, kt, num


def enc_word(fg, bg, depth):
    """(accepted?, the bit word) of AttrSpec(fg, bg, depth) for a foreground text and a background description."""
    fg, bg = FgText.of(fg), ColDesc.of(bg)
    okf, fb, fh, ft, fnum = enc_side(fg.col, depth)
    okb, bb, bh, bt, bnum = enc_side(bg, depth)
    bits = {"_FG_BASIC_COLOR": fb, "_FG_HIGH_COLOR": fh, "_FG_TRUE_COLOR": ft, "_BG_BASIC_COLOR": bb, "_BG_HIGH_COLOR": bh, "_BG_TRUE_COLOR": bt,
            "_HIGH_88_COLOR": depth == 88, "_HIGH_TRUE_COLOR": depth == 2**24}
    for nm, const in SETTING_CONST.items():
        bits[const] = fg.flags[nm]
    parts = [0] * len(LAYOUT)
    parts[FG], parts[BG] = fnum, bnum
    for const, b in bits.items():
        parts[bit_index(const)] = _bit(b)
    w = BitWord(parts)
    return both(either(*[depth == d for d in DEPTHS]), okf, okb, colors_spec(w) <= depth), w


def text_of_side(v, kb, kh, kt, number):
    """The description AttrSpec reports for one side of a well-formed word."""
    m88 = flag(v, "_HIGH_88_COLOR")
    kind = ite(kb, D_BASIC, ite(kh, ite(m88, D_P88, D_P256), ite(kt, D_TRUE, D_DEFAULT)))
    return ColDesc(kind, number)


def fg_text_of(v):
    col = text_of_side(v, flag(v, "_FG_BASIC_COLOR"), flag(v, "_FG_HIGH_COLOR"), flag(v, "_FG_TRUE_COLOR"), fg_number(v))
    return FgText(col, {nm: flag(v, const) for nm, const in SETTING_CONST.items()})


def bg_text_of(v):
    return text_of_side(v, flag(v, "_BG_BASIC_COLOR"), flag(v, "_BG_HIGH_COLOR"), flag(v, "_BG_TRUE_COLOR"), bg_number(v))


def new_spec(w):
    o = Q.SObj(ATTRSPEC, {WORD: w})
    o.shape = SPEC
    return o


_CODEC_NOTES = ("TRUSTED text codec of urwid.display.common.AttrSpec on the texts vterm produces (abstract: ColDesc / FgText): the bit word "
                "AttrSpec(fg, bg, colors) builds (enc_word), the texts .foreground / .background report (fg_text_of / bg_text_of) and copy_modified as "
                "their composition.  Why assumed: C18 verifies these bodies against a character-level str model, but its call-site clauses for "
                "__set_foreground (split loop) do not determine the stored word.  Cross-checked against the real class on every run by the static "
                "check `text-codec-model-agrees-with-the-real-attrspec` (all default / basic / palette descriptions x all setting subsets in several "
                "orders x all depths, true colours sampled; every word so built decoded back).")


@contract(DC + "AttrSpec.__init__", property=(), alias="vterm-texts", assumed=True, notes=_CODEC_NOTES)
class attrspec_new:
    """Used through `codec_call_real` (a constructor call): raises AttrSpecError unless accepted, else the word."""


def codec_call_real(ip, st, f, args, kwargs):
    if f is ATTRSPEC:
        names = ("fg", "bg", "colors")
        vals = dict(zip(names, args))
        vals.update(kwargs)
        depth = vals.get("colors", 256)
        ok, w = enc_word(vals["fg"], vals["bg"], depth)
        if not st.branch(_b(ok)):
            raise PyRaise(SExc(ATTRSPEC_ERROR, ("<rejected by AttrSpec, or a text / depth combination outside the codec model>",), site="AttrSpec()"))
        ip.task.used_contracts.add(DC + "AttrSpec.__init__#vterm-texts")
        return new_spec(w)
    return join_model(ip, st, f, args, kwargs)


@contract(DC + "AttrSpec.foreground", property=(), alias="vterm-texts", assumed=True, notes=_CODEC_NOTES)
class attrspec_foreground_text:
    self_shape = SPEC
    params = {}
    raises = ()
    pure_spec = staticmethod(lambda old, a: fg_text_of(word(old)))

    def requires(s, a):
        return wf(word(s))


@contract(DC + "AttrSpec.background", property=(), alias="vterm-texts", assumed=True, notes=_CODEC_NOTES)
class attrspec_background_text:
    self_shape = SPEC
    params = {}
    raises = ()
    pure_spec = staticmethod(lambda old, a: bg_text_of(word(old)))

    def requires(s, a):
        return wf(word(s))


@contract(DC + "AttrSpec.copy_modified", property=(), alias="vterm-texts", assumed=True, notes=_CODEC_NOTES)
class attrspec_copy_modified:
    """copy_modified(fg=text): AttrSpec(text, self.background, self.colors) — the composition of the three above
    (bg / colors arguments: not used by vterm, not modelled)."""
    self_shape = SPEC
    params = dict(fg=Const(None), bg=Const(None), colors=Const(None))
    raises_iff = {ATTRSPEC_ERROR: lambda s, a: neg(enc_word(a.fg if a.fg is not None else fg_text_of(word(s)), bg_text_of(word(s)), colors_spec(word(s)))[0])}
    pure_spec = staticmethod(lambda old, a: new_spec(enc_word(a.fg if a.fg is not None else fg_text_of(word(old)), bg_text_of(word(old)), colors_spec(word(old)))[1]))

    def requires(s, a):
        return both(wf(word(s)), a.bg is None, a.colors is None)


@contract(DC + "_color_desc_true", property=(), alias="vterm-texts", assumed=True, notes=_CODEC_NOTES)
class color_desc_true_text:
    params = dict(num=Int)
    raises = ()
    pure_spec = staticmethod(lambda a: ColDesc(D_TRUE, _as_int(a.num)))

    def requires(a):
        return both(0 <= _as_int(a.num), _as_int(a.num) < 2**24)  # (C18 verifies the real body under this range)


@contract(DC + "_color_desc_256", property=(), alias="vterm-texts", assumed=True, notes=_CODEC_NOTES)
class color_desc_256_text:
    params = dict(num=Int)
    raises_iff = {ValueError: lambda a: neg(both(0 <= _as_int(a.num), _as_int(a.num) < 256))}
    pure_spec = staticmethod(lambda a: ColDesc(D_P256, _as_int(a.num)))


def _as_int(x):
    return x.as_int(cur()) if type(x).__name__ == "ColVal" else x


CODEC = {DC + "AttrSpec.foreground": attrspec_foreground_text, DC + "AttrSpec.background": attrspec_background_text, DC + "AttrSpec.copy_modified": attrspec_copy_modified,
         DC + "_color_desc_true": color_desc_true_text, DC + "_color_desc_256": color_desc_256_text}


def codec_setup(st, self_obj, vals):
    st.ghost.setdefault("globals", {})["_BASIC_COLORS"] = BasicNames()


def text_concrete(d):
    """The real str of a description whose kind and number are plain ints."""
    k, n = d.kind, d.num
    if k == D_DEFAULT:
        return "default"
    if k == D_BASIC:
        return BASIC_NAMES[n]
    return real_const({D_P256: "_color_desc_256", D_TRUE: "_color_desc_true", D_P88: "_color_desc_88"}[k])(n)


_codec_verdict = []


def _xcheck_codec():
    if not _codec_verdict:
        _codec_verdict.append(_xcheck_codec_run())
    return _codec_verdict[0]


def _xcheck_codec_run():
    """The codec model (enc_word / fg_text_of / bg_text_of / copy_modified, and the str operations on the abstract
    texts) against the real AttrSpec and real strs."""
    import itertools
    import random

    rnd = random.Random(1518)
    A, E = real_const("AttrSpec"), real_const("AttrSpecError")
    trues = [0, 1, 255, 256, 0x0A1400, 0x5F8700, 0xFFFFFF, 0x800000] + [rnd.randrange(2**24) for _ in range(24)]
    descs = [ColDesc(D_DEFAULT, 0)] + [ColDesc(D_BASIC, i) for i in range(16)] + [ColDesc(D_P256, i) for i in range(256)] + [ColDesc(D_TRUE, v) for v in trues] + [ColDesc(D_P88, i) for i in range(88)]
    few = [ColDesc(D_DEFAULT, 0), ColDesc(D_BASIC, 3), ColDesc(D_BASIC, 12), ColDesc(D_P256, 7), ColDesc(D_P256, 100), ColDesc(D_TRUE, 0x0A1400), ColDesc(D_P88, 20)]
    texts = {}
    for d in descs:
        t = text_concrete(d)
        texts[(d.kind, d.num)] = t
        if not t or "," in t or t != t.strip() or ("default" in t) != (d.kind == D_DEFAULT) or t in SETTINGS:
            return "text-codec-model-agrees-with-the-real-attrspec", False, f"description text {t!r} breaks the text model"
    by_text = {}
    for (k, n), t in texts.items():
        if k != D_P88 and by_text.setdefault(t, (k, n)) != (k, n):
            return "text-codec-model-agrees-with-the-real-attrspec", False, f"two descriptions share the text {t!r}"
    subsets = [tuple(s) for r in range(7) for s in itertools.combinations(SETTINGS, r)]
    n = 0

    def one(fgd, names, bgd, depth):
        nonlocal n
        n += 1
        fg = FgText(fgd, {k: (k in names) for k in SETTINGS})
        ok, w = enc_word(fg, bgd, depth)
        modelled = enc_side(fgd, depth)[0] and enc_side(bgd, depth)[0]
        order = list(names)
        rnd.shuffle(order)
        fgtext = ",".join([text_concrete(fgd), *order]) if rnd.random() < 0.7 else ", ".join([text_concrete(fgd), *order])
        # the str operations vterm applies to a foreground text
        if sorted(p.strip() for p in fgtext.split(",")) != sorted([text_concrete(fgd), *names]) or ("default" in fgtext) != (fgd.kind == D_DEFAULT):
            return f"split/strip/in on {fgtext!r}"
        try:
            real = A(fgtext, text_concrete(bgd), depth)
        except E:
            real = None
        if not modelled:
            return None
        if (real is not None) != bool(ok):
            return f"AttrSpec({fgtext!r}, {text_concrete(bgd)!r}, {depth}): model accepted={bool(ok)}, real {'accepted' if real is not None else 'rejected'}"
        if real is None:
            return None
        if real._value != w.to_int():
            return f"AttrSpec({fgtext!r}, {text_concrete(bgd)!r}, {depth}): word {real._value:#x}, model {w.to_int():#x}"
        # ... and back: the texts the real object reports are the model's texts of its word
        v = BitWord.of_int(real._value)
        ft, bt = fg_text_of(v), bg_text_of(v)
        want_fg = ",".join([text_concrete(ft.col), *[k for k in SETTINGS if ft.flags[k]]])
        if real.foreground != want_fg or real.background != text_concrete(bt) or real.colors != colors_spec(v) or not wf(v):
            return f"texts of {real!r}: {real.foreground!r} / {real.background!r}, model {want_fg!r} / {text_concrete(bt)!r}"
        # copy_modified(fg=<text with standout toggled>)
        names2 = [k for k in names if k != "standout"] if "standout" in names else [*names, "standout"]
        fg2 = FgText(ft.col, {k: (k in names2) for k in SETTINGS})
        ok2, w2 = enc_word(fg2, bt, colors_spec(v))
        try:
            real2 = real.copy_modified(fg=",".join([text_concrete(ft.col), *names2]))
        except E:
            real2 = None
        if (real2 is not None) != bool(ok2) or (real2 is not None and real2._value != w2.to_int()):
            return f"copy_modified of {real!r}"
        return None

    for depth in DEPTHS + (0, 2, 255):
        for d in descs:
            for o in few:
                for fgd, bgd in ((d, o), (o, d)):
                    bad = one(fgd, rnd.choice(subsets), bgd, depth)
                    if bad:
                        return "text-codec-model-agrees-with-the-real-attrspec", False, bad
        for names in subsets:
            for fgd in few:
                bad = one(fgd, names, rnd.choice(few), depth)
                if bad:
                    return "text-codec-model-agrees-with-the-real-attrspec", False, bad
    # what vterm relies on outside the codec proper
    if real_const("_color_desc_true")(0x0A1400) != "#0a1400" or len(BASIC_NAMES) != 16 or tuple(real_const("_ATTRIBUTES")) != ("bold", "italics", "underline", "blink", "standout", "strikethrough"):
        return "text-codec-model-agrees-with-the-real-attrspec", False, "module constants changed"
    return "text-codec-model-agrees-with-the-real-attrspec", True, f"{n} constructions compared"


# =================================================================================================================
# 4. shapes, renditions of the program's values
# =================================================================================================================
MODES_SGR = Obj(_vt.TermModes, {**MODES.fields, "display_ctrl": Bool, "reverse_video": Bool})
TERM_SGR = Obj(_vt.TermCanvas, {**TERM.fields, "attrspec": Opt(SPEC), "modes": MODES_SGR})
SGR_FIELDS = tuple(TERM_SGR.fields)
class ColVal(ModelObj):
    """A colour value as csi_set_attr / sgi_to_attrspec hold it in `fg` / `bg` when it is not None: a palette index
    (int) or a #rrggbb description (str) -- which of the two is symbolic (`txt`), the number is `num`.  Used as an
    int (comparison with an int, + int, argument of _color_desc_256, subscript of _BASIC_COLORS) it must not be the
    text: TypeError otherwise, as CPython; used as a text it must be the text."""

    def __init__(self, txt, num):
        self.txt, self.num = txt, num

    def as_int(self, st):
        st.partial(neg(self.txt), TypeError, "a str where an int is needed")
        return self.num

    def as_desc(self, st):
        st.partial(self.txt, TypeError, "an int where a str is needed")
        return ColDesc(D_TRUE, self.num)

    def py_isinstance(self, cls):
        if cls is str:
            return self.txt
        if cls is int:
            return neg(self.txt)
        raise Unsupported(f"isinstance(<colour value>, {cls!r})")

    def py_compare(self, ip, st, op, other, reflected):
        import ast as _ast

        if not isinstance(other, (int, SInt)) or reflected:
            return NotImplemented
        n = self.as_int(st)
        return {_ast.Lt: lambda: n < other, _ast.LtE: lambda: n <= other, _ast.Gt: lambda: n > other, _ast.GtE: lambda: n >= other}[type(op)]()

    def py_binop(self, ip, st, op, other, reflected):
        import ast as _ast

        if isinstance(op, _ast.Add) and isinstance(other, (int, SInt)) and not isinstance(other, bool):
            return self.as_int(st) + other
        return NotImplemented

    def py_truth(self, st):
        raise Unsupported("truth value of a colour value")

    def py_concretize(self, model):
        t = self.txt if isinstance(self.txt, bool) else z3.is_true(model.eval(V._zb(self.txt), model_completion=True))
        n = self.num if isinstance(self.num, int) else model.eval(V._z(self.num), model_completion=True).as_long()
        return f"#{n:06x}" if t else n

    def __repr__(self):
        return f"ColVal({self.txt!r}, {self.num!r})"


def _fresh_colval(st, hint):
    return SOpt(z3.Bool(st.fresh_name(hint + "_isnone")), ColVal(st.fresh_bool(hint + ".is_text"), st.fresh_int(hint + ".num")))


COLVAL = Custom(_fresh_colval, "None | palette index | #rrggbb description")  # fg / bg of csi_set_attr and sgi_to_attrspec
ATTRSET = Custom(lambda st, hint: AttrSet({k: st.fresh_bool(f"{hint}.{k}") for k in FLAG_NAMES}), "a set of attribute names")
PARAMS = ListOf(Int(0))  # SGR parameters as parse_csi delivers them: ints >= 0


def colval_state(x):
    """(kind, number) of a colour value: None | palette index | #rrggbb description (in any of their forms); never forks."""
    if x is None:
        return K_DEFAULT, 0
    if isinstance(x, SOpt):
        isn = mk_bool(x.isnone)
        k, n = colval_state(x.val)
        return ite(isn, K_DEFAULT, k), ite(isn, 0, n)
    if isinstance(x, ColVal):
        return ite(x.txt, K_RGB, K_INDEX), x.num
    if isinstance(x, ColDesc):
        if x.kind != D_TRUE:
            raise Unsupported("a colour value that is a description other than #rrggbb")
        return K_RGB, x.num
    if isinstance(x, (int, SInt)) and not isinstance(x, bool):
        return K_INDEX, x
    raise Unsupported(f"not a colour value: {x!r}")


def colour_ok(k, v):
    return both(0 <= k, k <= 2, implies(k == K_DEFAULT, v == 0), implies(k == K_INDEX, both(0 <= v, v <= 255)), implies(k == K_RGB, both(0 <= v, v < 2**24)))


def colval_ok(x):
    return colour_ok(*colval_state(x))


def depth_ok(fg, bg, colors):
    """The colour depth carried along covers the colours in use (so that AttrSpec accepts them at that depth)."""
    (fk, fn), (bk, bn) = colval_state(fg), colval_state(bg)
    return both(either(colors == 1, colors == 16, colors == 256, colors == 2**24),
                implies(either(fk != K_DEFAULT, bk != K_DEFAULT), colors >= 16),
                implies(either(both(fk == K_INDEX, fn > 15), both(bk == K_INDEX, bn > 15)), colors >= 256),
                implies(either(fk == K_RGB, bk == K_RGB), colors == 2**24))


def local_state(fg, bg, attributes):
    return (*colval_state(fg), *colval_state(bg), *AttrSet.of(attributes).state())


def rend(v):
    """The rendition a bit word of AttrSpec holds, read the way its accessors read it."""
    def colour(kb, kh, kt, num):
        return ite(kt, K_RGB, ite(either(kb, kh), K_INDEX, K_DEFAULT)), num

    return (*colour(flag(v, "_FG_BASIC_COLOR"), flag(v, "_FG_HIGH_COLOR"), flag(v, "_FG_TRUE_COLOR"), fg_number(v)),
            *colour(flag(v, "_BG_BASIC_COLOR"), flag(v, "_BG_HIGH_COLOR"), flag(v, "_BG_TRUE_COLOR"), bg_number(v)),
            flag(v, "_BOLD"), flag(v, "_UNDERLINE"), flag(v, "_BLINK"), flag(v, "_STANDOUT"))


def rend_of(spec):
    """Rendition of an optional AttrSpec value (None: everything default); never forks."""
    if spec is None:
        return DEFAULT_STATE
    isn = opt_isnone(spec)
    R = rend(word(val(spec)))
    if isn is False:
        return R
    return tuple(ite(isn, d, r) for d, r in zip(DEFAULT_STATE, R))


def is_default(S):
    return both(S[0] == K_DEFAULT, S[2] == K_DEFAULT, *[neg(_b(x)) for x in S[4:]])


def attr_ok(spec):
    """What csi_set_attr needs of the stored attribute: None, or a well-formed AttrSpec (its representation invariant,
    C18) not in 88-colour mode (vterm never builds one)."""
    if spec is None or isinstance(spec, SOpaque):
        return True
    v = word(val(spec))
    return either(opt_isnone(spec), both(wf(v), neg(flag(v, "_HIGH_88_COLOR"))))


def spec_eq(a, b):
    """Two optional AttrSpec values are equal (both None, or equal words)."""
    if isinstance(a, SOpaque) or isinstance(b, SOpaque):
        return eq(a, b)
    na, nb = opt_isnone(a), opt_isnone(b)
    if val(a) is None or val(b) is None:
        return both(na, nb)
    return either(both(na, nb), both(neg(na), neg(nb), word(val(a)) == word(val(b))))


def frame_sgr(old, s, *modified):
    """Every modelled field of the canvas outside `modified` is as it was (attrspec by value)."""
    out = []
    for k in s.fields:
        if k in modified:
            continue
        out.append(spec_eq(s.fields[k], getattr(old, k)) if k == "attrspec" else same_value(k, s.fields[k], getattr(old, k)))
    return both(*out)


def only_sgr_mapping_changes(old, s):
    """SGR 10 / 11 / 12 switch the IBM-PC mapping: of charset and modes only `_sgr_mapping`, `current` and
    `display_ctrl` may differ."""
    cs = both(s.charset.active == old.charset.active, eq(s.charset._g, old.charset._g))
    md = both(*[eq(s.modes.fields[k], getattr(old.modes, k)) for k in s.modes.fields if k != "display_ctrl"])
    return both(cs, md)


# ---- placeholders for two TermCharset methods (contracts/C15_parser.py of agent/vtparse verifies them against their
# bodies; these are registered only while that file is absent)  DROP-AT-MERGE
if VT + "TermCharset.set_sgr_ibmpc" not in REGISTRY:
    _CS_NOTE = "PLACEHOLDER (DROP-AT-MERGE): the interface of the contract in contracts/C15_parser.py (agent/vtparse), which verifies the body."

    @contract(VT + "TermCharset.set_sgr_ibmpc", property=(), assumed=True, notes=_CS_NOTE)
    class set_sgr_ibmpc:
        self_shape = CHARSET
        params = {}
        raises = ()
        modifies = ("_sgr_mapping",)
        invariant = staticmethod(lambda s: both(0 <= s.active, s.active <= 1))

        def ensures(old, s, a, result):
            yield "on", s._sgr_mapping == True  # noqa: E712

    @contract(VT + "TermCharset.reset_sgr_ibmpc", property=(), assumed=True, notes=_CS_NOTE)
    class reset_sgr_ibmpc:
        self_shape = CHARSET
        params = {}
        raises = ()
        modifies = ("_sgr_mapping", "current")
        invariant = staticmethod(lambda s: both(0 <= s.active, s.active <= 1))

        def ensures(old, s, a, result):
            yield "off", s._sgr_mapping == False  # noqa: E712


# =================================================================================================================
# 5. TermCanvas.sgi_to_attrspec
# =================================================================================================================
def _sgi_setup(st, self_obj, vals):
    codec_setup(st, self_obj, vals)
    st.ghost["sgr_attributes_at_entry"] = vals["attributes"].snapshot()  # (the set is mutated in place)


def _sgi_init(st, a):
    return local_state(a.fg, a.bg, st.ghost["sgr_attributes_at_entry"])


def _sgi_inv(v):
    st = cur()
    seq, s, s0 = v.attrs.seq, v.self, v.at_entry.self if v.at_entry is not None else v.self
    S = local_state(v.fg, v.bg, v.attributes)
    run_unfold(seq, v.idx, S)
    yield "position-inside-the-parameter-list", both(0 <= v.idx, v.idx <= Q.seq_len(seq))
    yield "locals-hold-a-rendition", both(colval_ok(v.fg), colval_ok(v.bg))
    yield "colour-depth-covers-the-colours-in-use", depth_ok(v.fg, v.bg, v.colors)
    yield "the-rest-of-the-list-from-here-gives-what-the-reference-gives-for-the-whole-list", state_eq(RUN(seq, v.idx, S), RUN(seq, 0, _sgi_init(st, v.old)))
    yield "only-the-ibmpc-mapping-switches-change", both(only_sgr_mapping_changes(s0, s), 0 <= s.charset.active, s.charset.active <= 1)


def sgi_clauses(seq, init, result):
    """Statement clauses of sgi_to_attrspec / csi_set_attr: `result` (None | AttrSpec, possibly optional) against the
    reference applied to the parameter list `seq` started in the rendition `init`."""
    R = RUN(seq, 0, init)
    isn = opt_isnone(result)
    yield "no-attrspec-exactly-for-the-all-default-rendition", isn == is_default(R)
    if val(result) is not None and isn is not True:
        v = word(val(result))
        yield "the-attrspec-decodes-to-the-reference-rendition", implies(neg(isn), shows(rend(v), R))
        yield "a-well-formed-attrspec-never-in-88-colour-mode", implies(neg(isn), both(wf(v), neg(flag(v, "_HIGH_88_COLOR"))))


@contract(VT + "TermCanvas.sgi_to_attrspec", property="C15")
class sgi_to_attrspec:
    self_shape = TERM_SGR
    params = dict(attrs=PARAMS, fg=COLVAL, bg=COLVAL, attributes=ATTRSET, prev_colors=Int)
    result = Opt(SPEC)
    raises = ()  # "never raises" for any parameter list
    replayable = False
    setup = staticmethod(_sgi_setup)
    call_real = staticmethod(codec_call_real)
    contract_overrides = CODEC
    static_checks = [_xcheck_reference, _xcheck_xterm_table, _xcheck_codec]
    loops = {0: Loop(invariant=_sgi_inv, decreases=lambda v: Q.seq_len(v.attrs.seq) - v.idx, modifies=("self.charset", "self.modes"), shapes={"fg": COLVAL, "bg": COLVAL, "colors": Int})}

    def requires(s, a):
        return both(colval_ok(a.fg), colval_ok(a.bg), depth_ok(a.fg, a.bg, a.prev_colors), 0 <= s.charset.active, s.charset.active <= 1)

    def ensures(old, s, a, result):
        st = cur()
        yield from sgi_clauses(a.attrs.seq, _sgi_init(st, a), result)
        yield "only-the-ibmpc-mapping-switches-change", both(only_sgr_mapping_changes(old, s), frame_sgr(old, s, "charset", "modes"))

    def ensures_callee(old, s, a, result):
        yield from sgi_clauses(a.attrs.seq, local_state(a.fg, a.bg, a.attributes), result)

    def effects(old, s, a, result):
        # SGR 10 / 11 / 12: of the whole canvas only these three may change (kept out of `modifies`: the caller's
        # charset / modes objects keep every other field, whatever fields their shapes have)
        st = cur()
        s.charset.fields["_sgr_mapping"] = st.fresh_bool("charset._sgr_mapping'")
        s.charset.fields["current"] = CHARSET.fields["current"].fresh(st, "charset.current'")
        if "display_ctrl" in s.modes.fields:
            s.modes.fields["display_ctrl"] = st.fresh_bool("modes.display_ctrl'")


# =================================================================================================================
# 6. TermCanvas.reverse_attrspec, csi_set_attr
# =================================================================================================================
def parts_comprehension(ip, st, e, fr):
    """`[p.strip() for p in <text>.split(",")]` on a foreground text: its parts, stripped (a part of a text AttrSpec
    reports has no blank at either end: static check of the codec)."""
    import ast as _ast

    if len(e.generators) == 1 and not e.generators[0].ifs and isinstance(e.generators[0].target, _ast.Name):
        g = e.generators[0]
        t = g.target.id
        if _ast.unparse(e.elt) == f"{t}.strip()" and _ast.unparse(g.iter).endswith(".split(',')"):
            parts = ip.eval(st, g.iter, fr)
            if isinstance(parts, PartList):
                return parts.snapshot()
            raise Unsupported("split(',') of something that is not a modelled foreground text")
    return NotImplemented


DEFAULT_WORD = BitWord.of_int(0)
SETTING_BITS = tuple(bit_index(c) for c in SETTING_CONST.values())


def spec_wf(spec):
    """None, or an AttrSpec satisfying its representation invariant (C18: established by AttrSpec.__init__, the only
    writer of the private word) -- true of every AttrSpec value."""
    if spec is None:
        return True
    return either(opt_isnone(spec), wf(word(val(spec))))


def word_or_default(spec):
    """The word of an optional AttrSpec, the all-default word for None (as a BitWord; never forks)."""
    if spec is None:
        return DEFAULT_WORD
    isn, w = opt_isnone(spec), word(val(spec))
    if isn is False:
        return w
    return BitWord([ite(isn, 0, p) for p in w.parts])


@contract(VT + "TermCanvas.reverse_attrspec", property="C15")
class reverse_attrspec:
    self_shape = TERM_SGR
    params = dict(attrspec=Opt(SPEC), undo=Bool)
    result = SPEC
    raises = ()
    replayable = False
    call_real = staticmethod(codec_call_real)
    comprehension = staticmethod(parts_comprehension)
    contract_overrides = CODEC
    setup = staticmethod(codec_setup)
    static_checks = [_xcheck_codec]

    def requires(s, a):
        return spec_wf(a.attrspec)

    def ensures(old, s, a, result):
        v0, v1 = word_or_default(a.attrspec), word(result)
        so = bit_index("_STANDOUT")
        mt = bit_index("_HIGH_TRUE_COLOR")
        yield "standout-is-on-unless-undone", flag(v1, "_STANDOUT") == neg(a.undo)
        yield "colours-and-every-other-setting-kept", both(*[p == q for i, (p, q) in enumerate(zip(v1.parts, v0.parts)) if i not in (so, mt)])
        yield "still-a-well-formed-attrspec", both(wf(v1), flag(v1, "_HIGH_88_COLOR") == flag(v0, "_HIGH_88_COLOR"))
        yield "the-same-value-when-standout-is-already-as-wanted", implies(flag(v0, "_STANDOUT") == neg(a.undo), v1 == v0)
        yield "canvas-untouched", frame_sgr(old, s)


def _csi_attr_inv(s):
    return both(GI(s), attr_ok(s.attrspec))


def _shows_with_reverse_video(I, R, rv):
    """In reverse-video mode (DECSCNM, outside the statement's subset) every attribute carries standout: the
    comparison with the reference then leaves standout out."""
    R2 = (*R[:7], ite(rv, I[7], R[7]))
    return both(shows(I, R2), implies(rv, I[7]))


def csi_set_attr_clauses(old, s, a):
    seq = a.attrs.seq
    new, R = rend_of(s.attrspec), RUN(seq, 0, rend_of(old.attrspec))
    # failed before the fix that removed `if attrs[-1] == 0: self.attrspec = None`: that reset also fired when the 0 was the ARGUMENT of
    # 38;5;N / 48;5;N / 38;2;r;g;b / 48;2;r;g;b -- TermCanvas(10, 3, w); addstr(b"\x1b[1;44m"); addstr(b"\x1b[38;5;0m") gave
    # AttrSpec('h0', 'default'): bold and the blue background lost (38;5;1 kept them)
    yield "new-rendition-is-the-reference-applied-to-the-previous-rendition", _shows_with_reverse_video(new, R, old.modes.reverse_video)


@contract(VT + "TermCanvas.csi_set_attr", property="C15")
class csi_set_attr:
    self_shape = TERM_SGR
    params = dict(attrs=PARAMS)
    raises = ()
    modifies = ("attrspec",)
    invariant = staticmethod(_csi_attr_inv)
    inline = GETTERS
    replayable = False
    call_real = staticmethod(codec_call_real)
    contract_overrides = CODEC
    setup = staticmethod(codec_setup)

    def requires(s, a):
        return both(0 <= s.charset.active, s.charset.active <= 1)

    def ensures(old, s, a, result):
        yield from csi_set_attr_clauses(old, s, a)
        yield "only-the-attribute-and-the-ibmpc-mapping-switches-change", both(only_sgr_mapping_changes(old, s), frame_sgr(old, s, "attrspec", "charset", "modes"))

    def havoc(self, st, obj):
        """At call sites: `attrspec` is replaced by a fresh value of the shape the CALLER's object has there (an
        opaque attribute stays opaque); see `effects` for charset / modes."""
        cur_v = obj.fields["attrspec"]
        obj.fields["attrspec"] = Opt(SPEC).fresh(st, "self.attrspec'") if not isinstance(cur_v, SOpaque) else Opaque(cur_v.kind, **cur_v.meta).fresh(st, "self.attrspec'")

    def effects(old, s, a, result):
        sgi_to_attrspec.effects(old, s, a, result)

    def ensures_callee(old, s, a, result):
        if isinstance(s.fields["attrspec"], SOpaque):
            return  # a caller that holds the attribute as an opaque individual learns nothing about it
        yield from csi_set_attr_clauses(old, s, a)
        yield "stored-attribute-is-well-formed", attr_ok(s.attrspec)


# =================================================================================================================
# 7. TermCanvas.reverse_video: every cell of the grid gets the reversed attribute
# =================================================================================================================
# The grid contracts (contracts/C15_vterm.py) hold a cell's attribute as an opaque individual.  reverse_attrspec reads
# nothing but its arguments (static check below), so at this level it is a FUNCTION of (attribute, undo): REV.  What
# that function does to an AttrSpec is the contract `reverse_attrspec` above (verified against the body); that it is
# total rests on AttrSpec's representation invariant, which holds for every AttrSpec value.
from contracts.C15_vterm import mkgrid, modelled, seq_rows_eq, upd  # noqa: E402
from pyvc.shapes import opaque_sort  # noqa: E402

_REV = z3.Function("reverse_attrspec$value", opaque_sort("Attr"), z3.BoolSort(), opaque_sort("Attr"))


def REV(attr, undo):
    if not (isinstance(attr, SOpaque) and attr.kind == "Attr"):
        raise Unsupported(f"reverse_attrspec applied to something that is not a cell attribute: {attr!r}")
    return SOpaque("Attr", _REV(attr.e, V._zb(undo)), dict(attr.meta))


def rev_cell(c, undo):
    return (REV(c[0], undo), c[1], c[2])


def reversed_where(s0, undo, done):
    """The grid of s0 with the attribute of every cell (r, x) with done(r, x) reversed."""
    return mkgrid(s0, lambda r, x: ite(done(r, x), rev_cell(cell(s0.term, r, x), undo), cell(s0.term, r, x)))


def _reads_only_its_arguments():
    """reverse_attrspec never reads or writes `self`: its result is a function of (attrspec, undo)."""
    import ast

    from pyvc import source as SRC

    node = SRC.resolve(VT + "TermCanvas.reverse_attrspec").node
    selfname = node.args.args[0].arg
    uses = [n for n in ast.walk(node) if isinstance(n, ast.Name) and n.id == selfname]
    return "reverse-attrspec-is-a-function-of-its-arguments", not uses and [a.arg for a in node.args.args] == ["self", "attrspec", "undo"], f"uses of self: {len(uses)}"


@contract(VT + "TermCanvas.reverse_attrspec", property=(), alias="on-opaque-attributes", assumed=True,
          notes="Call-site view of reverse_attrspec for the grid contracts, where a cell's attribute is an opaque individual: the result is REV(attribute, undo), "
                "a function of the two arguments (static check `reverse-attrspec-is-a-function-of-its-arguments`: the body never touches self), and the call does not "
                "raise (the verified contract TermCanvas.reverse_attrspec has raises=() under AttrSpec's representation invariant, which every AttrSpec value satisfies).")
class reverse_attrspec_opaque:
    self_shape = TERM
    params = dict(attrspec=Opaque("Attr"), undo=Bool)
    result = Opaque("Attr")
    raises = ()
    pure_spec = staticmethod(lambda old, a: REV(a.attrspec, a.undo))


@contract(VT + "TermCanvas.reverse_video", property="C15")
@modelled
class reverse_video:
    params = dict(undo=Bool)
    modifies = ("term",)
    raises = ()
    contract_overrides = {VT + "TermCanvas.reverse_attrspec": reverse_attrspec_opaque}
    static_checks = [_reads_only_its_arguments]
    loops = {
        # rows above y done
        0: Loop(modifies=("self.term",), invariant=lambda v: seq_rows_eq(v.self.term, reversed_where(v.old.self, v.undo, lambda r, x: r < v.i_))),
        # ... and the cells of row y left of x
        1: Loop(modifies=("self.term",), invariant=lambda v: seq_rows_eq(v.self.term, reversed_where(v.old.self, v.undo, lambda r, x: either(r < v.y, both(r == v.y, x < v.i_))))),
    }

    def model(old, a):
        return upd(old, term=reversed_where(old, a.undo, lambda r, x: True))

    def clauses(old, s, a, result):
        yield "every-cell-gets-the-reversed-attribute", forall(0, old.height, lambda r: forall(0, old.width, lambda x: eq(cell(s.term, r, x)[0], REV(cell(old.term, r, x)[0], a.undo))))
        yield "characters-and-charsets-stay", forall(0, old.height, lambda r: forall(0, old.width, lambda x: both(eq(cell(s.term, r, x)[1], cell(old.term, r, x)[1]), eq(cell(s.term, r, x)[2], cell(old.term, r, x)[2]))))


# =================================================================================================================
# 8. TermCanvas.content: the rows shown, incl. the scrolled-back view
# =================================================================================================================
# "Lines scrolled off the top are kept, in order, in the scrollback [scroll / resize / scroll_buffer: C15_vterm.py] and
# shown when the view is scrolled back": with the view offset k = scrolling_up, content() yields the last k rows of
# the scroll-back followed by the first height - k rows of the grid, each brought to exactly `width` cells.
# content() is a generator: verified as run to exhaustion in one go (pyvc/interp.py run_function: generator_as_list).
from contracts.C15_vterm import HELPERS, ROW, SDeque, blank, mkrow, mkrows, row_len  # noqa: E402

SDeque.py_iter = lambda self, ip, st: self.seq  # iteration over a deque (`[*self.scrollback_buffer, ...]`): its elements, oldest first, rows by value


def view_row(s, j):
    """Row j of the view of state s: cells of the scroll-back row / grid row shown there, blanks beyond a short scroll-back row."""
    sb = s.scrollback_buffer.seq
    n, k, w = Q.seq_len(sb), s.scrolling_up, s.width
    srow = Q.seq_get(sb, n - k + j)
    return mkrow(w, lambda x: ite(j < k, ite(x < Q.seq_len(srow), Q.seq_get(srow, x), blank(s)), cell(s.term, j - k, x)))


def _content_inv(v):
    out = rows_of(v.yielded_)
    s0 = v.old.self
    yield "one-row-per-iteration", Q.seq_len(out) == v.i_
    yield "rows-so-far-are-the-view-rows", seq_rows_eq(out, mkrows(v.i_, lambda j: view_row(s0, j)))
    yield "canvas-untouched", frame_sgr(s0, v.self)


@contract(VT + "TermCanvas.content", property="C15")
class content:
    self_shape = TERM
    params = dict(trim_left=Int, trim_top=Int, cols=Opt(Int), rows=Opt(Int), attr=Const(None))
    raises = ()
    invariant = staticmethod(GI)
    inline = HELPERS
    replayable = False
    independent_posts = True
    generator_as_list = True
    loops = {0: Loop(modifies=("yielded_",), shapes={"yielded_": ListOf(ROW)}, invariant=_content_inv)}

    def ensures(old, s, a, result):
        out = rows_of(result)
        h, w, k = old.height, old.width, old.scrolling_up
        yield "height-rows", Q.seq_len(out) == h
        yield "each-row-exactly-width-cells", forall(0, h, lambda j: row_len(out, j) == w)
        yield "not-scrolled-back-the-grid-itself", implies(k == 0, seq_rows_eq(out, old.term))
        yield "scrolled-back-the-last-k-scrollback-rows-then-the-top-of-the-grid", seq_rows_eq(out, mkrows(h, lambda j: view_row(old, j)))
        yield "canvas-untouched", frame_sgr(old, s)


# =================================================================================================================
# 9. lemmas: from the per-call clause to "equal to the reference after any sequence of SGR parameter lists"
# =================================================================================================================
# csi_set_attr proves   rend(new) shows RUN(attrs, 0, rend(old))   -- the reference started in what the terminal HOLDS.
# The statement compares with the reference's own state REF: REF' = RUN(attrs, 0, REF).  Induction over the calls:
# if rend(old) shows REF, then by `the-reference-respects-the-legitimate-variants` RUN(attrs, 0, rend(old)) shows
# RUN(attrs, 0, REF) = REF', and by `shows-composes` rend(new) shows REF'.  At power-on both are DEFAULT_STATE.
_STATE = dict(fk=Int, fn=Int, bk=Int, bn=Int, bo=Bool, ul=Bool, bl=Bool, so=Bool)


def _st(a, suffix):
    return tuple(getattr(a, k + suffix) for k in _STATE)


def _state_params(*suffixes):
    return {k + sfx: shp for sfx in suffixes for k, shp in _STATE.items()}


@lemma("the-reference-respects-the-legitimate-variants/end-of-list", property="C15")
class run_respects_shows_base:
    """Induction on the number of parameters left, base: nothing left, RUN is the identity."""
    params = dict(attrs=PARAMS, i=Int, **_state_params("1", "2"))

    def requires(a):
        run_unfold(a.attrs.seq, a.i, _st(a, "1"))
        run_unfold(a.attrs.seq, a.i, _st(a, "2"))
        return both(a.i >= Q.seq_len(a.attrs.seq), shows(_st(a, "1"), _st(a, "2")))

    def claim(a):
        yield "shows-is-kept", shows(RUN(a.attrs.seq, a.i, _st(a, "1")), RUN(a.attrs.seq, a.i, _st(a, "2")))


@lemma("the-reference-respects-the-legitimate-variants/step", property="C15")
class run_respects_shows_step:
    """Step: at position i < n both runs take the same reference step (the position advances by the same amount, the
    two renditions stay related), and the induction hypothesis — the lemma for the fewer parameters left from the
    next position on, for the two renditions after the step — gives the claim."""
    params = dict(attrs=PARAMS, i=Int, **_state_params("1", "2"))

    def requires(a):
        seq, S1, S2 = a.attrs.seq, _st(a, "1"), _st(a, "2")
        n = Q.seq_len(seq)
        run_unfold(seq, a.i, S1)
        run_unfold(seq, a.i, S2)
        got = [Q.seq_get(seq, a.i + k) for k in range(5)]
        T1, j1 = ref_step(lambda k: got[k], n, a.i, S1)
        T2, _j2 = ref_step(lambda k: got[k], n, a.i, S2)
        hypothesis = implies(shows(T1, T2), shows(RUN(seq, j1, T1), RUN(seq, j1, T2)))  # (j1 > i: fewer parameters left)
        return both(0 <= a.i, a.i < n, shows(S1, S2), hypothesis)

    def claim(a):
        yield "shows-is-kept", shows(RUN(a.attrs.seq, a.i, _st(a, "1")), RUN(a.attrs.seq, a.i, _st(a, "2")))


@lemma("shows-composes", property="C15")
class shows_composes:
    params = _state_params("1", "2", "3")

    def requires(a):
        return both(shows(_st(a, "1"), _st(a, "2")), shows(_st(a, "2"), _st(a, "3")))

    def claim(a):
        yield "shows", shows(_st(a, "1"), _st(a, "3"))


@lemma("shows-is-reflexive-and-exact-without-bold", property="C15")
class shows_exact:
    """Sanity of the comparison itself: a rendition shows itself; and without bold (or with a non-basic foreground)
    nothing but a colour denoting the same colour is accepted."""
    params = _state_params("1", "2")

    def requires(a):
        return shows(_st(a, "1"), _st(a, "2"))

    def claim(a):
        I, R = _st(a, "1"), _st(a, "2")
        yield "reflexive", shows(I, I)
        yield "same-flags", both(*[eq(I[c], R[c]) for c in range(4, 8)])
        yield "same-background", col_same(I[2], I[3], R[2], R[3])
        yield "same-foreground-unless-bold-and-basic", implies(neg(both(R[4], R[0] == K_INDEX, 0 <= R[1], R[1] < 8)), col_same(I[0], I[1], R[0], R[1]))
