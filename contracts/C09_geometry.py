"""C09 — cursor position and mouse hit-testing agree with what is drawn (per-container lemmas,
children abstract = "for every child honouring the widget protocol")."""
from pyvc.api import *
from pyvc.values import cur, is_none, mk_bool
from contracts.proto_widget import *
from contracts.C19_space import FILLER, filler_wf, size_ok, filler_geometry, filler_values as FV_CONTRACT
from urwid.widget import filler as _filler

FV_CONTRACT.deterministic = True
FI = "urwid/widget/filler.py:"
INL = ("urwid/widget/widget.py:Widget.pack", FI + "Filler.sizing", FI + "Filler.rows", "urwid/widget/widget_decoration.py:WidgetDecoration.original_widget")


def calls(name=None):
    return [ev for ev in cur().trace if ev[0] == "call" and (name is None or ev[2] == name)]


def filler_fit(s, size, focus=True):
    """Fit precondition of the statement for a Filler: the child gets the rows it asks for."""
    maxcol, maxrow, req = filler_geometry(s, size, focus)
    return req + s.top + s.bottom <= maxrow


def filler_child_size(s, size, top, bottom):
    maxcol, maxrow, _req = filler_geometry(s, size, True)
    if s.height_type == "pack":
        return (maxcol,)
    return (maxcol, maxrow - top - bottom)


def opt_eq_shift(res, base, dx, dy):
    """res == (base.x+dx, base.y+dy) for optional coordinate pairs (None iff None)."""
    if is_none(base):
        return is_none(res)
    if is_none(res):
        return False
    return both(val(res)[0] == val(base)[0] + dx, val(res)[1] == val(base)[1] + dy)


class _FillerBase:
    pass


def _filler_requires(s, a, focus=True):
    return both(filler_wf(s), size_ok(a.size), implies(len(a.size) == 1, neg(s.height_type == "relative")), filler_fit(s, a.size, focus))


@contract(FI + "Filler.get_cursor_coords", property="C09", inline=INL, replayable=False)
class filler_gcc:
    self_shape = FILLER
    params = dict(size=Union(Tup(Int, Int), Tup(Int)))
    result = Opt(Tup(Int, Int))

    def requires(s, a):
        return _filler_requires(s, a)

    def ensures(old, s, a, result):
        W = PROTOCOLS["Widget"]
        w = old._original_widget
        if not W.hasattr(None, cur(), w, "get_cursor_coords"):
            yield "no-cursor-protocol", is_none(result)
            return
        top, bottom = FV_CONTRACT.spec_value(old, size=a.size, focus=True)
        cs = filler_child_size(old, a.size, top, bottom)
        cc = W.call_quiet(cur(), w, "get_cursor_coords", dict(size=cs))
        yield "child-cursor-shifted-by-top", opt_eq_shift(result, cc, 0, top)


def _filler_render_child(old, a):
    """(child widget, size it is rendered at, its canvas) for Filler.render(a.size, a.focus): shared by the clauses
    and by the callee-side `effects`."""
    W = PROTOCOLS["Widget"]
    w = old._original_widget
    top, bottom = FV_CONTRACT.spec_value(old, size=a.size, focus=a.focus)
    cs = filler_child_size(old, a.size, top, bottom)
    child = W.call_quiet(cur(), w, "render", dict(size=cs, focus=a.focus))
    return w, top, bottom, cs, child


@contract(FI + "Filler.render", property=("C09", "C01", "C08"), inline=INL, replayable=False)
class filler_render:
    """No fit precondition: a child that asks for more rows than the box has (`Frame.render` wraps a header / footer
    that does not fit in a Filler) is rendered in full and cut to the box -- from the top, except that the window moves
    down just far enough to keep the child's cursor row."""
    self_shape = FILLER
    params = dict(size=Union(Tup(Int, Int), Tup(Int)), focus=Bool)
    result = CCANVAS
    raises = ()

    def requires(s, a):
        return both(filler_wf(s), size_ok(a.size), implies(len(a.size) == 1, neg(s.height_type == "relative")))

    def ensures(old, s, a, r):
        maxcol, maxrow, req = filler_geometry(old, a.size, a.focus)
        yield "size", both(r.ncols == maxcol, r.nrows == maxrow)
        w, top, bottom, cs, child = _filler_render_child(old, a)
        rc = calls("render")
        # C08 (only the focus path is rendered with focus): the one child, once, with the filler's own focus flag
        yield "child-rendered-once-at-its-size", both(len(rc) == 1, eq(rc[0][1], w) if rc else False, eq(rc[0][3]["size"], cs) if rc else False)
        yield "child-focus-flag-is-the-fillers", eq(rc[0][3]["focus"], a.focus) if rc else False
        yield "child-drawn-unshifted-sideways", both(r.src == child.src, r.left_off == 0)
        if req + old.top + old.bottom <= maxrow:  # the fit case of the C09 statement
            yield "cursor-is-childs-shifted-by-top", opt_eq_shift(r.cursor, child.cursor, 0, top)
            yield "child-drawn-at-row-top", r.top_off == -top
        elif req > maxrow:  # too tall (only a flow child can be: a box child is handed the rows there are)
            hidden = 0
            if not is_none(child.cursor) and maxrow > 0 and val(child.cursor)[1] >= maxrow:
                hidden = val(child.cursor)[1] - maxrow + 1
            yield "too-tall-child-cut-to-the-box-keeping-its-cursor-row", r.top_off == hidden
            if maxrow > 0:
                yield "too-tall-cursor-is-childs-in-the-window", opt_eq_shift(r.cursor, child.cursor, 0, -hidden)
            else:
                yield "no-rows-no-cursor", is_none(r.cursor)
        else:  # the margins give way, the child keeps its rows
            yield "cursor-is-childs-shifted-by-top", opt_eq_shift(r.cursor, child.cursor, 0, top)
            yield "child-drawn-at-row-top", r.top_off == -top

    def effects(old, s, a, r):
        # callee use (Frame.render): the call this contract proves is made on the child, in the caller's ghost trace
        w, _top, _bottom, cs, child = _filler_render_child(old, a)
        cur().event("call", w, "render", dict(size=cs, focus=a.focus), child)


def _fwd_contract(method, extra_params, result_shape):
    pass


@contract(FI + "Filler.mouse_event", property="C09", inline=INL, replayable=False)
class filler_mouse:
    self_shape = FILLER
    params = dict(size=Union(Tup(Int, Int), Tup(Int)), event=Opaque("Key"), button=Int, col=Int, row=Int, focus=Bool)
    result = Bool

    def requires(s, a):
        maxcol, maxrow, _ = filler_geometry(s, a.size, a.focus)
        return both(_filler_requires(s, a, a.focus), 0 <= a.col, a.col < maxcol, 0 <= a.row, a.row < maxrow,
                    # heights as drawn: the focused and unfocused geometry agree (statement: the tree as rendered)
                    eq(FV_CONTRACT.spec_value(s, size=a.size, focus=True)[0], FV_CONTRACT.spec_value(s, size=a.size, focus=a.focus)[0]),
                    eq(FV_CONTRACT.spec_value(s, size=a.size, focus=True)[1], FV_CONTRACT.spec_value(s, size=a.size, focus=a.focus)[1]))

    def ensures(old, s, a, result):
        W = PROTOCOLS["Widget"]
        w = old._original_widget
        maxcol, maxrow, _ = filler_geometry(old, a.size, a.focus)
        top, bottom = FV_CONTRACT.spec_value(old, size=a.size, focus=a.focus)
        cs = filler_child_size(old, a.size, top, bottom)
        me = calls("mouse_event")
        inside = both(top <= a.row, a.row < maxrow - bottom)
        if not W.hasattr(None, cur(), w, "mouse_event"):
            yield "no-handler", both(len(me) == 0, result == False)  # noqa: E712
        elif inside:
            yield "delivered-to-child-once", len(me) == 1
            if me:
                v = me[0][3]
                yield "child-relative-coordinates", both(eq(v["size"], cs), v["col"] == a.col, v["row"] == a.row - top, v["button"] == a.button, eq(v["focus"], a.focus), eq(v["event"], a.event))
                yield "result-is-childs", eq(result, me[0][4])
        else:
            yield "padding-cell-not-delivered", both(len(me) == 0, result == False)  # noqa: E712


@contract(FI + "Filler.move_cursor_to_coords", property="C09", inline=INL, replayable=False)
class filler_mctc:
    self_shape = FILLER
    params = dict(size=Union(Tup(Int, Int), Tup(Int)), col=Int, row=Int)
    result = Bool

    def requires(s, a):
        maxcol, maxrow, _ = filler_geometry(s, a.size, True)
        return both(_filler_requires(s, a), 0 <= a.col, a.col < maxcol, 0 <= a.row, a.row < maxrow)

    def ensures(old, s, a, result):
        W = PROTOCOLS["Widget"]
        w = old._original_widget
        maxcol, maxrow, _ = filler_geometry(old, a.size, True)
        top, bottom = FV_CONTRACT.spec_value(old, size=a.size, focus=True)
        cs = filler_child_size(old, a.size, top, bottom)
        mv = calls("move_cursor_to_coords")
        inside = both(top <= a.row, a.row < maxrow - bottom)
        # statement: succeeds exactly when the wrapped widget accepts the translated cell, and then the cursor
        # is on the requested row -- so a row in the filler's own padding is rejected whatever the child is
        if not inside:
            yield "row-outside-child-rejected", both(len(mv) == 0, result == False)  # noqa: E712
        elif not W.hasattr(None, cur(), w, "move_cursor_to_coords"):
            yield "no-cursor-protocol", both(len(mv) == 0, result == True)  # noqa: E712
        else:
            yield "forwarded-once", len(mv) == 1
            if mv:
                v = mv[0][3]
                yield "translated-cell", both(eq(v["size"], cs), v["col"] == a.col, v["row"] == a.row - top)
                yield "succeeds-iff-child-accepts", eq(result, mv[0][4])


@contract(FI + "Filler.keypress", property=("C09", "C08"), inline=INL, replayable=False)
class filler_keypress:
    self_shape = FILLER
    params = dict(size=Union(Tup(Int, Int), Tup(Int)), key=Opaque("Key"))
    result = Opt(Opaque("Key"))

    def requires(s, a):
        return _filler_requires(s, a)

    def ensures(old, s, a, result):
        top, bottom = FV_CONTRACT.spec_value(old, size=a.size, focus=True)
        cs = filler_child_size(old, a.size, top, bottom)
        kp = calls("keypress")
        yield "offered-once-with-the-rendered-size", both(len(kp) == 1, eq(kp[0][3]["size"], cs) if kp else False, eq(kp[0][3]["key"], a.key) if kp else False)
        if kp:
            yield "result-is-childs", opt_same(result, kp[0][4])


def opt_same(a, b):
    if is_none(a) or is_none(b):
        return is_none(a) and is_none(b)
    return eq(val(a), val(b))


# ============================================================================================ Padding
from contracts.C19_space import clrp as CLRP  # noqa: E402
from spec.layout import requested_size  # noqa: E402
from urwid.widget import padding as _padding  # noqa: E402

CLRP.deterministic = True
PA = "urwid/widget/padding.py:"
PADDING = Obj(
    _padding.Padding,
    dict(
        _original_widget=Opaque("Widget"),
        left=Int, right=Int,
        _align_type=Enum("left", "center", "right", "relative"), _align_amount=Int,
        _width_type=Enum("given", "relative", "pack", "clip"), _width_amount=Opt(Int),
        min_width=Opt(Int),
    ),
)
PINL = ("urwid/widget/widget.py:Widget.pack", PA + "Padding.pack", PA + "Padding.sizing", "urwid/widget/widget_decoration.py:WidgetDecoration.original_widget")


def padding_wf(s):
    wa = s._width_amount
    return both(
        0 <= s.left, s.left < PARTMAX, 0 <= s.right, s.right < PARTMAX, 0 <= s._align_amount, s._align_amount <= 100,
        implies(either(s._width_type == "pack", s._width_type == "clip"), mk_bool(wa.isnone)),
        implies(s._width_type == "given", both(neg(mk_bool(wa.isnone)), wa.val >= 0, wa.val < PARTMAX)),
        implies(s._width_type == "relative", both(neg(mk_bool(wa.isnone)), wa.val >= 0, wa.val <= 100)),
        either(mk_bool(s.min_width.isnone), both(s.min_width.val >= 0, s.min_width.val < PARTMAX)),
    )


def padding_req(s, size, focus):
    """(kind, requested width, min_width) handed to the calculator, per the documented width options."""
    W = PROTOCOLS["Widget"]
    st = cur()
    maxcol = size[0]
    w = s._original_widget
    if s._width_type == "clip":
        return "clip", W.call_quiet(st, w, "pack", dict(size=(), focus=focus))[0], None
    if s._width_type == "pack":
        mw = 0 if is_none(s.min_width) else val(s.min_width)
        maxwidth = imax(maxcol - s.left - s.right, mw)
        return "given", W.call_quiet(st, w, "pack", dict(size=(maxwidth,), focus=focus))[0], s.min_width
    if s._width_type == "given":
        return "given", val(s._width_amount), s.min_width
    return "relative", val(s._width_amount), s.min_width


@contract(PA + "Padding.padding_values", property="C19", inline=PINL, deterministic=True, replayable=False)
class padding_values:
    self_shape = PADDING
    params = dict(size=Union(Tup(Int, Int), Tup(Int)), focus=Bool)
    result = Tup(Int, Int)

    def requires(s, a):
        return both(padding_wf(s), size_ok(a.size))

    def ensures(old, s, a, result):
        kind, req, mw = padding_req(old, a.size, a.focus)
        want = CLRP.spec_value(None, maxcol=a.size[0], align_type=old._align_type, align_amount=old._align_amount,
                               width_type=kind, width_amount=req, min_width=mw, left=old.left, right=old.right)
        yield "is-the-calculator-on-the-documented-request", both(result[0] == want[0], result[1] == want[1])
        yield "frame", both(*[eq(s.fields[k], old.fields[k]) for k in ("left", "right", "_align_type", "_align_amount", "_width_type")])


PV = padding_values


def padding_fit(s, size, focus):
    kind, req, mw = padding_req(s, size, focus)
    if kind == "clip":
        return True
    want = requested_size(size[0], kind, req, mw, s.left, s.right)
    return both(want + s.left + s.right <= size[0], want >= 1)


def _padding_requires(s, a, focus):
    return both(padding_wf(s), size_ok(a.size), a.size[0] >= 1, padding_fit(s, a.size, focus), neg(s._width_type == "clip"))


def padding_child_size(size, left, right):
    return (size[0] - left - right,) + tuple(size[1:])


@contract(PA + "Padding.get_cursor_coords", property="C09", inline=PINL, replayable=False)
class padding_gcc:
    self_shape = PADDING
    params = dict(size=Union(Tup(Int, Int), Tup(Int)))
    result = Opt(Tup(Int, Int))

    def requires(s, a):
        return _padding_requires(s, a, True)

    def ensures(old, s, a, result):
        W = PROTOCOLS["Widget"]
        w = old._original_widget
        if not W.hasattr(None, cur(), w, "get_cursor_coords"):
            yield "no-cursor-protocol", is_none(result)
            return
        left, right = PV.spec_value(old, size=a.size, focus=True)
        cs = padding_child_size(a.size, left, right)
        cc = W.call_quiet(cur(), w, "get_cursor_coords", dict(size=cs))
        yield "child-cursor-shifted-by-left", opt_eq_shift(result, cc, left, 0)


@contract(PA + "Padding.render", property=("C09", "C01"), inline=PINL, replayable=False)
class padding_render:
    self_shape = PADDING
    params = dict(size=Union(Tup(Int, Int), Tup(Int)), focus=Bool)
    result = CCANVAS

    def requires(s, a):
        return _padding_requires(s, a, a.focus)

    def ensures(old, s, a, r):
        W = PROTOCOLS["Widget"]
        w = old._original_widget
        left, right = PV.spec_value(old, size=a.size, focus=a.focus)
        cs = padding_child_size(a.size, left, right)
        child = W.call_quiet(cur(), w, "render", dict(size=cs, focus=a.focus))
        yield "width", r.ncols == a.size[0]
        yield "height-is-childs", r.nrows == child.nrows
        if len(a.size) == 2:
            yield "box-height", r.nrows == a.size[1]
        rc = calls("render")
        yield "child-rendered-once-at-its-size", both(len(rc) == 1, eq(rc[0][3]["size"], cs) if rc else False, eq(rc[0][3]["focus"], a.focus) if rc else False)
        yield "cursor-is-childs-shifted-by-left", opt_eq_shift(r.cursor, child.cursor, left, 0)
        yield "child-drawn-at-column-left", both(r.src == child.src, r.left_off == -left, r.top_off == 0)


@contract(PA + "Padding.rows", property="C01", inline=PINL, replayable=False)
class padding_rows:
    self_shape = PADDING
    params = dict(size=Tup(Int), focus=Bool)
    result = Int

    def requires(s, a):
        return _padding_requires(s, a, a.focus)

    def ensures(old, s, a, result):
        W = PROTOCOLS["Widget"]
        left, right = PV.spec_value(old, size=a.size, focus=a.focus)
        cs = padding_child_size(a.size, left, right)
        child = W.call_quiet(cur(), old._original_widget, "render", dict(size=cs, focus=a.focus))
        yield "rows-equal-rendered-rows", result == child.nrows


@contract(PA + "Padding.mouse_event", property="C09", inline=PINL, replayable=False)
class padding_mouse:
    self_shape = PADDING
    params = dict(size=Union(Tup(Int, Int), Tup(Int)), event=Opaque("Key"), button=Int, col=Int, row=Int, focus=Bool)
    result = Bool

    def requires(s, a):
        return both(_padding_requires(s, a, a.focus), 0 <= a.col, a.col < a.size[0], 0 <= a.row)

    def ensures(old, s, a, result):
        W = PROTOCOLS["Widget"]
        w = old._original_widget
        left, right = PV.spec_value(old, size=a.size, focus=a.focus)
        cs = padding_child_size(a.size, left, right)
        me = calls("mouse_event")
        inside = both(left <= a.col, a.col < a.size[0] - right)
        if not W.hasattr(None, cur(), w, "mouse_event"):
            yield "no-handler", both(len(me) == 0, result == False)  # noqa: E712
        elif inside:
            yield "delivered-to-child-once", len(me) == 1
            if me:
                v = me[0][3]
                yield "child-relative-coordinates", both(eq(v["size"], cs), v["col"] == a.col - left, v["row"] == a.row, v["button"] == a.button, eq(v["focus"], a.focus), eq(v["event"], a.event))
                yield "result-is-childs", eq(result, me[0][4])
        else:
            yield "padding-cell-not-delivered", both(len(me) == 0, result == False)  # noqa: E712


@contract(PA + "Padding.move_cursor_to_coords", property="C09", inline=PINL, replayable=False)
class padding_mctc:
    self_shape = PADDING
    params = dict(size=Union(Tup(Int, Int), Tup(Int)), x=Int, y=Int)
    result = Bool

    def requires(s, a):
        return both(_padding_requires(s, a, True), 0 <= a.x, a.x < a.size[0], 0 <= a.y)

    def ensures(old, s, a, result):
        W = PROTOCOLS["Widget"]
        w = old._original_widget
        left, right = PV.spec_value(old, size=a.size, focus=True)
        cs = padding_child_size(a.size, left, right)
        mv = calls("move_cursor_to_coords")
        if not W.hasattr(None, cur(), w, "move_cursor_to_coords"):
            yield "no-cursor-protocol", both(len(mv) == 0, result == True)  # noqa: E712
            return
        yield "forwarded-once", len(mv) == 1
        if mv:
            v = mv[0][3]
            # a cell in the padding is clamped to the nearest child column (documented behaviour), others translated
            want_x = imax(0, imin(a.x - left, cs[0] - 1))
            yield "translated-cell", both(eq(v["size"], cs), v["col"] == want_x, v["row"] == a.y)
            yield "succeeds-iff-child-accepts", eq(result, mv[0][4])


@contract(PA + "Padding.keypress", property=("C09", "C08"), inline=PINL, replayable=False)
class padding_keypress:
    self_shape = PADDING
    params = dict(size=Union(Tup(Int, Int), Tup(Int)), key=Opaque("Key"))
    result = Opt(Opaque("Key"))

    def requires(s, a):
        return _padding_requires(s, a, True)

    def ensures(old, s, a, result):
        left, right = PV.spec_value(old, size=a.size, focus=True)
        cs = padding_child_size(a.size, left, right)
        kp = calls("keypress")
        yield "offered-once-with-the-rendered-size", both(len(kp) == 1, eq(kp[0][3]["size"], cs) if kp else False, eq(kp[0][3]["key"], a.key) if kp else False)
        if kp:
            yield "result-is-childs", opt_same(result, kp[0][4])


# ============================================================================================ Filler(...) as built by Frame.render
from urwid.widget.constants import VAlign as _VAlign  # noqa: E402


@contract(FI + "Filler.__init__", property=("C09", "C08"), replayable=False,
          inline=("urwid/widget/widget_decoration.py:WidgetDecoration.__init__", "urwid/widget/constants.py:normalize_valign", "urwid/widget/constants.py:normalize_height"))
class filler_init:
    """`Filler(body, valign)` with the default `height='pack'` and no margins -- the form `Frame.render` builds around a
    header / footer that does not fit.  `constructs`: at a call site the new object is a FILLER with these fields."""
    self_shape = FILLER
    constructs = FILLER
    ctor_params = ("body", "valign", "height", "min_height", "top", "bottom")
    ctor_defaults = dict(valign="middle", height="pack", min_height=None, top=0, bottom=0)
    params = dict(body=Opaque("Widget"), valign=Union(*[Const(v) for v in (_VAlign.TOP, _VAlign.MIDDLE, _VAlign.BOTTOM, "top", "middle", "bottom")]), height=Const("pack"), min_height=Opt(Int), top=Int, bottom=Int)
    raises = ()

    def requires(s, a):
        return both(0 <= a.top, a.top < PARTMAX, 0 <= a.bottom, a.bottom < PARTMAX)

    def ensures(old, s, a, result):
        yield "wraps-the-body", eq(s._original_widget, a.body)
        yield "aligned-as-asked", eq(s.valign_type, a.valign)
        yield "a-flow-child-keeps-its-rows", both(s.height_type == "pack", is_none(s.min_height))
        yield "margins-as-asked", both(s.top == a.top, s.bottom == a.bottom)
