"""C05 - the names in the escape-sequence table: `escape_modifier` (xterm modifier parameter -> key-name prefix)
under contract, and a static obligation over the REAL import-time tables (`escape.input_sequences` and the trie
`escape.input_trie` built from it): every modified cursor / editing / function key entry carries the name an
INDEPENDENT builder (spec/xterm_keys.py: written from xterm ctlseqs "PC-Style Function Keys" and urwid's documented
prefix vocabulary, imports nothing of urwid) gives it, every documented combination is present, and walking the real
trie along the sequence arrives at that same name.

Statement clause: "reports each recognised key sequence ... exactly once with its documented name" over "every entry of
the escape-sequence table".  The trie walk itself (get_recurse / get / process_keyqueue in C05_input.py) returns "the
leaf the trie holds"; what the leaves ARE is fixed here."""
from pyvc.api import *
from pyvc.text import STextIte, SConst, text_eq
from pyvc.values import _cmp

from spec import xterm_keys as XK

from urwid.display import escape as _esc

ES = "urwid/display/escape.py:"


def doc_prefix_text(code):
    """The documented prefix for the character code of the parameter digit ('1'..'8'), as a text value: a
    conditional chain over the literal xterm table of spec/xterm_keys.py (no bit arithmetic)."""
    t = SConst(XK.modifier_prefix(8))
    for m in range(7, 0, -1):
        t = STextIte(_cmp("==", code, ord("0") + m), SConst(XK.modifier_prefix(m)), t)
    return t


def _real_tables_carry_documented_names():
    seqs = list(_esc.input_sequences)
    tbl = {}
    dup = []
    for s, name in seqs:
        if s in tbl:
            dup.append(s)
        tbl[s] = name
    wrong = [(s, name, XK.documented_name(s)) for s, name in seqs if XK.documented_name(s) not in (None, name)]
    missing = [(s, want) for s, want in XK.documented_table() if s not in tbl]

    def walk(s):
        node = _esc.input_trie.data
        for ch in s:
            if not isinstance(node, dict) or ord(ch) not in node:
                return None
            node = node[ord(ch)]
        return node

    trie_wrong = [(s, want, walk(s)) for s, want in XK.documented_table(optional=True) if s in tbl and walk(s) != want]
    n = sum(1 for s, _ in seqs if XK.documented_name(s) is not None)
    ok = not (dup or wrong or missing or trie_wrong)
    return ("modified-key-entries-of-the-real-table-and-trie-carry-the-xterm-documented-names", ok,
            f"{n} modified-key entries of {len(seqs)}; duplicates {dup[:3]}, wrong names {wrong[:3]}, missing {missing[:3]}, trie leaves differing {trie_wrong[:3]}")


def _prefix_function_on_every_digit():
    """The real function on its whole domain (8 digits), concretely - the deductive clause below says the same
    symbolically; this one also guards the engine's text model."""
    bad = [(d, _esc.escape_modifier(d), XK.modifier_prefix(int(d))) for d in "12345678" if _esc.escape_modifier(d) != XK.modifier_prefix(int(d))]
    return "escape-modifier-agrees-with-the-xterm-table-on-all-eight-digits", not bad, f"8 digits, mismatches: {bad[:3]}"


@contract(ES + "escape_modifier", property="C05", replayable=False)
class escape_modifier:
    params = dict(digit=Text("str"))
    result = Text("str")
    raises = ()
    static_checks = [_real_tables_carry_documented_names, _prefix_function_on_every_digit]

    def requires(a):
        # call sites: `for digit in "12345678"` (module level of escape.py)
        return both(a.digit.length == 1, ord_of(a.digit) >= ord("1"), ord_of(a.digit) <= ord("8"))

    def ensures(a, result):
        yield "prefix-is-the-xterm-documented-combination-shift-meta-ctrl", text_eq(result, doc_prefix_text(ord_of(a.digit)))


def ord_of(t):
    from pyvc.text import char_ord

    return char_ord(t.get(0))
