"""C09 / C08 / C01 — Frame: every entry point against ONE shared geometry (`Frame.frame_top_bottom`), children
abstract ("for every header, body and footer honouring the widget protocol").

Shared geometry of a Frame at `size = (maxcol, maxrow)` and focus flag `f`:
    hrows = header.rows((maxcol,), f and focus_part == 'header')   (0 without a header)
    frows = footer.rows((maxcol,), f and focus_part == 'footer')   (0 without a footer)
    (htrim, ftrim) = the rows actually given to header and footer
    header occupies rows [0, htrim), body rows [htrim, maxrow - ftrim), footer rows [maxrow - ftrim, maxrow).
Fit precondition of the C09 statement for a Frame: hrows + frows < maxrow (nobody clipped, the body has a row).

"Has a header" means `header is not None`.  Before fix: commits 0b8920a / 8133c61 the code tested `if self.header:` in
frame_top_bottom / _contents_keys / __iter__ (truthiness: a container widget with no children, e.g. `Pile([])` or
`GridFlow([], ...)`, is falsy through `__len__`) but `is not None` in keypress and the focus_position setter.
Truthiness of an opaque widget stays an uninterpreted predicate here, not the constant True, so that slip is visible."""
import z3

from pyvc import shapes as S
from pyvc.api import *
from pyvc.api import PROTOCOLS
from pyvc.values import cur, is_none, mk_bool
from contracts.proto_widget import *
from contracts.C19_space import size_ok
from contracts.C09_geometry import calls, opt_eq_shift, opt_same
from urwid.widget import frame as _frame

FR = "urwid/widget/frame.py:"


def widget_truthy(st, w):
    """bool(w) of an opaque widget: True unless the class defines __len__ (Pile, Columns, GridFlow, ListBox ...)."""
    f = z3.Function("Widget.truthy", w.e.sort(), z3.BoolSort())
    return mk_bool(f(w.e))


WIDGET = Opaque("Widget", truth=widget_truthy)
PARTS = ("header", "body", "footer")
FRAME = Obj(_frame.Frame, dict(_header=Opt(WIDGET), _body=WIDGET, _footer=Opt(WIDGET), focus_part=Enum(*PARTS)))
FINL = (FR + "Frame.header", FR + "Frame.body", FR + "Frame.footer", FR + "Frame.focus")
BOXSIZE = Tup(Int, Int)


def part_widget(s, part):
    """The widget stored for `part` (an Opt value for header/footer)."""
    if part == "header":
        return s._header
    if part == "footer":
        return s._footer
    return s._body


def has_part(s, part):
    """`part` is a key of Frame.contents (what `_contents_keys`, `__iter__` and `contents[...]` go by)."""
    if part == "body":
        return True
    w = part_widget(s, part)
    # a part exists when it is not None -- whatever bool(widget) says (an empty Pile / GridFlow is falsy through
    # __len__): truthiness stays an uninterpreted predicate, so code that tests `if self.header:` instead of
    # `is not None` again fails these contracts (it did, before fix: commits 0b8920a / 8133c61)
    return not is_none(w)


def frame_inv(s):
    """C08: the focus position is one of the parts that exist."""
    return both(implies(s.focus_part == "header", neg(mk_bool(s._header.isnone))), implies(s.focus_part == "footer", neg(mk_bool(s._footer.isnone))))


def part_rows(s, part, maxcol, focus):
    """rows() of header/footer as drawn: 0 when the frame has no such part."""
    if not has_part(s, part):
        return 0
    f = both(s.focus_part == part, focus)
    return PROTOCOLS["Widget"].call_quiet(cur(), val(part_widget(s, part)), "rows", dict(size=(maxcol,), focus=f))


def frame_fit(s, size, focus):
    maxcol, maxrow = size
    return part_rows(s, "header", maxcol, focus) + part_rows(s, "footer", maxcol, focus) < maxrow


@contract(FR + "Frame.frame_top_bottom", property=("C09", "C19"), inline=FINL, deterministic=True, replayable=False)
class frame_top_bottom:
    self_shape = FRAME
    params = dict(size=BOXSIZE, focus=Bool)
    result = Tup(Tup(Int, Int), Tup(Int, Int))
    invariant = staticmethod(frame_inv)

    def requires(s, a):
        return size_ok(a.size)

    def ensures(old, s, a, result):
        (htrim, ftrim), (hrows, frows) = result
        maxcol, maxrow = a.size
        yield "orig-are-the-rows-calls", both(hrows == part_rows(old, "header", maxcol, a.focus), frows == part_rows(old, "footer", maxcol, a.focus))
        yield "header-range", both(0 <= htrim, htrim <= hrows)
        yield "footer-range", both(0 <= ftrim, ftrim <= frows)
        yield "within-the-box", htrim + ftrim <= maxrow
        yield "fits-untrimmed", implies(hrows + frows < maxrow, both(htrim == hrows, ftrim == frows))
        # who gives way when they do not fit: the focus part keeps its rows, then the footer, then the header;
        # a focused body keeps one row
        if old.focus_part == "footer":
            yield "focus-part-first", both(ftrim == imin(frows, maxrow), htrim == imin(hrows, maxrow - ftrim))
        elif old.focus_part == "header":
            yield "focus-part-first", both(htrim == imin(hrows, maxrow), ftrim == imin(frows, maxrow - htrim))
        else:
            room = imax(0, maxrow - 1)
            yield "focus-part-first", both(ftrim == imin(frows, room), htrim == imin(hrows, room - ftrim))
            yield "focused-body-keeps-a-row", implies(maxrow >= 1, htrim + ftrim < maxrow)
        yield "frame", both(eq(s.focus_part, old.focus_part), opt_same(s._header, old._header), opt_same(s._footer, old._footer), eq(s._body, old._body))


FTB = frame_top_bottom


def frame_geometry(s, size, focus):
    """(htrim, ftrim) of the shared geometry."""
    (htrim, ftrim), _ = FTB.spec_value(s, size=size, focus=focus)
    return htrim, ftrim


# ------------------------------------------------------------------------------------------------ helpers (assumed)
if "urwid/util.py:is_mouse_press" not in REGISTRY:

    @contract("urwid/util.py:is_mouse_press", property=(), assumed=True, deterministic=True,
              notes="`ev.find('press') >= 0` on the event name: a pure predicate of the (opaque) event string; str.find is outside the opaque Key model")
    class is_mouse_press:
        params = dict(ev=Opaque("Key"))
        result = Bool


def mouse_press(event):
    return REGISTRY["urwid/util.py:is_mouse_press"].spec_value(None, ev=event)


# ------------------------------------------------------------------------------------------------ C08: focus position
@contract(FR + "Frame.focus_position", property="C08", inline=FINL, replayable=False)
class frame_fp_get:
    self_shape = FRAME
    result = Enum(*PARTS)
    invariant = staticmethod(frame_inv)
    raises = ()

    def ensures(old, s, a, result):
        yield "is-the-focus-part", eq(result, old.focus_part)
        yield "a-part-that-exists", neg(is_none(part_widget(old, result)))
        yield "frame", eq(s.focus_part, old.focus_part)

    def pure_spec(old, a):
        return old.focus_part


def _invalid_part(s, part):
    if part == "junk":
        return True
    return is_none(part_widget(s, part))


@contract(FR + "Frame.focus_position.setter", property="C08", inline=FINL, replayable=False)
class frame_fp_set:
    self_shape = FRAME
    params = dict(part=Enum("header", "body", "footer", "junk"))
    invariant = staticmethod(frame_inv)
    raises = (IndexError,)
    modifies = ("focus_part",)
    raises_iff = {IndexError: lambda s, a: _invalid_part(s, a.part)}

    def ensures(old, s, a, result):
        yield "was-a-part-that-exists", neg(_invalid_part(old, a.part))
        # the statement's "valid position" is a key of .contents (what contents[...], __iter__ and get_focus_path go by)
        # failed before the fix: commits 0b8920a..a81aaaf: Frame(SolidFill(), header=Pile([])).focus_position = 'header' is accepted although
        #   'header' is not a key of .contents (empty containers are falsy; _contents_keys tests truthiness, the setter `is None`)
        yield "position-is-a-key-of-contents", has_part(old, a.part)
        yield "focus-is-that-part", eq(s.focus_part, a.part)
        yield "invalidated-once", count_ev(s.trace, "_invalidate") == 1
        yield "children-untouched", both(opt_same(s._header, old._header), opt_same(s._footer, old._footer), eq(s._body, old._body))

    def on_raise(old, s, a, exc):
        yield "only-for-a-part-that-does-not-exist", _invalid_part(old, a.part)
        yield "nothing-written", both(eq(s.focus_part, old.focus_part), count_ev(s.trace, "_invalidate") == 0, len([e for e in cur().trace if e[0] == "write"]) == 0)

    def effects(old, s, a, result):
        # callee use: what a successful assignment does (the clauses above are then assumed about exactly this)
        s.fields["focus_part"] = a.part
        s.trace.append(("_invalidate",))


# ------------------------------------------------------------------------------------------------ C09 entry points
def _frame_requires(s, a, focus):
    return both(size_ok(a.size), frame_fit(s, a.size, focus))


def part_size(part, size, htrim, ftrim):
    maxcol, maxrow = size
    if part == "body":
        return (maxcol, maxrow - htrim - ftrim)
    return (maxcol,)


def part_top(part, size, htrim, ftrim):
    if part == "header":
        return 0
    if part == "body":
        return htrim
    return size[1] - ftrim


@contract(FR + "Frame.keypress", property=("C09", "C08"), inline=FINL, replayable=False)
class frame_keypress:
    self_shape = FRAME
    params = dict(size=BOXSIZE, key=Opaque("Key"))
    result = Opt(Opaque("Key"))
    invariant = staticmethod(frame_inv)
    raises = ()

    def requires(s, a):
        return _frame_requires(s, a, True)

    def ensures(old, s, a, result):
        W = PROTOCOLS["Widget"]
        fp = old.focus_part
        w = val(part_widget(old, fp)) if fp != "body" else old._body
        htrim, ftrim = frame_geometry(old, a.size, True)
        kp = calls("keypress")
        yield "offered-to-no-one-but-the-focus-part", both(len(kp) <= 1, eq(kp[0][1], w) if kp else True)
        if not W.call_quiet(cur(), w, "selectable", {}):
            yield "not-offered-to-an-unselectable-part", both(len(kp) == 0, opt_same(result, a.key))
            return
        # A part that is not None but falsy (an empty container: `Pile([])`, `GridFlow([], ...)`) is skipped by
        # frame_top_bottom (`if self.header:`) yet counted by keypress (`is not None`); the two clauses below are split
        # on that case so that the ordinary case is discharged on its own.
        # FAILS-ON-TREE (both /falsy-part clauses, one root cause):
        #   Frame(body, header=GridFlow([], 3, 1, 0, 'left')): render((5, 4)) draws the body at (5, 4), keypress((5, 4), k)
        #   offers k to the body with size (5, 3);  Frame(body, footer=GridFlow([], 3, 1, 0, 'left')): render((5, 1)) draws the
        #   body on the one row, keypress((5, 1), k) returns k without offering it
        odd = "/falsy-part" if either(*[both(neg(is_none(part_widget(old, p))), neg(has_part(old, p))) for p in ("header", "footer")]) else ""
        yield "offered-once" + odd, len(kp) == 1
        if kp:
            yield "with-the-size-render-uses" + odd, eq(kp[0][3]["size"], part_size(fp, a.size, htrim, ftrim))
            yield "the-key-itself", eq(kp[0][3]["key"], a.key)
            yield "result-is-the-parts", opt_same(result, kp[0][4])
        yield "focus-unchanged", eq(s.focus_part, old.focus_part)


def part_at_row(row, size, htrim, ftrim):
    """The part whose drawn rows contain `row` (shared geometry)."""
    if row < htrim:
        return "header"
    if row >= size[1] - ftrim:
        return "footer"
    return "body"


@contract(FR + "Frame.mouse_event", property=("C09", "C08"), inline=FINL, replayable=False)
class frame_mouse:
    self_shape = FRAME
    params = dict(size=BOXSIZE, event=Opaque("Key"), button=Int, col=Int, row=Int, focus=Bool)
    result = Bool
    invariant = staticmethod(frame_inv)
    raises = ()

    def requires(s, a):
        return both(_frame_requires(s, a, a.focus), 0 <= a.col, a.col < a.size[0], 0 <= a.row, a.row < a.size[1])

    def ensures(old, s, a, result):
        W = PROTOCOLS["Widget"]
        htrim, ftrim = frame_geometry(old, a.size, a.focus)
        part = part_at_row(a.row, a.size, htrim, ftrim)
        w = val(part_widget(old, part)) if part != "body" else old._body
        me = calls("mouse_event")
        yield "delivered-to-no-one-but-the-part-drawn-there", both(len(me) <= 1, eq(me[0][1], w) if me else True)
        # C08: a button-1 press on a selectable part moves the focus there; nothing else does
        press = both(mouse_press(a.event), a.button == 1, W.call_quiet(cur(), w, "selectable", {}))
        if press:
            yield "press-focuses-the-part-clicked", eq(s.focus_part, part)
        else:
            yield "focus-unchanged", eq(s.focus_part, old.focus_part)
        if not W.hasattr(None, cur(), w, "mouse_event"):
            yield "no-handler", both(len(me) == 0, result == False)  # noqa: E712
            return
        yield "delivered-once", len(me) == 1
        if me:
            v = me[0][3]
            yield "part-relative-coordinates", both(eq(v["size"], part_size(part, a.size, htrim, ftrim)), v["col"] == a.col, v["row"] == a.row - part_top(part, a.size, htrim, ftrim))
            yield "event-and-button-unchanged", both(v["button"] == a.button, eq(v["event"], a.event))
            yield "focus-flag-is-focus-and-was-the-focus-part", eq(v["focus"], both(a.focus, old.focus_part == part))
            yield "result-is-the-parts", eq(result, me[0][4])


@contract(FR + "Frame.get_cursor_coords", property="C09", inline=FINL, replayable=False)
class frame_gcc:
    self_shape = FRAME
    params = dict(size=BOXSIZE)
    result = Opt(Tup(Int, Int))
    invariant = staticmethod(frame_inv)
    raises = ()

    def requires(s, a):
        return _frame_requires(s, a, True)

    def ensures(old, s, a, result):
        W = PROTOCOLS["Widget"]
        fp = old.focus_part
        w = val(part_widget(old, fp)) if fp != "body" else old._body
        if not W.call_quiet(cur(), w, "selectable", {}):
            yield "unselectable-focus-part-has-no-cursor", is_none(result)
            return
        if not W.hasattr(None, cur(), w, "get_cursor_coords"):
            yield "no-cursor-protocol", is_none(result)
            return
        htrim, ftrim = frame_geometry(old, a.size, True)
        cc = W.call_quiet(cur(), w, "get_cursor_coords", dict(size=part_size(fp, a.size, htrim, ftrim)))
        yield "focus-parts-cursor-shifted-by-its-top-row", opt_eq_shift(result, cc, 0, part_top(fp, a.size, htrim, ftrim))
        yield "frame", eq(s.focus_part, old.focus_part)


def _clipped_window(child, rows):
    """Rows of a too-tall flow part's canvas that are cut off above the `rows` rows shown (contract of `Filler.render`,
    C09_geometry.py): none, unless the part's cursor would otherwise fall below the window."""
    if is_none(child.cursor) or rows <= 0 or val(child.cursor)[1] < rows:
        return 0
    return val(child.cursor)[1] - rows + 1


@contract(FR + "Frame.render", property=("C09", "C01", "C08"), inline=FINL, replayable=False)
class frame_render:
    """Every size with at least one row and one column: also the sizes at which header and footer do not fit
    (hrows + frows >= maxrow), where `frame_top_bottom` trims them and `render` draws a trimmed flow part through
    `Filler(part, 'top' | 'bottom').render((maxcol, trimmed rows), ...)` (contracts `Filler.__init__` / `Filler.render`
    in C09_geometry.py, used here at the call sites)."""
    self_shape = FRAME
    params = dict(size=BOXSIZE, focus=Bool)
    result = CCANVAS
    invariant = staticmethod(frame_inv)
    raises = ()

    def requires(s, a):
        # (a box without rows has nothing in it: CanvasCombine([]) is a 0 x 0 canvas whatever maxcol is)
        return both(size_ok(a.size), a.size[0] >= 1, a.size[1] >= 1)

    def ensures(old, s, a, r):
        W = PROTOCOLS["Widget"]
        maxcol, maxrow = a.size
        (htrim, ftrim), (hrows, frows) = FTB.spec_value(old, size=a.size, focus=a.focus)
        yield "size", both(r.ncols == maxcol, r.nrows == maxrow)
        rc = calls("render")
        fp = old.focus_part
        # the parts that have rows are rendered top to bottom, each once, at its size of the shared geometry, and
        # (C08) only the focus part with focus -- whether or not the part is trimmed
        want = []
        for part in PARTS:
            shown = (maxrow - htrim - ftrim if part == "body" else htrim if part == "header" else ftrim) > 0
            if shown:
                want.append(part)
        yield "one-rendering-per-part-that-has-rows", len(rc) == len(want)
        for c, part in zip(rc, want):
            w = val(part_widget(old, part)) if part != "body" else old._body
            yield f"{part}-rendered-at-its-size", both(eq(c[1], w), eq(c[3]["size"], part_size(part, a.size, htrim, ftrim)))
            yield f"{part}-focus-flag", eq(c[3]["focus"], both(a.focus, fp == part))
        w = val(part_widget(old, fp)) if fp != "body" else old._body
        child = W.call_quiet(cur(), w, "render", dict(size=part_size(fp, a.size, htrim, ftrim), focus=a.focus))
        # (unfocused parts are rendered with focus=False: no cursor, by the widget protocol)
        if fp not in want:
            yield "a-focus-part-without-rows-shows-no-cursor", is_none(r.cursor)
        else:
            # a trimmed focus part shows the window of its rows that keeps its cursor row
            given, asked = (htrim, hrows) if fp == "header" else (ftrim, frows) if fp == "footer" else (0, 0)
            cut = _clipped_window(child, given) if given < asked else 0
            yield "cursor-is-the-focus-parts-shifted-by-its-top-row", opt_eq_shift(r.cursor, child.cursor, 0, part_top(fp, a.size, htrim, ftrim) - cut)


# ------------------------------------------------------------------------------------------------ C08: the constructor
@contract(FR + "_check_widget_subclass", property=(), assumed=True,
          notes="emits a DeprecationWarning for a non-Widget object and does nothing else (warnings are dropped, DESIGN 2.1); isinstance of an opaque child is outside the widget protocol")
class frame_check_subclass:
    params = dict(widget=Opt(WIDGET))


@contract(FR + "Frame.__init__", property="C08", inline=FINL, replayable=False)
class frame_init:
    self_shape = FRAME
    params = dict(body=WIDGET, header=Opt(WIDGET), footer=Opt(WIDGET), focus_part=Enum(*PARTS))
    raises = ()

    def ensures(old, s, a, result):
        yield "parts-stored", both(eq(s._body, a.body), opt_same(s._header, a.header), opt_same(s._footer, a.footer))
        asked_exists = both(implies(a.focus_part == "header", neg(is_none(a.header))), implies(a.focus_part == "footer", neg(is_none(a.footer))))
        yield "focus-part-as-asked-when-that-part-exists", implies(asked_exists, eq(s.focus_part, a.focus_part))
        # C08: the focus position of a new Frame is a part that exists (was violated by
        # Frame(SolidFill(), focus_part='header') before fix a81aaaf)
        yield "focus-position-is-a-part-that-exists", frame_inv(s)
