"""C09 / C08 / C01 — Frame: every entry point against ONE shared geometry (`Frame.frame_top_bottom`), children
abstract ("for every header, body and footer honouring the widget protocol").

Shared geometry of a Frame at `size = (maxcol, maxrow)` and focus flag `f`:
    hrows = header.rows((maxcol,), f and focus_part == 'header')   (0 without a header)
    frows = footer.rows((maxcol,), f and focus_part == 'footer')   (0 without a footer)
    (htrim, ftrim) = the rows actually given to header and footer
    header occupies rows [0, htrim), body rows [htrim, maxrow - ftrim), footer rows [maxrow - ftrim, maxrow).
Fit precondition of the C09 statement for a Frame: hrows + frows < maxrow (nobody clipped, the body has a row).

"Has a header" is what the code tests: `if self.header:` in frame_top_bottom / _contents_keys / __iter__ (truthiness: a
container widget with no children, e.g. `Pile([])` or `GridFlow([], ...)`, is falsy through `__len__`) versus
`self.header is not None` in keypress and in the focus_position setter.  Truthiness of an opaque widget is therefore an
uninterpreted predicate here, not the constant True."""
import z3

from pyvc import shapes as S
from pyvc.api import *
from pyvc.api import PROTOCOLS
from pyvc.values import cur, is_none, mk_bool
from contracts.proto_widget import *
from contracts.C19_space import size_ok
from contracts.C09_geometry import calls, opt_eq_shift, opt_same
from urwid.widget import frame as _frame

FR = "urwid/widget/frame.py:"


def widget_truthy(st, w):
    """bool(w) of an opaque widget: True unless the class defines __len__ (Pile, Columns, GridFlow, ListBox ...)."""
    f = z3.Function("Widget.truthy", w.e.sort(), z3.BoolSort())
    return mk_bool(f(w.e))


WIDGET = Opaque("Widget", truth=widget_truthy)
PARTS = ("header", "body", "footer")
FRAME = Obj(_frame.Frame, dict(_header=Opt(WIDGET), _body=WIDGET, _footer=Opt(WIDGET), focus_part=Enum(*PARTS)))
FINL = (FR + "Frame.header", FR + "Frame.body", FR + "Frame.footer", FR + "Frame.focus")
BOXSIZE = Tup(Int, Int)


def part_widget(s, part):
    """The widget stored for `part` (an Opt value for header/footer)."""
    return {"header": s._header, "body": s._body, "footer": s._footer}[part]


def has_part(s, part):
    """`part` is a key of Frame.contents (what `_contents_keys`, `__iter__` and `contents[...]` go by)."""
    if part == "body":
        return True
    w = part_widget(s, part)
    if is_none(w):
        return False
    return widget_truthy(cur(), val(w))


def frame_inv(s):
    """C08: the focus position is one of the parts that exist."""
    return both(implies(s.focus_part == "header", neg(mk_bool(s._header.isnone))), implies(s.focus_part == "footer", neg(mk_bool(s._footer.isnone))))


def part_rows(s, part, maxcol, focus):
    """rows() of header/footer as drawn: 0 when the frame has no such part."""
    if not has_part(s, part):
        return 0
    f = both(s.focus_part == part, focus)
    return PROTOCOLS["Widget"].call_quiet(cur(), val(part_widget(s, part)), "rows", dict(size=(maxcol,), focus=f))


def frame_fit(s, size, focus):
    maxcol, maxrow = size
    return part_rows(s, "header", maxcol, focus) + part_rows(s, "footer", maxcol, focus) < maxrow


@contract(FR + "Frame.frame_top_bottom", property=("C09", "C19"), inline=FINL, deterministic=True, replayable=False)
class frame_top_bottom:
    self_shape = FRAME
    params = dict(size=BOXSIZE, focus=Bool)
    result = Tup(Tup(Int, Int), Tup(Int, Int))
    invariant = staticmethod(frame_inv)

    def requires(s, a):
        return size_ok(a.size)

    def ensures(old, s, a, result):
        (htrim, ftrim), (hrows, frows) = result
        maxcol, maxrow = a.size
        yield "orig-are-the-rows-calls", both(hrows == part_rows(old, "header", maxcol, a.focus), frows == part_rows(old, "footer", maxcol, a.focus))
        yield "header-range", both(0 <= htrim, htrim <= hrows)
        yield "footer-range", both(0 <= ftrim, ftrim <= frows)
        yield "within-the-box", htrim + ftrim <= maxrow
        yield "fits-untrimmed", implies(hrows + frows < maxrow, both(htrim == hrows, ftrim == frows))
        # who gives way when they do not fit: the focus part keeps its rows, then the footer, then the header;
        # a focused body keeps one row
        if old.focus_part == "footer":
            yield "focus-part-first", both(ftrim == imin(frows, maxrow), htrim == imin(hrows, maxrow - ftrim))
        elif old.focus_part == "header":
            yield "focus-part-first", both(htrim == imin(hrows, maxrow), ftrim == imin(frows, maxrow - htrim))
        else:
            room = imax(0, maxrow - 1)
            yield "focus-part-first", both(ftrim == imin(frows, room), htrim == imin(hrows, room - ftrim))
            yield "focused-body-keeps-a-row", implies(maxrow >= 1, htrim + ftrim < maxrow)
        yield "frame", both(eq(s.focus_part, old.focus_part), opt_same(s._header, old._header), opt_same(s._footer, old._footer), eq(s._body, old._body))


FTB = frame_top_bottom


def frame_geometry(s, size, focus):
    """(htrim, ftrim) of the shared geometry."""
    (htrim, ftrim), _ = FTB.spec_value(s, size=size, focus=focus)
    return htrim, ftrim
