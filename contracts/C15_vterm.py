"""C15 — terminal emulator: grid-shape invariant contracts on the cursor arithmetic of urwid/vterm.py.
(The grid itself — a list of rows of cells — and the byte parser are decided by the bounded check.)"""
from pyvc.api import *
from pyvc.values import cur
from urwid import vterm as _vt

VT = "urwid/vterm.py:"
MODES = Obj(_vt.TermModes, dict(constrain_scrolling=Bool, visible_cursor=Bool, autowrap=Bool, insert=Bool, lfnl=Bool))
TERM = Obj(_vt.TermCanvas, dict(
    width=Int, height=Int, scrollregion_start=Int, scrollregion_end=Int, term_cursor=Tup(Int, Int), modes=MODES,
    is_rotten_cursor=Bool, has_focus=Bool, scrolling_up=Int, cursor=Opt(Tup(Int, Int))))


def GI(s):
    """Grid invariant (cursor part): positive size, scrolling region and cursor inside the grid."""
    x, y = s.term_cursor
    return both(s.width >= 1, s.height >= 1, 0 <= s.scrollregion_start, s.scrollregion_start <= s.scrollregion_end,
                s.scrollregion_end <= s.height - 1, 0 <= x, x < s.width, 0 <= y, y < s.height, s.scrolling_up >= 0)


@contract(VT + "TermCanvas.constrain_coords", property="C15")
class constrain_coords:
    self_shape = TERM
    params = dict(x=Int, y=Int, ignore_scrolling=Bool)
    result = Tup(Int, Int)
    invariant = staticmethod(GI)
    replayable = False
    deterministic = True

    def ensures(old, s, a, result):
        x, y = result
        yield "inside-the-grid", both(0 <= x, x < old.width, 0 <= y, y < old.height)
        region = both(old.modes.constrain_scrolling, neg(a.ignore_scrolling))
        yield "inside-the-scrolling-region-in-origin-mode", implies(region, both(old.scrollregion_start <= y, y <= old.scrollregion_end))
        yield "unchanged-when-already-inside", implies(both(0 <= a.x, a.x < old.width, ite(region, both(old.scrollregion_start <= a.y, a.y <= old.scrollregion_end), both(0 <= a.y, a.y < old.height))),
                                                       both(x == a.x, y == a.y))
        yield "column-kept-when-inside", implies(both(0 <= a.x, a.x < old.width), x == a.x)
        yield "nearest-cell", both(implies(a.x >= old.width, x == old.width - 1), implies(a.x < 0, x == 0))


@contract(VT + "TermCanvas.set_term_cursor", property="C15")
class set_term_cursor:
    self_shape = TERM
    params = dict(x=Opt(Int), y=Opt(Int))
    modifies = ("term_cursor", "cursor")
    invariant = staticmethod(GI)
    replayable = False

    def ensures(old, s, a, result):
        x, y = s.term_cursor
        yield "cursor-inside-the-grid", both(0 <= x, x < old.width, 0 <= y, y < old.height)
        ax = old.term_cursor[0] if is_none(a.x) else val(a.x)
        ay = old.term_cursor[1] if is_none(a.y) else val(a.y)
        want = constrain_coords.spec_value(old, x=ax, y=ay, ignore_scrolling=False)
        yield "is-the-constrained-request", both(x == want[0], y == want[1])
        if not is_none(s.cursor):
            cx, cy = val(s.cursor)
            yield "displayed-cursor-inside-the-canvas", both(0 <= cx, cx < old.width, 0 <= cy, cy < old.height)
            yield "displayed-only-with-focus-and-visible", both(old.has_focus, old.modes.visible_cursor)


@contract(VT + "TermCanvas.move_cursor", property="C15")
class move_cursor:
    self_shape = TERM
    params = dict(x=Int, y=Int, relative_x=Bool, relative_y=Bool, relative=Bool)
    invariant = staticmethod(GI)
    replayable = False

    def ensures(old, s, a, result):
        x, y = s.term_cursor
        yield "cursor-inside-the-grid", both(0 <= x, x < old.width, 0 <= y, y < old.height)
        yield "wrap-pending-cleared", s.is_rotten_cursor == False  # noqa: E712
        ox, oy = old.term_cursor
        rx = either(a.relative_x, a.relative)
        yield "column-addressed-or-relative", implies(both(0 <= ite(rx, a.x + ox, a.x), ite(rx, a.x + ox, a.x) < old.width), x == ite(rx, a.x + ox, a.x))


@contract(VT + "TermCanvas.get_utf8_len", property="C15")
class get_utf8_len:
    self_shape = TERM
    params = dict(bytenum=Int)
    result = Int
    replayable = False

    def requires(s, a):
        return both(0 <= a.bytenum, a.bytenum <= 255)

    def ensures(old, s, a, result):
        b = a.bytenum
        yield "at-most-seven-terminates", both(0 <= result, result <= 7)
        yield "lead-byte-lengths", both(implies(both(0xC0 <= b, b <= 0xDF), result == 1), implies(both(0xE0 <= b, b <= 0xEF), result == 2), implies(both(0xF0 <= b, b <= 0xF7), result == 3))
        yield "not-a-lead-byte", implies(b < 0x40, result == 0)
