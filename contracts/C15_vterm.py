"""C15 — terminal emulator: the grid operations of urwid/vterm.py:TermCanvas under the class invariant GI
(DESIGN §6 C15) and, per operation, the content postcondition a VT100 has for it.

Grid model: `term` is a list of rows, a row a list of cells, a cell an opaque triple (attribute, charset name,
character bytes).  Rows are held BY VALUE (pyvc/seqs.py: fresh_seq / RowRef): the model has no aliasing between
rows, which is how the real code treats them (every row is built fresh by empty_line() / a slice / a concatenation
and *moved* between `term` and the scroll-back, never shared); a use the model cannot follow is `Unsupported`.
The scroll-back `collections.deque(maxlen=10000)` is the ADT model SDeque below (assumed; cross-checked against the
real deque on every run by a static check).  The byte parser is decided by the bounded check."""
import collections

import z3

from pyvc import seqs as Q
from pyvc.api import *
from pyvc.api import PROTOCOLS
from pyvc.engine import PyRaise, SExc
from pyvc.protocol import PMethod, Protocol
from pyvc.seqs import ModelObj
from pyvc.values import cur
from urwid import vterm as _vt

VT = "urwid/vterm.py:"
MODES = Obj(_vt.TermModes, dict(constrain_scrolling=Bool, visible_cursor=Bool, autowrap=Bool, insert=Bool, lfnl=Bool))
CHARSET = Obj(_vt.TermCharset, dict(current=Opaque("CsName")))
CELL = Tup(Opaque("Attr"), Opaque("CsName"), Opaque("Bytes", lit=(bytes,)))
ROW = ListOf(CELL)
GRID = ListOf(ROW)
SCROLLBACK_MAX = 10000


# ---- collections.deque(maxlen=N) holding rows: dual-use transition functions + the symbolic ADT

def dq_append(content, maxlen, v):
    """deque.append with maxlen: when full the leftmost element is discarded."""
    n = Q.seq_len(content)
    return Q.seq_concat(Q.seq_slice1(content, ite(n >= maxlen, 1, 0), n), (v,))


def dq_pop(content):
    """deque.pop() on a non-empty deque: (rightmost element, the rest)."""
    n = Q.seq_len(content)
    return Q.seq_get(content, n - 1), Q.seq_slice1(content, 0, n - 1)


class SDeque(ModelObj):
    """`collections.deque(maxlen=maxlen)` of rows (rows by value, as in the grid)."""

    def __init__(self, st, hint, maxlen=SCROLLBACK_MAX):
        self.maxlen = maxlen
        self.seq = ListOf(ROW, max_len=maxlen).fresh_seq(st, hint)

    def py_truth(self, st):
        return Q.seq_len(self.seq) > 0

    def py_len(self, st):
        return Q.seq_len(self.seq)

    def py_call(self, ip, st, name, args, kwargs):
        if name == "append" and len(args) == 1:
            self.seq = dq_append(self.seq, self.maxlen, Q.row_value(args[0]))
            return None
        if name == "pop" and not args:
            n = Q.seq_len(self.seq)
            if st.branch(n == 0):
                raise PyRaise(SExc(IndexError, ("pop from an empty deque",), site="builtin"))
            v, self.seq = dq_pop(self.seq)
            return Q.LRef(v)  # a detached list: rows are never shared
        raise Unsupported(f"deque.{name}")


def _xcheck_deque():
    """The transition functions above against the real collections.deque, exhaustively over a small scope."""
    import itertools

    n = 0
    for maxlen in (1, 2, 3):
        for ops in itertools.product(("a", "p"), repeat=5):
            real, model, k = collections.deque(maxlen=maxlen), (), 0
            for op in ops:
                if op == "a":
                    k += 1
                    real.append(k)
                    model = tuple(dq_append(model, maxlen, k))
                elif real:
                    v, model = dq_pop(model)
                    model = tuple(model)
                    if v != real.pop():
                        return "deque-model-vs-cpython", False, f"pop differs after {ops}"
                if tuple(real) != model:
                    return "deque-model-vs-cpython", False, f"content differs after {ops} maxlen={maxlen}: {tuple(real)} vs {model}"
                n += 1
    return "deque-model-vs-cpython", True, f"{n} steps compared"


class TermWidgetProtocol(Protocol):
    """The Terminal widget as seen from its canvas: `respond(string)` queues a reply for the hosted program
    (logged in the ghost trace; it has no effect on the canvas)."""

    kind = "TermWidget"
    methods = {"respond": PMethod(None, params=["string"])}

    def call(self, ip, st, recv, name, args, kwargs):
        if name != "respond" or len(args) != 1 or kwargs:
            raise Unsupported(f"Terminal.{name}")
        st.event("call", recv, name, {"string": args[0]}, None)
        return None


PROTOCOLS["TermWidget"] = TermWidgetProtocol()

TERM = Obj(_vt.TermCanvas, dict(
    width=Int, height=Int, scrollregion_start=Int, scrollregion_end=Int, term_cursor=Tup(Int, Int), modes=MODES,
    is_rotten_cursor=Bool, has_focus=Bool, scrolling_up=Int, cursor=Opt(Tup(Int, Int)),
    term=GRID, scrollback_buffer=Custom(lambda st, hint: SDeque(st, hint), "deque(maxlen=10000) of rows"),
    attrspec=Opaque("Attr"), charset=CHARSET, saved_cursor=Opt(Tup(Int, Int)), tabstops=ListOf(Int(0, 255)),
    widget=Opaque("TermWidget")))
FIELDS = tuple(TERM.fields)
HELPERS = ("TermCanvas.empty_char", "TermCanvas.empty_line")  # 1-line constructors of a blank cell / a fresh blank row


# ---- spec vocabulary (contract side; dual use where it matters)

def rows_of(t):
    return t.seq if isinstance(t, Q.LRef) else t


def cell(t, r, x):
    """Cell x of row r of a grid value."""
    return Q.seq_get(Q.seq_get(rows_of(t), r), x)


def cell_eq(a, b):
    return both(eq(a[0], b[0]), eq(a[1], b[1]), eq(a[2], b[2]))


def blank(s, ch=b" "):
    """The cell the terminal writes when it erases: current attribute and charset, a space."""
    return (s.attrspec, s.charset.current, ch)


def row_len(t, r):
    return Q.seq_len(Q.seq_get(rows_of(t), r))


def same_row(t1, r1, t2, r2, w):
    """Row r1 of t1 has the cells of row r2 of t2 (both of width w)."""
    return forall(0, w, lambda x: cell_eq(cell(t1, r1, x), cell(t2, r2, x)))


def row_eq_seq(row, t2, r2):
    """A row value equals row r2 of grid t2 (length and cells)."""
    other = Q.seq_get(rows_of(t2), r2)
    n = Q.seq_len(row)
    return both(n == Q.seq_len(other), forall(0, n, lambda x: cell_eq(Q.seq_get(row, x), Q.seq_get(other, x))))


def blank_row(t, r, s, w, ch=b" "):
    return forall(0, w, lambda x: cell_eq(cell(t, r, x), blank(s, ch)))


def rows_same(old, s, lo, hi, shift=0):
    """Rows lo..hi-1 of the new grid are rows lo+shift.. of the old one."""
    return forall(lo, hi, lambda r: same_row(s.term, r, old.term, r + shift, old.width))


def grid_shape(s):
    return both(Q.seq_len(rows_of(s.term)) == s.height, forall(0, s.height, lambda r: row_len(s.term, r) == s.width))


def GI(s):
    """Grid invariant: positive size; `term` is height rows of width cells; scrolling region and cursor inside
    the grid; the view offset inside the scroll-back; a tab-stop byte for every column."""
    x, y = s.term_cursor
    return both(s.width >= 1, s.height >= 1, 0 <= s.scrollregion_start, s.scrollregion_start <= s.scrollregion_end,
                s.scrollregion_end <= s.height - 1, 0 <= x, x < s.width, 0 <= y, y < s.height, s.scrolling_up >= 0,
                s.scrolling_up <= Q.seq_len(s.scrollback_buffer.seq), Q.seq_len(rows_of(s.tabstops)) * 8 >= s.width,
                grid_shape(s))


def same_value(a, b, w=None):
    """Equality of two field values (scalars, tuples, optionals; lists and the deque by content identity)."""
    if isinstance(a, Q.LRef):
        if a.seq is b.seq:
            return True
        if Q.is_nested(a.seq) or Q.is_nested(b.seq):
            n = Q.seq_len(a.seq)
            return both(n == Q.seq_len(b.seq), forall(0, n, lambda r: both(row_len(a, r) == row_len(b, r), forall(0, row_len(a, r), lambda x: cell_eq(cell(a, r, x), cell(b, r, x))))))
        n = Q.seq_len(a.seq)
        return both(n == Q.seq_len(b.seq), forall(0, n, lambda k: eq(Q.seq_get(a, k), Q.seq_get(b, k))))
    if isinstance(a, SDeque):
        return a.seq is b.seq or same_value(Q.LRef(a.seq), Q.LRef(b.seq))
    if isinstance(a, Q.SObj):
        return both(*[same_value(a.fields[k], b.fields[k]) for k in a.fields])
    if isinstance(a, tuple):
        return both(*[same_value(x, y) for x, y in zip(a, b)])
    return opt_eq(a, b)


def frame(old, s, *modified):
    """Every modelled field of the canvas outside `modified` is as it was."""
    return both(*[same_value(s.fields[k], old.fields[k]) for k in FIELDS if k not in modified])


@contract(VT + "TermCanvas.constrain_coords", property="C15")
class constrain_coords:
    self_shape = TERM
    params = dict(x=Int, y=Int, ignore_scrolling=Bool)
    result = Tup(Int, Int)
    invariant = staticmethod(GI)
    replayable = False
    deterministic = True

    def ensures(old, s, a, result):
        x, y = result
        yield "inside-the-grid", both(0 <= x, x < old.width, 0 <= y, y < old.height)
        region = both(old.modes.constrain_scrolling, neg(a.ignore_scrolling))
        yield "inside-the-scrolling-region-in-origin-mode", implies(region, both(old.scrollregion_start <= y, y <= old.scrollregion_end))
        yield "unchanged-when-already-inside", implies(both(0 <= a.x, a.x < old.width, ite(region, both(old.scrollregion_start <= a.y, a.y <= old.scrollregion_end), both(0 <= a.y, a.y < old.height))),
                                                       both(x == a.x, y == a.y))
        yield "column-kept-when-inside", implies(both(0 <= a.x, a.x < old.width), x == a.x)
        yield "nearest-cell", both(implies(a.x >= old.width, x == old.width - 1), implies(a.x < 0, x == 0))


@contract(VT + "TermCanvas.set_term_cursor", property="C15")
class set_term_cursor:
    self_shape = TERM
    params = dict(x=Opt(Int), y=Opt(Int))
    modifies = ("term_cursor", "cursor")
    invariant = staticmethod(GI)
    replayable = False

    def ensures(old, s, a, result):
        x, y = s.term_cursor
        yield "cursor-inside-the-grid", both(0 <= x, x < old.width, 0 <= y, y < old.height)
        ax = old.term_cursor[0] if is_none(a.x) else val(a.x)
        ay = old.term_cursor[1] if is_none(a.y) else val(a.y)
        want = constrain_coords.spec_value(old, x=ax, y=ay, ignore_scrolling=False)
        yield "is-the-constrained-request", both(x == want[0], y == want[1])
        if not is_none(s.cursor):
            cx, cy = val(s.cursor)
            yield "displayed-cursor-inside-the-canvas", both(0 <= cx, cx < old.width, 0 <= cy, cy < old.height)
            yield "displayed-only-with-focus-and-visible", both(old.has_focus, old.modes.visible_cursor)


@contract(VT + "TermCanvas.move_cursor", property="C15")
class move_cursor:
    self_shape = TERM
    params = dict(x=Int, y=Int, relative_x=Bool, relative_y=Bool, relative=Bool)
    invariant = staticmethod(GI)
    replayable = False

    def ensures(old, s, a, result):
        x, y = s.term_cursor
        yield "cursor-inside-the-grid", both(0 <= x, x < old.width, 0 <= y, y < old.height)
        yield "wrap-pending-cleared", s.is_rotten_cursor == False  # noqa: E712
        ox, oy = old.term_cursor
        rx = either(a.relative_x, a.relative)
        yield "column-addressed-or-relative", implies(both(0 <= ite(rx, a.x + ox, a.x), ite(rx, a.x + ox, a.x) < old.width), x == ite(rx, a.x + ox, a.x))


@contract(VT + "TermCanvas.get_utf8_len", property="C15")
class get_utf8_len:
    self_shape = TERM
    params = dict(bytenum=Int)
    result = Int
    replayable = False

    def requires(s, a):
        return both(0 <= a.bytenum, a.bytenum <= 255)

    def ensures(old, s, a, result):
        b = a.bytenum
        yield "at-most-seven-terminates", both(0 <= result, result <= 7)
        yield "lead-byte-lengths", both(implies(both(0xC0 <= b, b <= 0xDF), result == 1), implies(both(0xE0 <= b, b <= 0xEF), result == 2), implies(both(0xF0 <= b, b <= 0xF7), result == 3))
        yield "not-a-lead-byte", implies(b < 0x40, result == 0)


# =================================================================================================
# grid operations


@contract(VT + "TermCanvas.blank_line", property="C15")
class blank_line:
    self_shape = TERM
    params = dict(row=Int)
    modifies = ("term",)
    invariant = staticmethod(GI)
    inline = HELPERS
    replayable = False
    independent_posts = True

    def requires(s, a):
        return both(0 <= a.row, a.row < s.height)

    def ensures(old, s, a, result):
        yield "that-row-is-blank", blank_row(s.term, a.row, old, old.width)
        yield "other-rows-unchanged", both(rows_same(old, s, 0, a.row), rows_same(old, s, a.row + 1, old.height))
        yield "frame", frame(old, s, "term")


@contract(VT + "TermCanvas.scroll", property="C15")
class scroll:
    self_shape = TERM
    params = dict(reverse=Bool)
    modifies = ("term", "scrollback_buffer")
    invariant = staticmethod(GI)
    inline = HELPERS
    replayable = False
    independent_posts = True

    def ensures(old, s, a, result):
        top, bot, w = old.scrollregion_start, old.scrollregion_end, old.width
        yield "outside-the-region-unchanged", both(rows_same(old, s, 0, top), rows_same(old, s, bot + 1, old.height))
        if a.reverse:
            yield "region-moves-down-one", rows_same(old, s, top + 1, bot + 1, shift=-1)
            yield "top-of-region-blank", blank_row(s.term, top, old, w)
            yield "scrollback-untouched", same_value(s.scrollback_buffer, old.scrollback_buffer)
        else:
            yield "region-moves-up-one", rows_same(old, s, top, bot, shift=1)
            yield "bottom-of-region-blank", blank_row(s.term, bot, old, w)
            nb, na = Q.seq_len(old.scrollback_buffer.seq), Q.seq_len(s.scrollback_buffer.seq)
            yield "line-scrolled-off-is-kept-last-in-scrollback", both(
                na == imin(nb + 1, SCROLLBACK_MAX), row_eq_seq(Q.seq_get(s.scrollback_buffer.seq, na - 1), old.term, top))
            drop = na - 1 - nb  # 0, or -1 when the full scroll-back dropped its oldest line
            yield "earlier-scrollback-kept-in-order", forall(0, na - 1, lambda k: row_eq_seq(Q.seq_get(s.scrollback_buffer.seq, k), Q.LRef(old.scrollback_buffer.seq), k - drop))
        yield "frame", frame(old, s, "term", "scrollback_buffer")
